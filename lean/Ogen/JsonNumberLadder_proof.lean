import Ogen.JsonNumberValue_proof
import Mathlib.Data.Nat.Digits.Defs
/-! Proof probe for C18, number half: on number spellings `-? int (. frac)? ([eE] [+-]? digits)?` without leading
    zeros, the whole ladder of `equalNumber` after D2 (both zero / same bytes / both integers / exact comparison)
    decides equality of the rational values. -/
namespace JEqNum

def valS (s : Spell) : ℚ := val s.neg (mant s) (expo s)

/-- the part of the JSON number grammar the proof needs: a non-empty integer part of decimal digits without a
    leading zero -/
structure WFS (s : Spell) : Prop where
  intNe : s.int ≠ []
  intDig : ∀ d ∈ s.int, d < 10
  noLead : s.int = [0] ∨ s.int.head? ≠ some 0

theorem value_zero {ds : List ℕ} (h : ∀ d ∈ ds, d = 0) : value ds = 0 := by
  unfold value
  induction ds with
  | nil => rfl
  | cons d ds ih =>
    have hd : d = 0 := h d (List.mem_cons_self ..)
    subst hd
    simpa using ih (fun d hd => h d (List.mem_cons_of_mem _ hd))

theorem value_eq_ofDigits (ds : List ℕ) : value ds = Nat.ofDigits 10 ds.reverse := by
  unfold value
  rw [Nat.ofDigits_eq_foldr, List.foldr_reverse]
  congr 1
  funext v d
  simp only [Nat.cast_id]
  ring

theorem zero_of_value_zero {ds : List ℕ} (h : value ds = 0) : ∀ d ∈ ds, d = 0 := by
  rw [value_eq_ofDigits] at h
  intro d hd
  exact Nat.digits_zero_of_eq_zero (by norm_num) h d (List.mem_reverse.mpr hd)

theorem value_inj {a b : List ℕ} (ha : a ≠ []) (hb : b ≠ []) (hda : ∀ d ∈ a, d < 10) (hdb : ∀ d ∈ b, d < 10)
    (hla : a = [0] ∨ a.head? ≠ some 0) (hlb : b = [0] ∨ b.head? ≠ some 0) (h : value a = value b) : a = b := by
  have zero_case : ∀ {x : List ℕ}, x ≠ [] → (x = [0] ∨ x.head? ≠ some 0) → value x = 0 → x = [0] := by
    intro x hx hl hv
    rcases hl with h0 | h0
    · exact h0
    · exfalso
      cases x with
      | nil => exact hx rfl
      | cons d ds =>
        have := zero_of_value_zero hv d (List.mem_cons_self ..)
        subst this
        simp at h0
  rcases hla with rfl | hla
  · have : value b = 0 := by rw [← h]; rfl
    exact (zero_case hb hlb this).symm
  rcases hlb with rfl | hlb
  · have : value a = 0 := by rw [h]; rfl
    exact zero_case ha (Or.inr hla) this
  have key : ∀ {x : List ℕ}, x ≠ [] → (∀ d ∈ x, d < 10) → x.head? ≠ some 0 →
      Nat.digits 10 (value x) = x.reverse := by
    intro x hx hd hl
    rw [value_eq_ofDigits]
    apply Nat.digits_ofDigits 10 (by norm_num)
    · intro l hl'; exact hd l (List.mem_reverse.mp hl')
    · intro hne
      rw [List.getLast_reverse]
      cases x with
      | nil => exact absurd rfl hx
      | cons d ds => simpa using hl
  have h1 := key ha hda hla
  have h2 := key hb hdb hlb
  rw [h] at h1
  have : a.reverse = b.reverse := h1.symm.trans h2
  exact List.reverse_injective this

theorem isZeroS_mant {s : Spell} (h : isZeroS s = true) : mant s = 0 := by
  unfold isZeroS at h
  simp only [Bool.and_eq_true, List.all_eq_true, beq_iff_eq] at h
  exact value_zero h.2

theorem int_expo {s : Spell} (h : isIntS s = true) : expo s = 0 ∧ mant s = value s.int ∧ s.frac = none ∧ s.exp = none := by
  unfold isIntS at h
  simp only [Bool.and_eq_true, Option.isNone_iff_eq_none] at h
  obtain ⟨hf, he⟩ := h
  simp [expo, mant, fracDigits, hf, he]

/-- **the number ladder decides value equality** -/
theorem numEqS_iff (a b : Spell) (ha : WFS a) (hb : WFS b) : numEqS a b = true ↔ valS a = valS b := by
  unfold numEqS
  by_cases hzz : (isZeroS a && isZeroS b) = true
  · simp only [hzz, if_true, true_iff]
    simp only [Bool.and_eq_true] at hzz
    have h1 : valS a = 0 := (val_zero_iff ..).mpr (isZeroS_mant hzz.1)
    have h2 : valS b = 0 := (val_zero_iff ..).mpr (isZeroS_mant hzz.2)
    rw [h1, h2]
  · simp only [hzz, Bool.false_eq_true, if_false]
    by_cases hab : a = b
    · subst hab; simp
    · have : (a == b) = false := by simpa using hab
      simp only [this, Bool.false_eq_true, if_false]
      by_cases hint : (isIntS a && isIntS b) = true
      · simp only [hint, if_true, Bool.false_eq_true, false_iff]
        simp only [Bool.and_eq_true] at hint
        obtain ⟨ea, ma, fa, xa⟩ := int_expo hint.1
        obtain ⟨eb, mb, fb, xb⟩ := int_expo hint.2
        intro hv
        have hc := (cmp_iff a.neg (mant a) (expo a) b.neg (mant b) (expo b)).mpr hv
        rw [ea, eb, ma, mb] at hc
        simp only [cmp, min_self, sub_self, Int.toNat_zero, pow_zero, mul_one] at hc
        by_cases hz : value a.int = 0 ∧ value b.int = 0
        · -- both are the spelling of zero: the first rung would have fired
          apply hzz
          have za : isZeroS a = true := by
            simp only [isZeroS, xa, fracDigits, fa, Option.isNone_none, Option.getD_none, List.append_nil,
              Bool.true_and, List.all_eq_true, beq_iff_eq]
            exact zero_of_value_zero hz.1
          have zb : isZeroS b = true := by
            simp only [isZeroS, xb, fracDigits, fb, Option.isNone_none, Option.getD_none, List.append_nil,
              Bool.true_and, List.all_eq_true, beq_iff_eq]
            exact zero_of_value_zero hz.2
          simp [za, zb]
        · have hcond : (decide (value a.int = 0) && decide (value b.int = 0)) = false := by simpa using hz
          rw [if_neg (by rw [hcond]; simp)] at hc
          simp only [Bool.and_eq_true, beq_iff_eq] at hc
          apply hab
          have hi : a.int = b.int := value_inj ha.intNe hb.intNe ha.intDig hb.intDig ha.noLead hb.noLead hc.2
          cases a; cases b
          simp only at fa fb xa xb hi hc
          simp [fa, fb, xa, xb, hi, hc.1]
      · simp only [hint, Bool.false_eq_true, if_false]
        exact cmp_iff ..

#print axioms numEqS_iff

/-- so the ladder is an equivalence relation on well-formed spellings -/
theorem numEqS_symm {a b} (ha : WFS a) (hb : WFS b) (h : numEqS a b = true) : numEqS b a = true :=
  (numEqS_iff b a hb ha).mpr ((numEqS_iff a b ha hb).mp h).symm
theorem numEqS_trans {a b c} (ha : WFS a) (hb : WFS b) (hc : WFS c) (h1 : numEqS a b = true) (h2 : numEqS b c = true) :
    numEqS a c = true :=
  (numEqS_iff a c ha hc).mpr (((numEqS_iff a b ha hb).mp h1).trans ((numEqS_iff b c hb hc).mp h2))

/-- non-vacuity and the D2 inputs: 9007199254740993 ≠ 9007199254740992.0 once the comparison is exact -/
example : numEqS ⟨false, [1], none, none⟩ ⟨false, [1, 0], none, some (false, some true, [1])⟩ = true := by decide
example : numEqS ⟨false, [9,0,0,7,1,9,9,2,5,4,7,4,0,9,9,3], none, none⟩
                 ⟨false, [9,0,0,7,1,9,9,2,5,4,7,4,0,9,9,2], some [0], none⟩ = false := by decide
/-- why `noLead` is needed: `01` against `1` are both integers with different bytes, so the ladder says "different" -/
example : numEqS ⟨false, [0, 1], none, none⟩ ⟨false, [1], none, none⟩ = false := by decide
end JEqNum
