import Ogen.ParamNeverWrong_proof
import Ogen.IntRoundTrip_proof
/-! C01: what is specific to the client/server exchange on top of the codec (C06) and text (C13) models —
    response-variant selection, parameter presence and defaults, and the composition for integer parameters. -/
namespace Exchange

/-! ### response variants: `encode_response` writes the variant's status, `decode_response` selects
    exact code → pattern (`status / 100`) → default → unexpected status -/
inductive Variant where
  | code (c : Nat) | pattern (k : Nat) | dflt
deriving DecidableEq, Repr

/-- the status `encodeXResponse` writes: fixed for a code variant, the carried `StatusCode` otherwise
    (`0` is written as 200) -/
def statusOf (v : Variant) (carried : Nat) : Nat :=
  match v with
  | .code c => c
  | _ => if carried = 0 then 200 else carried

/-- `decodeXResponse`'s switch ladder -/
def select (declared : List Variant) (status : Nat) : Option Variant :=
  if Variant.code status ∈ declared then some (.code status)
  else if Variant.pattern (status / 100) ∈ declared then some (.pattern (status / 100))
  else if Variant.dflt ∈ declared then some .dflt
  else none

/-- the status belongs to the variant: exact code; or pattern/default *and not claimed by a more specific one* -/
def Owns (declared : List Variant) (v : Variant) (status : Nat) : Prop :=
  match v with
  | .code c => status = c
  | .pattern k => status / 100 = k ∧ Variant.code status ∉ declared
  | .dflt => Variant.code status ∉ declared ∧ Variant.pattern (status / 100) ∉ declared

/-- **the caller decodes the variant the handler returned**, when its status belongs to it -/
theorem response_select_inverse (declared : List Variant) (v : Variant) (status : Nat)
    (hv : v ∈ declared) (ho : Owns declared v status) : select declared status = some v := by
  unfold select
  cases v with
  | code c => simp only [Owns] at ho; subst ho; simp [hv]
  | pattern k =>
    obtain ⟨hk, hn⟩ := ho
    subst hk
    simp [hn, hv]
  | dflt =>
    obtain ⟨h1, h2⟩ := ho
    simp [h1, h2, hv]

/-- and never anything else: whatever is selected is declared and owns the status -/
theorem select_sound (declared : List Variant) (v : Variant) (status : Nat)
    (h : select declared status = some v) : v ∈ declared ∧ Owns declared v status := by
  unfold select at h
  split at h
  · cases h; exact ⟨‹_›, rfl⟩
  · split at h
    · cases h; exact ⟨‹_›, rfl, ‹_›⟩
    · split at h
      · cases h; exact ⟨‹_›, ‹_›, ‹_›⟩
      · cases h

/-- code variants always own the status they write -/
theorem code_owns (declared : List Variant) (c carried : Nat) : Owns declared (.code c) (statusOf (.code c) carried) := rfl

/-- K3: a default variant carrying a status that the spec assigns to another variant is decoded as that other
    variant (with incompatible bodies the caller gets a decode error, which the property allows) -/
theorem k3_witness : select [.code 200, .code 404, .dflt] (statusOf .dflt 404) = some (.code 404) := by decide

/-! ### parameter presence and defaults (`parameter_decode.tmpl`): the default is applied when the parameter is
    absent, a required parameter that is absent is an error, a present one is decoded -/
inductive PErr where | required | decode
deriving DecidableEq, Repr

def decodeParam {W V : Type} (required : Bool) (dflt : Option V) (wire : Option W) (dec : W → Option V) :
    Except PErr (Option V) :=
  match wire with
  | none => if required then .error .required else .ok dflt
  | some w => match dec w with | some v => .ok (some v) | none => .error .decode

theorem absent_default {W V : Type} (d : V) (dec : W → Option V) :
    decodeParam false (some d) (none : Option W) dec = .ok (some d) := rfl
theorem absent_required {W V : Type} (dflt : Option V) (dec : W → Option V) :
    decodeParam true dflt (none : Option W) dec = .error .required := rfl
theorem present_decoded {W V : Type} (required : Bool) (dflt : Option V) (w : W) (dec : W → Option V) (v : V)
    (h : dec w = some v) : decodeParam required dflt (some w) dec = .ok (some v) := by
  simp [decodeParam, h]
/-- a present parameter never silently falls back to the default -/
theorem present_never_default {W V : Type} (required : Bool) (dflt : Option V) (w : W) (dec : W → Option V)
    (r : Option V) (h : decodeParam required dflt (some w) dec = .ok r) : ∃ v, dec w = some v ∧ r = some v := by
  unfold decodeParam at h
  simp only at h
  split at h
  · rename_i v hv; cases h; exact ⟨v, hv, rfl⟩
  · cases h

/-! ### composition for integer parameters: value → decimal text (C13) → style encoding, transport, decoding
    (C06) → `ParseInt` -/
open Codec IntRT

/-- the whole pipeline for a primitive integer parameter of width `bits` -/
def intParamTrip (bits : Nat) (c : Cfg) (v : Int) : Option Int :=
  match roundTrip c (.prim (fmtInt v)) with
  | .ok (.prim t) => parseInt bits t
  | _ => none

/-- **an integer parameter is never delivered as a different value**: in every location, style and explode
    setting, whatever reaches the handler is the integer the caller supplied -/
theorem int_param_never_wrong (bits : Nat) (hb : 0 < bits) (c : Cfg) (hshape : c.shape = .prim) (v v' : Int)
    (hlo : -(2 ^ (bits - 1) : Int) ≤ v) (hhi : v < (2 ^ (bits - 1) : Int))
    (h : intParamTrip bits c v = some v') : v' = v := by
  unfold intParamTrip at h
  split at h
  · rename_i t hrt
    have hfit : Fits c (.prim (fmtInt v)) := hshape
    rcases c06_never_wrong_partial c (.prim (fmtInt v)) (.prim t) hfit hrt with heq | hk
    · cases heq
      rw [int_rt bits hb v hlo hhi] at h
      cases h; rfl
    · -- the known classes are all arrays
      rcases hk with ⟨_, _, _, h4⟩ | ⟨_, _, _, h4⟩ | ⟨_, h4⟩ | ⟨_, h4⟩ <;> cases h4
  · cases h

example : intParamTrip 64 ⟨.path, .matrix, true, .prim, [0x70]⟩ (-42) = some (-42) := by decide
example : intParamTrip 8 ⟨.query, .form, true, .prim, [0x70]⟩ (-128) = some (-128) := by decide

#print axioms int_param_never_wrong
#print axioms response_select_inverse

/-! line protocol: `rsel <declared: c200,p4,d …> <status>` -/
def parseVariant (s : String) : Variant :=
  if s == "d" then .dflt else if s.startsWith "p" then .pattern (s.drop 1).toString.toNat! else .code (s.drop 1).toString.toNat!
def showVariant : Variant → String
  | .code c => s!"c{c}" | .pattern k => s!"p{k}" | .dflt => "d"
def rselLine (line : String) : String :=
  match (line.splitOn " ").filter (· ≠ "") with
  | [decl, st] =>
    match select ((decl.splitOn ",").map parseVariant) st.toNat! with
    | some v => showVariant v
    | none => "unexpected"
  | _ => "bad"
end Exchange
