import Ogen.RouterBuildComplete_proof
/-! Proof probe for C05: the end-to-end statements about the tree `buildFrom` returns and the matcher `edge`,
    in one vocabulary (templates as `List Sym`, instances through `Fill`). -/
namespace Tree

/-! ### lookup soundness restated on `tb`/`Fill` -/
theorem stripPrefix_some {p s r : Bytes} (h : stripPrefix p s = some r) : s = p ++ r := by
  induction p generalizing s with
  | nil => simp [stripPrefix] at h; simp [h]
  | cons a ps ih =>
    cases s with
    | nil => simp [stripPrefix] at h
    | cons b bs =>
      simp only [stripPrefix] at h
      split at h
      · rename_i hab; subst hab; simp [ih h]
      · cases h

theorem cutAt_append (p : UInt8 → Bool) (s : Bytes) : (cutAt p s).1 ++ (cutAt p s).2 = s := by
  induction s with
  | nil => rfl
  | cons b bs ih =>
    unfold cutAt
    split
    · rfl
    · simp [ih]

theorem tb_self (n : Node) : ([], n.routes) ∈ tb n := mem_tb.mpr (Or.inl rfl)

theorem tb_child {n c : Node} (hc : c ∈ n.children) {t r} (h : (t, r) ∈ tb c) :
    (symsOfPart c ++ t, r) ∈ tb n := mem_tb.mpr (Or.inr ⟨c, hc, (t, r), h, rfl⟩)

def Good (n : Node) (elem : Bytes) (r : R) : Prop :=
  ∃ t, (t, r.1) ∈ tb n ∧ Fill t r.2 elem

theorem viaStatic_good {recEdge statics elem r} {n : Node}
    (hrec : ∀ c rest r, recEdge c rest = some r → Good c rest r)
    (hst : ∀ c ∈ statics, c ∈ n.children ∧ c.isParam = false)
    (h : viaStatic recEdge statics elem = some r) : Good n elem r := by
  unfold viaStatic at h
  split at h
  · cases h
  · rename_i e0 erest
    split at h
    · cases h
    · rename_i c hfind
      split at h
      · cases h
      · rename_i rest hstrip
        obtain ⟨t, ht, hfill⟩ := hrec c rest r h
        have hc := hst c (List.mem_of_find?_eq_some hfind)
        refine ⟨symsOfPart c ++ t, tb_child hc.1 ht, ?_⟩
        rw [stripPrefix_some hstrip]
        simp only [symsOfPart, hc.2, Bool.false_eq_true, if_false]
        exact fill_bytes c.pfx hfill

theorem viaParam_good {recEdge c elem r} {n : Node}
    (hrec : ∀ c rest r, recEdge c rest = some r → Good c rest r)
    (hc : c ∈ n.children ∧ c.isParam = true)
    (h : viaParam recEdge c elem = some r) : Good n elem r := by
  unfold viaParam at h
  simp only at h
  split at h
  · split at h
    · cases h
    · cases hE : recEdge c [] with
      | none => simp [hE] at h
      | some r' =>
        simp [hE] at h
        obtain ⟨t, ht, hfill⟩ := hrec c [] r' hE
        subst h
        refine ⟨symsOfPart c ++ t, tb_child hc.1 ht, ?_⟩
        simp only [symsOfPart, hc.2, if_true, List.singleton_append]
        have := Fill.hole (a := elem) hfill
        simpa using this
  · generalize hcut : cutAt _ elem = cu at h
    cases hE : recEdge c cu.2 with
    | none => simp [hE] at h
    | some r' =>
      simp [hE] at h
      obtain ⟨t, ht, hfill⟩ := hrec c cu.2 r' hE
      subst h
      refine ⟨symsOfPart c ++ t, tb_child hc.1 ht, ?_⟩
      have hsplit := cutAt_append (fun b => ((c.children.filter (fun d => !d.isParam)).map (·.head)).any (· = b)) elem
      rw [hcut] at hsplit
      simp only [symsOfPart, hc.2, if_true, List.singleton_append]
      have := Fill.hole (a := cu.1) hfill
      rw [hsplit] at this
      exact this

theorem edge_good (fuel : Nat) : ∀ n elem r, edge fuel n elem = some r → Good n elem r := by
  induction fuel with
  | zero => intro n elem r h; simp [edge] at h
  | succ fuel ih =>
    intro n elem r h
    unfold edge at h
    split at h
    · split at h
      · rename_i hel
        cases h
        have : elem = [] := by simpa using hel
        subst this
        exact ⟨[], tb_self n, Fill.nil⟩
      · cases h
    · split at h
      · rename_i hcond
        cases h
        have : elem = [] := by simp at hcond; exact hcond.2
        subst this
        exact ⟨[], tb_self n, Fill.nil⟩
      · simp only at h
        split at h
        · cases h
        · split at h
          · rename_i r' hs
            cases h
            exact viaStatic_good ih (by
              intro c hc
              have := List.mem_filter.mp hc
              exact ⟨this.1, by simpa using this.2⟩) hs
          · split at h
            · cases h
            · rename_i c rest hfil
              have hmem : c ∈ n.children.filter (fun c => c.isParam) := by rw [hfil]; exact List.mem_cons_self ..
              have := List.mem_filter.mp hmem
              exact viaParam_good ih ⟨this.1, by simpa using this.2⟩ h

/-- **C05, first sentence, end to end.** In the tree built from any route list (any order, any splits), whatever
    path is looked up with whatever fuel: every route of the dispatched node has a template that, filled with the
    extracted arguments, is exactly the path. -/
theorem dispatch_sound (key : Route → List Sym) (fuel0 : Nat) (routes : List (Bytes × Route)) (n : Node)
    (hr : ∀ pm ∈ routes, ∃ sp, Syms pm.1 sp ∧ key pm.2 = sp)
    (hb : buildFrom fuel0 emptyRoot routes = .ok n)
    (fuel : Nat) (elem : Bytes) (rs : List Route) (args : List Bytes)
    (h : edge fuel n elem = some (rs, args)) : ∀ r ∈ rs, Fill (key r) args elem := by
  obtain ⟨_, hnj⟩ := build_noJunk key fuel0 routes n hr hb
  obtain ⟨t, ht, hfill⟩ := edge_good fuel n elem (rs, args) h
  intro r hrm
  have := hnj (t, rs) ht r hrm
  simp at this
  rw [this]; exact hfill

#print axioms dispatch_sound

/-! ### a fully static template wins at its own path -/
theorem edge_static (fuel : Nat) : ∀ (n : Node) (elem : Bytes) (rs : List Route),
    TreeOK n → Reach n [] elem rs → elem.length + 1 ≤ fuel → edge fuel n elem = some (rs, []) := by
  induction fuel with
  | zero => intro n elem rs _ _ h; omega
  | succ fuel ih =>
    intro n elem rs hok hreach hfuel
    cases hok with
    | mk hn hkids =>
    unfold edge
    generalize hargs : ([] : List Bytes) = args at hreach
    cases hreach with
    | here hrs =>
      by_cases hleaf : n.children.isEmpty = true
      · simp [hleaf]
      · have : n.routes.isEmpty = false := by
          cases hr : n.routes with
          | nil => exact absurd hr hrs
          | cons _ _ => rfl
        simp [hleaf, this]
    | @static _ c _ elem' _ hc hcs hreach' =>
      subst hargs
      obtain ⟨hne, hhead, _⟩ := hn.staticPfx c hc hcs
      have hcne : n.children.isEmpty = false := by
        cases hch : n.children with
        | nil => rw [hch] at hc; cases hc
        | cons _ _ => rfl
      have helem_ne : (c.pfx ++ elem').isEmpty = false := by
        cases hpf : c.pfx with
        | nil => exact absurd hpf hne
        | cons _ _ => rfl
      simp only [hcne, Bool.false_eq_true, if_false, helem_ne, Bool.and_false]
      have hmem : c ∈ n.children.filter (fun c => !c.isParam) := List.mem_filter.mpr ⟨hc, by simp [hcs]⟩
      have hvia : viaStatic (edge fuel) (n.children.filter (fun c => !c.isParam)) (c.pfx ++ elem') = some (rs, []) := by
        unfold viaStatic
        cases hpf : c.pfx with
        | nil => exact absurd hpf hne
        | cons b r =>
          have hb : c.head = b := by rw [hpf] at hhead; simpa using hhead.symm
          simp only [List.cons_append]
          have hfind := find_unique (pairwise_filter (p := fun c => !c.isParam) hn.headsDistinct) hmem
          rw [hb] at hfind
          simp only [hfind]
          have hsp : stripPrefix c.pfx (b :: (r ++ elem')) = some elem' := by
            have := stripPrefix_append c.pfx elem'
            rw [hpf] at this ⊢
            simpa using this
          rw [hsp]
          have hlen : elem'.length + 1 ≤ fuel := by
            have : (c.pfx ++ elem').length = c.pfx.length + elem'.length := by simp
            have hpl : 0 < c.pfx.length := List.length_pos_iff.mpr hne
            omega
          exact ih c elem' rs (hkids c hc) hreach' hlen
      simp [hvia]
    | param _ _ _ _ _ => cases hargs

theorem map_some_split {l p : Bytes} {sp : List Sym} (h : l.map some = p.map some ++ sp) :
    ∃ l', l = p ++ l' ∧ sp = l'.map some := by
  induction p generalizing l with
  | nil => exact ⟨l, rfl, by simpa using h.symm⟩
  | cons a ps ih =>
    cases l with
    | nil => simp at h
    | cons b bs =>
      simp at h
      obtain ⟨hab, hrest⟩ := h
      obtain ⟨l', hl, hsp⟩ := ih hrest
      exact ⟨l', by rw [hab, hl]; rfl, hsp⟩

theorem present_static {n : Node} {sp : List Sym} {m : Route} (h : Present n sp m) :
    ∀ l : Bytes, sp = l.map some → ∃ rs, m ∈ rs ∧ Reach n [] l rs := by
  induction h with
  | @here n r hr =>
    intro l hl
    have : l = [] := by cases l with | nil => rfl | cons _ _ => simp at hl
    subst this
    have hne : n.routes ≠ [] := by intro h0; rw [h0] at hr; cases hr
    exact ⟨n.routes, hr, Reach.here hne⟩
  | @static n c sp r hc hs _ ih =>
    intro l hl
    obtain ⟨l', rfl, hsp⟩ := map_some_split hl.symm
    obtain ⟨rs, hm, hreach⟩ := ih l' hsp
    exact ⟨rs, hm, Reach.static hc hs hreach⟩
  | @param n c sp r hc hp _ _ =>
    intro l hl
    cases l with
    | nil => simp at hl
    | cons _ _ => simp at hl

/-- **C05, "a path equal to a fully static template always beats templated ones".** -/
theorem static_wins (fuel0 : Nat) (routes : List (Bytes × Route)) (n : Node)
    (hr : ∀ pm ∈ routes, ∃ sp, Syms pm.1 sp ∧ NoAdj sp)
    (hb : buildFrom fuel0 emptyRoot routes = .ok n) :
    ∀ pm ∈ routes, noBrace pm.1 → ∀ fuel, pm.1.length + 1 ≤ fuel →
      ∃ rs, pm.2 ∈ rs ∧ edge fuel n pm.1 = some (rs, []) := by
  have hr' : ∀ pm ∈ routes, ∃ sp, Syms pm.1 sp := fun pm hpm => let ⟨sp, hs, _⟩ := hr pm hpm; ⟨sp, hs⟩
  obtain ⟨hwf, hdis, hpres⟩ := build_present fuel0 routes n hr' hb
  have hpk : PK n := buildFrom_pk fuel0 routes emptyRoot n hr (by simp [emptyRoot, Node.isParam, Node.paramName])
    (WF.mk (by simp) (by simp)) (PK.mk (by simp [emptyRoot, Node.children]) (by simp [emptyRoot, Node.children])) hb
  have hok : TreeOK n := treeOK_of hwf hdis hpk
  intro pm hpm hnb fuel hfuel
  obtain ⟨rs, hm, hreach⟩ := present_static (hpres pm hpm _ (Syms.static hnb)) pm.1 rfl
  exact ⟨rs, hm, edge_static fuel n pm.1 rs hok hreach hfuel⟩

#print axioms static_wins

/-- **C05 completeness with the dispatched template named**: the instance is dispatched, and whatever it is
    dispatched to has a template that the path instantiates with the arguments the matcher extracted. -/
theorem build_complete_sound (key : Route → List Sym) (fuel0 : Nat) (routes : List (Bytes × Route)) (n : Node)
    (hr : ∀ pm ∈ routes, ∃ sp, Syms pm.1 sp ∧ NoAdj sp ∧ key pm.2 = sp)
    (hb : buildFrom fuel0 emptyRoot routes = .ok n) :
    ∀ pm ∈ routes, ∀ sp, Syms pm.1 sp →
      ∃ tails : List (List UInt8), ∀ args, FitsArgs tails args →
        ∃ elem, Fill sp args elem ∧ ∀ fuel, elem.length + args.length + 1 ≤ fuel →
          ∃ rs args', edge fuel n elem = some (rs, args') ∧ ∀ r ∈ rs, Fill (key r) args' elem := by
  intro pm hpm sp hs
  obtain ⟨tails, ht⟩ := build_complete fuel0 routes n
    (fun pm hpm => let ⟨sp, h1, h2, _⟩ := hr pm hpm; ⟨sp, h1, h2⟩) hb pm hpm sp hs
  refine ⟨tails, ?_⟩
  intro args hf
  obtain ⟨elem, hfill, hdisp⟩ := ht args hf
  refine ⟨elem, hfill, ?_⟩
  intro fuel hfuel
  obtain ⟨⟨rs, args'⟩, hres⟩ := hdisp fuel hfuel
  exact ⟨rs, args', hres, dispatch_sound key fuel0 routes n
    (fun pm hpm => let ⟨sp, h1, _, h3⟩ := hr pm hpm; ⟨sp, h1, h3⟩) hb fuel elem rs args' hres⟩

#print axioms build_complete_sound
end Tree
