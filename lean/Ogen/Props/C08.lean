import Ogen.RegexSemantics_proof
import Ogen.RegexFlatCommute_proof
import Ogen.RegexAstCommute_proof
import Ogen.Generated.Facts_regex
/-!
# C08 — converted regular expressions match exactly what the ECMA-262 pattern matches (partial)

Three layers.
1. **Semantics** (`Ogen/RegexSemantics_proof.lean`): a common `Core` regex with one executable matching
   semantics (`accepts` = "matches somewhere", what `MatchString` means); `ecmaDenote` gives ECMA-262
   (code-point, no flags) meaning to the fragment *literals, `.`, `\s \S \d \D \w \W`, `[^]`, `[]`, `\cX`,
   `^ $ \b \B`, concatenation, alternation, `* + ?`*; `re2Denote` gives Go-`regexp` meaning to what the
   converter emits; `convAst` is the conversion at AST level. `preserves` is the unbounded claim: every
   expression, every subject string. Its content is in the atom lemmas, which quantify over all code points.
2. **Regenerated facts** (`Ogen/Generated/Facts_regex.lean`, from `ogenregex/convert.go` on every run): the
   `whitespaceChars` and `re2Dot` constants and the two replacement classes for `[]` / `[^]`. The `facts_*`
   theorems say that the constants the atom lemmas are about *are* the constants in the source.
3. **Syntax** (`Ogen/RegexConvert_feasibility.lean`, `RegexFlatCommute_proof.lean`): a model of
   `parser.scan / scanGroup / scanBracket / scanEscape`; `convert_flat` proves that `Convert` on a printed
   sequence of flat tokens is the concatenation of the token conversions, and `convert_whole_expr`
   (`RegexAstCommute_proof.lean`) that on the printed form of **any expression of the fragment of layer 1**
   (fully parenthesised with non-capturing groups, any size and nesting) `Convert` emits exactly the printed
   form of `convAst e` — which with `preserves` closes the chain text → text for that fragment: the text the
   converter writes denotes what the text it read denotes (trusted there: that an ECMAScript parser reads
   `printE e` as `e` and RE2's reads `printR r` as `r`). Classes with ranges and the look-ahead escapes
   (`\0…`, `\x`, `\u`) are **not** proved to commute; the model is compared with the real `Convert` on
   random token sequences on every run, and the end-to-end behaviour `Compile(p).MatchString(s)` with the
   ECMA semantics above.
-/
namespace C08
open ReSem

/-- **language preservation**: the converted expression accepts exactly the subject strings the ECMA-262
    expression accepts — every expression of the fragment, every string -/
theorem preserves (e : E) (s : List Char) :
    accepts (re2Denote (convAst e)) s = accepts (ecmaDenote e) s := conv_preserves e s

/-- atoms over **all** code points: `\s` is ECMA WhiteSpace ∪ LineTerminator … -/
theorem ws_atom (c : Char) : whitespaceChars.contains c = (whiteSpace c || lineTerminator c) := ReSem.ws_atom c
/-- … `.` excludes exactly the four line terminators … -/
theorem dot_atom (c : Char) : (dotExcluded.contains c != true) = !lineTerminator c := ReSem.dot_atom c
/-- … and the `[^]` / `[]` replacement range covers every code point (false with the bound U+1FFFF: D3) -/
theorem any_atom (c : Char) : ((Char.ofNat 0).toNat ≤ c.toNat && c.toNat ≤ anyHi.toNat) = true := ReSem.any_atom c
theorem d3_before_fix : ((Char.ofNat 0).toNat ≤ (Char.ofNat 0x20000).toNat &&
    (Char.ofNat 0x20000).toNat ≤ (Char.ofNat 0x1FFFF).toNat) = false := by decide

/-! **fact ties**: the constants of the proofs are the constants of the source -/
def fact (name : String) : List Nat := ((Facts.Regex.consts.find? (·.1 == name)).map (·.2)).getD []

theorem facts_whitespace : fact "whitespaceChars" = whitespaceChars.map Char.toNat ∧
    fact "whitespaceChars" = Conv.whitespaceChars.map Char.toNat := by decide
theorem facts_dot : fact "re2Dot" = [0x5b, 0x5e] ++ dotExcluded.map Char.toNat ++ [0x5d] ∧
    fact "re2Dot" = Conv.re2Dot.map Char.toNat := by decide
theorem facts_any_class : Facts.Regex.anyClass = [0x5b, 0, 0x2d, anyHi.toNat, 0x5d] := by decide
theorem facts_empty_class : Facts.Regex.emptyClass = [0x5b, 0x5e, 0, 0x2d, anyHi.toNat, 0x5d] := by decide

/-- **syntax, flat tokens**: `Convert` on a printed sequence of flat tokens (literals other than `\ ( ) [ .`,
    the dot, and the escapes whose conversion does not look at what follows) is the concatenation of the token
    conversions -/
theorem convert_flat (toks : List Conv.Tok) (hok : ∀ t ∈ toks, t.ok) :
    Conv.convert (toks.flatMap Conv.Tok.print) = .ok (toks.flatMap Conv.Tok.conv) := Conv.convert_flat toks hok

/-- **syntax, whole expressions**: for every expression of the fragment (literals that are plain characters, `.`,
    `\s \S \d \D \w \W`, `[^]`, `[]`, `\cX`, `^ $ \b \B`, concatenation, alternation, `* + ?`, nested to any
    depth), `Convert` applied to its printed form yields the printed form of its AST-level translation -/
theorem convert_whole_expr (e : E) (hp : Conv.Printable e) :
    Conv.convert (Conv.printE e) = .ok (Conv.printR (convAst e)) := Conv.convert_printed e hp

/-! non-vacuity -/
example : accepts (ecmaDenote (.cat .bol (.cat (.plus (.space false)) .eol))) [' ', Char.ofNat 0x2028, Char.ofNat 0xfeff] = true := by
  decide
end C08
