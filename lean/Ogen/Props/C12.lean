import Ogen.Norm_feasibility
/-!
# C12 — path normalization is total, canonical, idempotent and meaning-preserving

Property theorems only; the model (`Norm.normalize`, a statement-by-statement rendering of
`uri.NormalizeEscapedPath` with every `s[i]` an explicit read that yields `panic` out of range)
and the helper lemmas are in `Ogen/Norm_feasibility.lean`. All statements quantify over every
byte string; nothing is bounded.
-/
namespace C12
open Norm

/-- never panics -/
theorem total (s : Bytes) : normalize s ≠ .panic := normalize_total s

/-- reports an error exactly for an invalid percent-escape (`Valid` = every `%` is followed by
    two hex digits — an inductive grammar, independent of the scanning code) -/
theorem invalid_iff (s : Bytes) : normalize s = .err ↔ ¬ Valid s := normalize_err_iff s

/-- a result decodes to the same octets, and is canonical: every escape that remains is
    upper-case and escapes a byte outside RFC 3986's unreserved set (`Canon`) -/
theorem same_octets_canonical {s t : Bytes} (h : normalize s = .ok t) :
    Valid s ∧ Canon t ∧ octets t = octets s := normalize_ok_spec h

/-- normalizing twice equals normalizing once -/
theorem idempotent {s t : Bytes} (h : normalize s = .ok t) : normalize t = .ok t := normalize_idem h

/-- the normal form is a function of the canonical token list alone … -/
theorem normal_form {s : Bytes} {ts : List Tok} (ht : tokens s = some ts) :
    normalize s = .ok (render (ts.map canonTok)) := normalize_eq_render ht

/-- … hence spellings that differ only in hex case or needless escaping are identified -/
theorem equivalent_spellings {s s' : Bytes} {ts ts' : List Tok} (h : tokens s = some ts)
    (h' : tokens s' = some ts') (heq : ts.map canonTok = ts'.map canonTok) :
    normalize s = normalize s' := normalize_equiv h h' heq

/-! non-vacuity: concrete inputs on every branch (byte lists; `/`=2f `%`=25 `~`=7e) -/
example : normalize [0x2f, 0x25, 0x33, 0x66, 0x25, 0x36, 0x31] = .ok [0x2f, 0x25, 0x33, 0x46, 0x61] := by decide
example : normalize [0x25, 0x36, 0x31, 0x25] = .err := by decide          -- "%61%": the D1 witness, now refused
example : normalize [0x25, 0x36, 0x31, 0x25, 0x7a, 0x7a] = .err := by decide  -- "%61%zz"
example : Valid [0x2f, 0x25, 0x33, 0x66] := .raw (by decide) (.esc (by decide) (by decide) .nil)
example : tokens [0x25, 0x37, 0x65] = some [.esc 0x7e] := by decide
example : tokens [0x7e] = some [.raw 0x7e] := by decide
example : [Tok.esc 0x7e].map canonTok = [Tok.raw 0x7e].map canonTok := by decide
end C12
