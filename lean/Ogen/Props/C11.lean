import Ogen.Props.C12
import Ogen.Props.C07
import Ogen.Props.C16
/-!
# C11 — the generator is total (partial: the modelled components only)

Whole-generator totality over arbitrary bytes is not a statement a model of this size can carry. What is
proved is totality of the components that are modelled, each with Go's panics an explicit outcome or with
termination built into the definition:
* path keys: `NormalizeEscapedPath` never panics (`path_key_total`; the replayable C11 violation found while
  reading — a `paths` key `"/a%61%"` panicked the parser — was in exactly this component);
* reference resolution: `RefChain.resolve` is a *total function* (structural recursion on the depth counter —
  Lean accepts no other), cycles and dangling references end in an error (`ref_cycles_error`);
* JSON Pointer: `Ptr.resolve` is total by structural recursion over the token list and answers `ok`, `err` or
  `unmodelled`, never anything else.
Everything else in parser and generator (and the clause about `line:column` positions) is outside the model:
it is exercised on the implementation by single-fault mutations of the corpus specs, truncations, random
bytes and deep nesting through `ogen.Parse + gen.NewGenerator + WriteSource` under `recover` and a watchdog.
-/
namespace C11

theorem path_key_total (s : Norm.Bytes) : Norm.normalize s ≠ .panic := C12.total s

theorem ref_cycles_error (env : Nat → Option RefChain.Raw) (d : Nat) (seen : List Nat) (name k : Nat)
    (hno : ∀ p, ¬ RefChain.Reaches env k p) : ∃ e, RefChain.resolve true env d seen [] name k = .error e :=
  C07.no_payload_error env d seen name k hno

/-- the resolver answers within its depth budget whatever the document: a chain that needs more than `d` steps
    is an error, not a loop (instance: an endless chain `k ↦ k+1`) -/
theorem ref_depth_error : RefChain.resolve true (fun k => some (.inl (k + 1))) 5 [] [] 0 0 = .error .depth := by rfl

theorem pointer_total (ptr : Ptr.Bytes) (n : Ptr.Node) :
    (∃ r, Ptr.resolve ptr n = .ok r) ∨ Ptr.resolve ptr n = .err ∨ Ptr.resolve ptr n = .unmodelled := by
  cases h : Ptr.resolve ptr n with
  | ok r => exact .inl ⟨r, rfl⟩
  | err => exact .inr (.inl rfl)
  | unmodelled => exact .inr (.inr rfl)
end C11
