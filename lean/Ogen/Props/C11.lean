import Ogen.Props.C12
import Ogen.Props.C07
import Ogen.Props.C16
import Ogen.DocLines_proof
import Ogen.Listing_proof
import Ogen.Lines_proof
/-!
# C11 — the generator is total (partial: the modelled components only)

Whole-generator totality over arbitrary bytes is not a statement a model of this size can carry. What is
proved is totality of the components that are modelled, each with Go's panics an explicit outcome or with
termination built into the definition:
* path keys: `NormalizeEscapedPath` never panics (`path_key_total`; the replayable C11 violation found while
  reading — a `paths` key `"/a%61%"` panicked the parser — was in exactly this component);
* reference resolution: `RefChain.resolve` is a *total function* (structural recursion on the depth counter —
  Lean accepts no other), cycles and dangling references end in an error (`ref_cycles_error`);
* JSON Pointer: `Ptr.resolve` is total by structural recursion over the token list and answers `ok`, `err` or
  `unmodelled`, never anything else.
Everything else in parser and generator (and the clause about `line:column` positions) is outside the model:
it is exercised on the implementation by single-fault mutations of the corpus specs, truncations, random
bytes and deep nesting through `ogen.Parse + gen.NewGenerator + WriteSource` under `recover` and a watchdog.
-/
namespace C11

theorem path_key_total (s : Norm.Bytes) : Norm.normalize s ≠ .panic := C12.total s

theorem ref_cycles_error (env : Nat → Option RefChain.Raw) (d : Nat) (seen : List Nat) (name k : Nat)
    (hno : ∀ p, ¬ RefChain.Reaches env k p) : ∃ e, RefChain.resolve true env d seen [] name k = .error e :=
  C07.no_payload_error env d seen name k hno

/-- the resolver answers within its depth budget whatever the document: a chain that needs more than `d` steps
    is an error, not a loop (instance: an endless chain `k ↦ k+1`) -/
theorem ref_depth_error : RefChain.resolve true (fun k => some (.inl (k + 1))) 5 [] [] 0 0 = .error .depth := by rfl

theorem pointer_total (ptr : Ptr.Bytes) (n : Ptr.Node) :
    (∃ r, Ptr.resolve ptr n = .ok r) ∨ Ptr.resolve ptr n = .err ∨ Ptr.resolve ptr n = .unmodelled := by
  cases h : Ptr.resolve ptr n with
  | ok r => exact .inl ⟨r, rfl⟩
  | err => exact .inr (.inl rfl)
  | unmodelled => exact .inr (.inr rfl)
/-! ### the doc-comment line breaker (`ir.splitLine`, gen/ir/description.go)

`DocLines.splitLoop` is the `for` loop of `splitLine`; Lean accepts it as a total function with the length of the
rest as measure (`lastBreak_lt`: the break index lies inside the rest, so each round removes at least one byte) —
**the loop terminates on every input**.  Tied to the code through a hook (`ir.VerifSplitLine`, driver tag
`docsplit`): all texts up to length 7 over a five-symbol alphabet at small limits, the description shapes of
`c11Shapes`, random texts. -/

/-- the loop always produces at least one line (and returns: it is a Lean function) -/
theorem doc_split_total (limit : Nat) (s : DocLines.Str) : DocLines.splitLoop limit s ≠ [] :=
  DocLines.loop_nonempty limit s

/-- **nothing but white space is dropped**: the lines, concatenated, are the input without some white space -/
theorem doc_split_keeps_text (limit : Nat) (s : DocLines.Str) :
    DocLines.nonSp (DocLines.splitLine limit s).flatten = DocLines.nonSp s :=
  DocLines.split_keeps_nonspace limit s

/-- every line produced by a cut (every line but the last) has at most `limit - 1` bytes -/
theorem doc_split_line_bound (limit : Nat) (s : DocLines.Str) :
    ∀ l ∈ (DocLines.splitLoop limit s).dropLast, l.length ≤ limit - 1 :=
  DocLines.loop_cut_lines_short limit s

example : DocLines.splitLine 10 [97, 97, 32, 98, 98, 98, 46, 99, 99, 99, 99, 32, 100] =
    [[97, 97, 32, 98, 98, 98, 46], [99, 99, 99, 99, 32, 100]] := by
  simp [DocLines.splitLine, DocLines.trim, DocLines.trimLeft, DocLines.isSp, DocLines.splitLoop, DocLines.lastBreak,
    DocLines.lastBreakGo, DocLines.isBreak]

/-- the listing printed with a located diagnostic (`location.PrintHighlights`): the blank padding of every printed
    line number is non-negative (`buf[:padding]` does not panic) … -/
theorem listing_padding_nonneg (hi idx : Nat) (h : idx ≤ hi) : Listing.log10 (idx + 1) ≤ Listing.padNum hi :=
  Listing.padding_nonneg hi idx h

/-- … and fits the 32-byte buffer for every line index of a 64-bit `int` -/
theorem listing_padding_fits (hi idx : Nat) (hhi : hi + 1 < 2 ^ 63) :
    Listing.padNum hi - Listing.log10 (idx + 1) ≤ 32 := Listing.padding_fits_buffer hi idx hhi

/-- before fix 769cc43e a listing that ends at line 1000 asked for `buf[:-1]` (witness) -/
theorem listing_padding_negative_before_fix : Listing.padNumOld 999 < Listing.log10 (999 + 1) :=
  Listing.padding_negative_before_fix

/-- `location.Lines.Collect`: the loop over `bytes.IndexByte` collects exactly the offsets of the newlines, in order -/
theorem lines_collect_spec (data : List Nat) : LinesM.collectLoop data 0 = LinesM.newlines data 0 :=
  LinesM.collectLoop_eq data.length data 0 (Nat.le_refl _)

theorem lines_collect_mem (data : List Nat) (j : Nat) :
    j ∈ LinesM.newlines data 0 ↔ j < data.length ∧ data[j]? = some LinesM.NL := by
  rw [LinesM.mem_newlines]; simp

/-- `location.Lines.Line`: for every document and line number the range can be sliced (`start ≤ end ≤ len(data)`) … -/
theorem lines_range_ok (data : List Nat) (n : Nat) (r : Nat × Nat)
    (h : LinesM.line data.length (LinesM.newlines data 0) n = some r) : r.1 ≤ r.2 ∧ r.2 ≤ data.length :=
  LinesM.line_range_ok data n r h

/-- … and is one line: no newline lies strictly inside it -/
theorem lines_range_is_one_line (data : List Nat) (n : Nat) (r : Nat × Nat)
    (h : LinesM.line data.length (LinesM.newlines data 0) n = some r) (j : Nat) (hj : r.1 < j ∧ j < r.2) :
    data[j]? ≠ some LinesM.NL := LinesM.line_has_no_inner_newline data n r h j hj

end C11
