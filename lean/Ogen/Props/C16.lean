import Ogen.JsonPointer_proof
/-!
# C16 — JSON Pointers resolve as RFC 6901 prescribes

Model: `Ptr.resolve` / `Ptr.find` (`jsonpointer.Resolve`, `find`, `splitFunc`, `unescape`, `findKey`,
`findIdx`, `url.PathUnescape`), on documents `Node = scalar | map | seq` of any shape.
Spec, written independently as inductive relations: `TokOk` (the `~0`/`~1` grammar), `rfcIndex`
(array-index grammar), `Eval`, `Rfc` (plain form), `Pct` (percent-decoding), `RfcAny` (both forms).
-/
namespace C16
open Ptr

/-- never a different node: whatever `Resolve` returns, in either spelling, is the node RFC 6901
    evaluation designates (no hypothesis on the document) -/
theorem never_different (ptr : Bytes) (n r : Node) (h : resolve ptr n = .ok r) : RfcAny ptr n r :=
  resolve_never_different ptr n r h

/-- sound and complete, both spellings; completeness for arrays shorter than 2^64 -/
theorem resolve_iff (ptr : Bytes) (n r : Node) (hs : Small n) :
    resolve ptr n = .ok r ↔ (RfcAny ptr n r ∧ (ptr = [] ∨ ptr.head? = some 0x2f ∨ ptr.head? = some 0x23)) :=
  resolve_iff_rfc ptr n r hs

/-- plain form -/
theorem find_iff (ptr : Bytes) (n r : Node) (hs : Small n) : find ptr n = some r ↔ Rfc ptr n r :=
  find_iff_rfc ptr n r hs

/-- the one-pass replacer is RFC 6901's decoding on every token with a valid `~` grammar … -/
theorem tilde_sound (raw : Bytes) (h : escapesOk raw = true) : TokOk raw (unescape raw) :=
  tokOk_of_escapesOk raw h
/-- … and only those tokens decode at all -/
theorem tilde_complete {raw d : Bytes} (h : TokOk raw d) : escapesOk raw = true ∧ unescape raw = d :=
  escapesOk_of_tokOk h

/-- percent-decoding of the fragment form is RFC 3986 decoding -/
theorem pct_iff (s d : Bytes) : pctDecode s = some d ↔ Pct s d :=
  ⟨pctDecode_sound s d, pctDecode_complete⟩

/-! non-vacuity (`/`=2f `~`=7e `0`=30 `1`=31 `#`=23 `%`=25) -/
abbrev doc : Node := .map [([0x61, 0x2f, 0x62], .seq [.scalar 1, .scalar 2]), ([0x7e], .scalar 3), ([], .scalar 4)]
example : resolve [0x2f, 0x61, 0x7e, 0x31, 0x62, 0x2f, 0x31] doc = .ok (.scalar 2) := by rfl      -- /a~1b/1
example : resolve [0x23, 0x2f, 0x61, 0x7e, 0x31, 0x62, 0x2f, 0x25, 0x33, 0x31] doc = .ok (.scalar 2) := by rfl  -- #/a~1b/%31
example : resolve [0x2f, 0x7e, 0x30] doc = .ok (.scalar 3) := by rfl                               -- /~0
example : resolve [0x2f] doc = .ok (.scalar 4) := by rfl                                           -- "/" = member ""
example : resolve [0x2f, 0x61, 0x7e, 0x31, 0x62, 0x2f, 0x30, 0x31] doc = .err := by rfl             -- /a~1b/01 (D7)
example : resolve [0x2f, 0x7e, 0x32] doc = .err := by rfl                                          -- /~2 (D7)
example : Small doc := by
  refine .map ?_
  intro kv hkv
  simp only [List.mem_cons, List.not_mem_nil, or_false] at hkv
  rcases hkv with rfl | rfl | rfl
  · exact .seq (by decide) (by intro x hx; simp at hx; rcases hx with rfl | rfl <;> exact .scalar)
  · exact .scalar
  · exact .scalar
/-! ### reference keys (`jsonpointer.RefKey.FromURL`, `ResolveCtx.Key`) -/

/-- the pointer of the key built for a reference whose fragment is written `frag` (after `#`): since fix d6e2c732
    the written text (`url.URL.EscapedFragment`), before it the decoded text (`url.URL.Fragment`) -/
def keyPtr (frag : Bytes) : Bytes := 0x23 :: frag
def keyPtrOld (frag : Bytes) : Option Bytes := (pctDecode frag).map (0x23 :: ·)

/-- resolving through the key is resolving the fragment as written -/
theorem refkey_transparent (frag : Bytes) (n : Node) : resolve (keyPtr frag) n = resolve (0x23 :: frag) n := rfl

abbrev docPct : Node := .map [([0x61, 0x41], .scalar 1), ([0x61, 0x25, 0x34, 0x31], .scalar 2)]
/-- `ext.json#/a%2541` designates member `a%41`; the key as it was built before the fix resolved member `aA`
    (witness: a different node) -/
theorem refkey_double_decode_before_fix :
    resolve (0x23 :: [0x2f, 0x61, 0x25, 0x32, 0x35, 0x34, 0x31]) docPct = .ok (.scalar 2) ∧
    (keyPtrOld [0x2f, 0x61, 0x25, 0x32, 0x35, 0x34, 0x31]).map (fun p => resolve p docPct) = some (.ok (.scalar 1)) := by
  constructor <;> rfl

end C16
