import Ogen.SecurityHandler_proof
import Ogen.AuthHeader_proof
import Ogen.Generated.Facts_tmpl
/-!
# C09 — security requirements

Model: `Sec.set/test/maskOf/covers` (`internal/bitset`, the `[N]uint8` masks and the
`satisfied[i] & mask != mask` loop of `handlers.tmpl`), `Sec.runSchemes` / `Sec.secDecide` (the scheme
loop in index order: an error aborts with 401, an accepted scheme sets its bit; then ∃ requirement
covered). Scheme outcomes are abstract (`absent | accepted | skipped | rejected`): how a credential is
found in the request is exercised on the implementation through the generated client (all scheme kinds).
-/
namespace C09
open Sec

/-- **(regenerated facts) the template's two bit-set statements are the ones the model is written from**:
    scheme `idx` sets bit `idx mod 8` of byte `idx div 8` (`Sec.set`), and a requirement is *not* satisfied
    when `satisfied[i] & mask != mask` for some byte (`Sec.covers` is the negation over all bytes) — read off
    the text of `gen/_template/handlers.tmpl` on every run -/
theorem facts_mask_statements :
    Facts.Tmpl.securityTest = "if satisfied[i] & mask != mask {" ∧
    Facts.Tmpl.securitySetBit = "satisfied[{{ div $idx 8 }}] |= 1 << {{ mod $idx 8 }}" := by decide

/-- mask arithmetic for **any** number of schemes (across byte boundaries): a requirement's mask is covered
    by `satisfied` iff every scheme it names has its bit set -/
theorem mask_semantics (sat : Bitset) (req : List Nat) :
    covers sat (maskOf req) = true ↔ ∀ i ∈ req, test sat i = true := Sec.mask_semantics sat req

/-- after the scheme loop `satisfied` has exactly the bits of the accepted schemes -/
theorem satisfied_iff (os : List Outcome) (sat : Bitset) (h : runSchemes os 0 [] = some sat) (j : Nat) :
    test sat j = true ↔ os[j]? = some Outcome.accepted := Sec.satisfied_iff os sat h j

/-- **safety (full strength)**: the handler is invoked only if the operation has no security schemes, or
    no scheme handler failed and some alternative has every one of its schemes accepted -/
theorem handler_only_if (os : List Outcome) (reqs : List (List Nat)) (h : secDecide os reqs = .handler) :
    os = [] ∨ (Outcome.rejected ∉ os ∧ ∃ r ∈ reqs, AltAccepted os r) := Sec.handler_only_if os reqs h

/-- **liveness (partial)**: if no scheme handler returns an error, a fully accepted alternative suffices.
    The full "if" direction is false — `k2` — and recorded as known finding K2. -/
theorem handler_if_partial (os : List Outcome) (reqs : List (List Nat)) (hnr : Outcome.rejected ∉ os)
    (h : ∃ r ∈ reqs, AltAccepted os r) : secDecide os reqs = .handler := Sec.handler_if_partial os reqs hnr h

/-- otherwise 401, handler not invoked -/
theorem else_unauthorized (os : List Outcome) (reqs : List (List Nat)) (hne : os ≠ [])
    (h : Outcome.rejected ∈ os ∨ ¬ ∃ r ∈ reqs, AltAccepted os r) : secDecide os reqs = .unauthorized :=
  Sec.else_unauthorized os reqs hne h

/-- the empty (anonymous) alternative is always satisfied -/
theorem anonymous (os : List Outcome) (reqs : List (List Nat)) (hnr : Outcome.rejected ∉ os) (h : [] ∈ reqs) :
    secDecide os reqs = .handler := Sec.anonymous os reqs hnr h

/-- K2 witnesses: an erroring scheme handler aborts although another alternative is satisfied -/
theorem k2 : secDecide [.rejected, .accepted] [[0], [1]] = .unauthorized ∧ AltAccepted [.rejected, .accepted] [1] :=
  Sec.k2_witness
theorem k2_anonymous : secDecide [.rejected] [[], [0]] = .unauthorized := Sec.k2_witness_anonymous
/-! ### how a bearer / basic credential is found in the request (`findAuthorization`, security.tmpl)

The scheme outcomes above start from "the credential is present"; this is the step before: the model
`AuthH.find` (tied to regenerated servers through the driver tag `authz`: header value lists with one to three
values, the separator byte varied, scheme names in other cases and with the two non-ASCII code points that fold
into ASCII letters). -/

/-- **credentials are taken from a header value only if it reads `scheme SP credentials`** with the scheme name
    equal to the expected one up to case — and then they are everything after the first space of the first such
    value -/
theorem authorization_found_iff (scheme : AuthH.Str) (values : List AuthH.Str) (tok : AuthH.Str) :
    AuthH.find scheme values = some tok ↔
      ∃ pre v post, values = pre ++ v :: post ∧ AuthH.Carries scheme v tok ∧
        ∀ w ∈ pre, ∀ t, ¬ AuthH.Carries scheme w t := AuthH.find_iff scheme values tok

/-- no value of that form ⇒ the scheme counts as absent (with no other alternative: 401, handler not invoked) -/
theorem authorization_absent_iff (scheme : AuthH.Str) (values : List AuthH.Str) :
    AuthH.find scheme values = none ↔ ∀ v ∈ values, ∀ t, ¬ AuthH.Carries scheme v t :=
  AuthH.find_none_iff scheme values

/-- a value whose scheme name is followed by anything but a space carries nothing (`BearerXtok`, `Bearer=tok`) -/
example : AuthH.find (AuthH.s "Bearer") [AuthH.s "BearerXtok", AuthH.s "Bearer=tok", AuthH.s "Bearer\ttok"] = none := by decide

end C09
