import Ogen.ParamNoPanic_proof
import Ogen.FlatQueryCoreDelivered_proof
import Ogen.KnownClassWitnesses_proof
import Ogen.StyleTable_proof
/-!
# C06 — parameter serialization follows the style table and is lossless

Model (`Ogen/UriCodecLib.lean`): the `uri` encoders as generated code drives them
(`EncodeValue / EncodeArray / EncodeField` → receiver → `Result/serialize`), what travels (escaped
path segment, `url.Values`, header value, escaped cookie value), the transport (`PathUnescape`,
`ParseQuery ∘ Values.Encode`, cookie unescape) and the decoders over `cursor`; `roundTrip` is their
composition, with Go panics an explicit outcome. `admitted` is `validateParamStyle`'s table cut by
the generator's `isSupportedParamStyle`.
-/
namespace C06
open Codec

/-- no configuration admitted by parser and generator makes either side panic, whatever the value
    (after the D13 fix there is no exception left) -/
theorem no_panic (c : Cfg) (v : Val) (hadm : admitted c = true) (hfit : Fits c v) :
    roundTrip c v ≠ .panic := c06_no_panic c v hadm hfit

/-- the decoders do not panic on *arbitrary* wire input -/
theorem path_decoder_total (c : Cfg) (w : Bytes) : pathDec c w ≠ .panic := pathDec_no_panic c w
theorem flat_decoder_total (c : Cfg) (kv : UInt8) (w : Option Bytes) : flatDec c kv w ≠ .panic :=
  flatDec_no_panic c kv w

/-- **never a different value** (partial: the four classes W1–W4 — arrays that are empty or hold
    one empty string in a non-exploded style — are carved out; they are refuted below and recorded
    as known finding K1). Object field names are distinct (`Fits`): they are the property names of
    one schema, and with a repeated name the statement is false. Full statement:
    `roundTrip c v = .ok v' → v' = v`. -/
theorem never_wrong_partial (c : Cfg) (v v' : Val) (hfit : Fits c v) (h : roundTrip c v = .ok v') :
    v' = v ∨ inKnownClass c v := c06_never_wrong_partial c v v' hfit h

/-- for the path location there is no carve-out at all -/
theorem path_never_wrong (c : Cfg) (v v' : Val) (hloc : c.loc = .path)
    (hshape : match v with | .prim _ => c.shape = .prim | .arr _ => c.shape = .arr | .obj _ => c.shape = .obj)
    (h : roundTrip c v = .ok v') : v' = v := Codec.path_never_wrong c v v' hloc hshape h

/-- the full statement is false: W1–W4 on the model (replayed on the real codecs every run) -/
theorem w1 : roundTrip ⟨.query, .form, false, .arr, [0x70]⟩ (.arr [[]]) = .ok (.arr []) := w1_witness
theorem w2 : roundTrip ⟨.query, .pipe, false, .arr, [0x70]⟩ (.arr []) = .ok (.arr [[]]) := w2_witness
theorem w3 : roundTrip ⟨.header, .simple, false, .arr, [0x70]⟩ (.arr []) = .ok (.arr [[]]) := w3_witness
theorem w4 : roundTrip ⟨.cookie, .form, false, .arr, [0x70]⟩ (.arr []) = .ok (.arr [[]]) := w4_witness

/-- **core values are always delivered**, per location; the core domains (`CorePath`, `CoreFlat`,
    `CoreQuery`) are: non-empty texts free of the separator that is active for that style,
    non-empty collections, distinct field names -/
theorem path_core_delivered (c : Cfg) (v : Val) (hloc : c.loc = .path)
    (hshape : match v with | .prim _ => c.shape = .prim | .arr _ => c.shape = .arr | .obj _ => c.shape = .obj)
    (hname : c.style = .matrix → contains c.name 0x3d = false) (hcore : CorePath c v) :
    roundTrip c v = .ok v := Codec.path_core_delivered c v hloc hshape hname hcore
theorem header_core_delivered (c : Cfg) (v : Val) (hloc : c.loc = .header)
    (hshape : match v with | .prim _ => c.shape = .prim | .arr _ => c.shape = .arr | .obj _ => c.shape = .obj)
    (hcore : CoreFlat (if c.explode then 0x3d else 0x2c) v) : roundTrip c v = .ok v :=
  Codec.header_core_delivered c v hloc hshape hcore
theorem cookie_core_delivered (c : Cfg) (v : Val) (hloc : c.loc = .cookie)
    (hshape : match v with | .prim _ => c.shape = .prim | .arr _ => c.shape = .arr | .obj _ => c.shape = .obj)
    (hex : (∀ s, v ≠ .prim s) → c.explode = false)
    (hcore : CoreFlat 0x2c v) : roundTrip c v = .ok v := Codec.cookie_core_delivered c v hloc hshape hex hcore
theorem query_core_delivered (c : Cfg) (v : Val) (hloc : c.loc = .query)
    (hshape : match v with | .prim _ => c.shape = .prim | .arr _ => c.shape = .arr | .obj _ => c.shape = .obj)
    (hcore : CoreQuery c v) : roundTrip c v = .ok v := Codec.query_core_delivered c v hloc hshape hcore

/-- the path encoder writes the style table's serialization (`pathWire`: separators per style and
    explode, `;name=` prefixes, each text percent-escaped) for every core value -/
theorem path_style_table (c : Cfg) (v : Val) (hname : c.style = .matrix → contains c.name 0x3d = false)
    (hcore : CorePath c v) : pathEnc c v = .ok (pathWire pathEscape c v) := pathEnc_ok c v hname hcore

/-- the header, cookie and query encoders write the style table's serialization too (`headerTable`,
    `cookieTable` under cookie escaping, `queryTable`: `a,b`, `k,v,k,v`, `k=v,k=v`, one entry per item when
    exploded, `name[k]=v` for deepObject, the form / space / pipe separators) for every core value -/
theorem header_style_table (c : Cfg) (v : Val) (hcore : CoreFlat (if c.explode then 0x3d else 0x2c) v) :
    headerEnc c v = .ok (some (headerTable c.explode v)) := Codec.header_style_table c v hcore
theorem cookie_style_table (c : Cfg) (v : Val) (hex : (∀ s, v ≠ .prim s) → c.explode = false)
    (hcore : CoreFlat 0x2c v) : cookieEnc c v = .ok (some (escapeCookie (cookieTable v))) :=
  Codec.cookie_style_table c v hex hcore
theorem query_style_table (c : Cfg) (v : Val) (hcore : CoreQuery c v) :
    queryEnc c v = .ok (queryTable c v) := Codec.query_style_table c v hcore

/-- ambiguous values are refused: whenever the path encoder produces a wire, no array item
    contained the active separator and no object key/value contained its separator -/
theorem path_refuses_delims_arr {c : Cfg} {items : List Bytes} {w : Bytes} (h : pathEnc c (.arr items) = .ok w) :
    ∀ it ∈ items, contains it (arrSep c.style c.explode) = false := guard_arr h
theorem path_refuses_delims_obj {c : Cfg} {fields : List (Bytes × Bytes)} {w : Bytes} (h : pathEnc c (.obj fields) = .ok w) :
    fields ≠ [] ∧ (∀ f ∈ fields, contains f.1 (objSeps c.style c.explode).1 = false) ∧
      (∀ f ∈ fields, contains f.2 (objSeps c.style c.explode).2 = false) := guard_obj h

/-- cookie escaping is an exact inverse pair -/
theorem cookie_inverse (s : Bytes) : pctUnescape false (escapeCookie s) = some s := Codec.cookie_inverse s

/-! non-vacuity -/
example : roundTrip ⟨.path, .matrix, true, .arr, [0x71]⟩ (.arr [[0x61, 0x2f], [0x25]]) = .ok (.arr [[0x61, 0x2f], [0x25]]) := by rfl
example : admitted ⟨.path, .matrix, true, .arr, [0x71]⟩ = true := by rfl
example : Fits ⟨.query, .deep, true, .obj, [0x71]⟩ (.obj [([0x61], [0x31]), ([0x62], [])]) := ⟨rfl, by decide⟩
end C06
