import Ogen.RouterAllow_proof
import Ogen.RouterNoSlash_proof
import Ogen.RouterKnownWitnesses_proof
/-!
# C05 — the router

Model (`Ogen/RouterLookupLib.lean`): `Tree.insert` = `RouteTree.addRoute` / `RouteNode.addChild`
(common-prefix split, parameter chains, child sort, case-insensitive duplicate methods),
`Tree.buildFrom` = insertion of the generator's route list, `Tree.edge` = what `router.tmpl` unrolls
(`route_edge` / `find_edge`: leaf test, static children by head byte with prefix test and restore of the
remainder when a static branch fails — the D5 repair —, parameter children cut at their tail bytes, leaf
parameters refusing `/`), `Tree.serve` = method switch / 405 + Allow / 404.
Spec vocabulary: templates as `List Sym` (`Syms` parses the template text), `Fill t args path` = "path is
template t instantiated with args", `tb n` = templates stored in a tree with their routes.

The statements are the ones proved in the helper files; they are re-exported here under the names the
evidence lists (`#check C05.dispatch_sound` shows the full statement).
-/
namespace C05
open Tree

/-- **a request reaches an operation only if its path is that operation's template instantiated with
    the extracted arguments** — for the tree built from *any* route list in *any* order, any path, any fuel:
    `edge fuel n elem = some (rs, args) → ∀ r ∈ rs, Fill (key r) args elem` -/
theorem dispatch_sound (key : Route → List Sym) (fuel0 : Nat) (routes : List (Bytes × Route)) (n : Node)
    (hr : ∀ pm ∈ routes, ∃ sp, Syms pm.1 sp ∧ key pm.2 = sp)
    (hb : buildFrom fuel0 emptyRoot routes = .ok n)
    (fuel : Nat) (elem : Bytes) (rs : List Route) (args : List Bytes)
    (h : edge fuel n elem = some (rs, args)) : ∀ r ∈ rs, Fill (key r) args elem :=
  Tree.dispatch_sound key fuel0 routes n hr hb fuel elem rs args h

/-- **a path equal to a fully static template always beats templated ones**: an inserted brace-free template
    is returned, with no arguments, at its own path -/
theorem static_wins (fuel0 : Nat) (routes : List (Bytes × Route)) (n : Node)
    (hr : ∀ pm ∈ routes, ∃ sp, Syms pm.1 sp ∧ NoAdj sp)
    (hb : buildFrom fuel0 emptyRoot routes = .ok n) :
    ∀ pm ∈ routes, noBrace pm.1 → ∀ fuel, pm.1.length + 1 ≤ fuel →
      ∃ rs, pm.2 ∈ rs ∧ edge fuel n pm.1 = some (rs, []) :=
  Tree.static_wins fuel0 routes n hr hb

/-- **every instance of a template whose parameter values are non-empty and avoid `/` and the bytes that may
    follow that parameter (`FitsArgs tails`) reaches that template or a more specific matching one**: it is
    dispatched to some `(rs, args')` and every `r ∈ rs` has a template the path instantiates with `args'`
    — also when a static sibling matches first and fails (this is where the D5 restore is used).
    Hypothesis `NoAdj`: no two parameters in a row (`checkRoutePath` refuses them). -/
theorem complete (key : Route → List Sym) (fuel0 : Nat) (routes : List (Bytes × Route)) (n : Node)
    (hr : ∀ pm ∈ routes, ∃ sp, Syms pm.1 sp ∧ NoAdj sp ∧ key pm.2 = sp)
    (hb : buildFrom fuel0 emptyRoot routes = .ok n) :
    ∀ pm ∈ routes, ∀ sp, Syms pm.1 sp →
      ∃ tails : List (List UInt8), ∀ args, FitsArgs tails args →
        ∃ elem, Fill sp args elem ∧ ∀ fuel, elem.length + args.length + 1 ≤ fuel →
          ∃ rs args', edge fuel n elem = some (rs, args') ∧ ∀ r ∈ rs, Fill (key r) args' elem :=
  Tree.build_complete_sound key fuel0 routes n hr hb

/-- **405**: the path instantiates a template `t`, the method is not in `Allow`, and `Allow` is *exactly* the set
    of methods of the inserted routes whose template is `t` -/
theorem allow_exact (key : Route → List Sym) (fuel0 : Nat) (routes : List (Bytes × Route)) (n : Node)
    (hr : ∀ pm ∈ routes, ∃ sp, Syms pm.1 sp ∧ key pm.2 = sp)
    (hb : buildFrom fuel0 emptyRoot routes = .ok n)
    (fuel : Nat) (method : String) (elem : Bytes) (allow : List String)
    (h : serve fuel n method elem = .notAllowed allow) :
    ∃ t args, Fill t args elem ∧ method ∉ allow ∧
      ∀ m', m' ∈ allow ↔ ∃ pm ∈ routes, key pm.2 = t ∧ pm.2.method = m' :=
  Tree.allow_exact key fuel0 routes n hr hb fuel method elem allow h

/-- every route stored anywhere in the built tree was inserted (nothing is invented) -/
theorem stored_inserted (key : Route → List Sym) (fuel0 : Nat) (routes : List (Bytes × Route)) (n : Node)
    (hr : ∀ pm ∈ routes, ∃ sp, Syms pm.1 sp ∧ key pm.2 = sp)
    (hb : buildFrom fuel0 emptyRoot routes = .ok n)
    {t : List Sym} {rs : List Route} (ht : (t, rs) ∈ tb n) {r : Route} (hrm : r ∈ rs) :
    ∃ pm ∈ routes, pm.2 = r :=
  Tree.stored_inserted key fuel0 routes n hr hb ht hrm

/-- **no extracted argument contains an unescaped slash** — partial: when every parameter spans a whole
    segment (`SegParams`: each parameter node is a leaf or followed by `/` only). With any other byte after a
    parameter the clause is false: `k5` below (known finding K5; the suite pins that behaviour). -/
theorem no_slash_partial (fuel : Nat) (n : Node) (elem : Bytes) (r : R) (hseg : SegParams n)
    (h : edge fuel n elem = some r) : NoSlashArgs r :=
  Tree.edge_no_slash fuel n elem r hseg h

/-- K5 witness, on the tree the real router builds for `GET /a/{x}.json`: `/a/b/c.json` ↦ `x = "b/c"` -/
theorem k5 : (edge 20 treeK5 [0x2f, 0x61, 0x2f, 0x62, 0x2f, 0x63, 0x2e, 0x6a, 0x73, 0x6f, 0x6e]).map (·.2) =
      some [[0x62, 0x2f, 0x63]] := Tree.k5_witness
/-- K7 witnesses: the empty argument is accepted for `/{x}` alone but `/` is 404 next to a static sibling -/
theorem k7_accepts : (edge 20 treeK7a [0x2f]).map (·.2) = some [[]] := Tree.k7_witness_a
theorem k7_refuses : edge 20 treeK7c [0x2f] = none := Tree.k7_witness_c
end C05
