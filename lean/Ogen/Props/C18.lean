import Ogen.JsonEqualFinal_proof
import Ogen.EnumDup_proof
/-!
# C18 — JSON value equality used for enums and defaults is semantic equality

Model: `JEqFinal.jsonEqual` (`json.Equal`'s kind switch, string bytes, `equalNumber`'s ladder on
number *spellings*, array zip, object as last-wins map on the left and counted iteration on the
right) and `EnumDup.scan` (the double loop of `jsonschema.parse1`). The model works on ASTs: the
text layer (whitespace, string escapes, tokenisation — jx) is outside it and is exercised by the
correspondence run, which prints every AST with random whitespace, escapes and member order.

Spec: `SameValue` — same kind; strings bytewise; numbers by equality of the rationals `±m·10^e`
(`valS`, Mathlib `ℚ`); arrays pointwise; objects: every member of `b` has a same-valued member of that
name in `a`, and the sizes agree. `WFJ`: unique member names, numbers in the JSON grammar.
-/
namespace C18
open JEqFinal JEqG JEqNum

/-- the comparison holds exactly when the two texts denote the same JSON value -/
theorem eq_iff (a b : Json) (ha : WFJ a) (hb : WFJ b) : jsonEqual a b = true ↔ SameValue a b :=
  JEqFinal.eq_iff a b ha hb

/-- … and is an equivalence relation -/
theorem eq_refl (a : Json) (ha : WFJ a) : jsonEqual a a = true := JEqFinal.eq_refl a ha
theorem eq_symm (a b : Json) (ha : WFJ a) (hb : WFJ b) (h : jsonEqual a b = true) : jsonEqual b a = true :=
  JEqFinal.eq_symm a b ha hb h
theorem eq_trans (a b c : Json) (ha : WFJ a) (hb : WFJ b) (hc : WFJ c)
    (h1 : jsonEqual a b = true) (h2 : jsonEqual b c = true) : jsonEqual a c = true :=
  JEqFinal.eq_trans a b c ha hb hc h1 h2

/-- number spelling: the whole `equalNumber` ladder decides equality of rational values -/
theorem number_iff (x y : Spell) (hx : WFS x) (hy : WFS y) : numEqS x y = true ↔ valS x = valS y :=
  numEqS_iff x y hx hy

/-- a schema is rejected for duplicate enum values exactly when two members are the same value -/
theorem enum_dup_iff (l : List Json) (hwf : ∀ a ∈ l, WFJ a) :
    EnumDup.scan jsonEqual l = true ↔
      ∃ i j, ∃ (hi : i < l.length) (hj : j < l.length), i ≠ j ∧ SameValue l[i] l[j] :=
  EnumDup.enum_dup_iff l hwf

/-! non-vacuity: `{"a":[1,2.0],"b":null}` = `{"b":null,"a":[10e-1,2]}`, both well-formed -/
example : jsonEqual exA exB = true := by decide
/-- the D2 witness on the model: 9007199254740993 ≠ 9007199254740992.0 -/
example : numEqS ⟨false, [9,0,0,7,1,9,9,2,5,4,7,4,0,9,9,3], none, none⟩
    ⟨false, [9,0,0,7,1,9,9,2,5,4,7,4,0,9,9,2], some [0], none⟩ = false := by decide
example : numEqS ⟨false, [1], none, none⟩ ⟨false, [1], some [0], none⟩ = true := by decide   -- 1 = 1.0
example : numEqS ⟨false, [1], none, none⟩ ⟨false, [1], none, some (false, none, [0])⟩ = true := by decide  -- 1 = 1e0
end C18
