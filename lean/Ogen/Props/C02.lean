import Ogen.NameGen_proof
import Ogen.TStore_proof
/-!
# C02 — everything the generator writes is a Go package that compiles (partial)

What a theorem can carry here are the two *mechanisms* the property is anchored in; that the whole template
set type-checks for every accepted document is not a statement about a model small enough to write down, it is
decided by the compile matrix (`harness/cmd/corr/c02.go`: regenerate, `go build`, `go vet`), which serves as
the failing-input search for this property.

* **identifier synthesis** (`gen/names.go`, model `Ogen/NameGen_proof.lean`, rule table regenerated from
  `internal/naming/rules.go`): whatever name the generator synthesises from a spec string is a well-formed Go
  identifier — non-empty, letters and digits only (so no quote, backslash, newline or any other hostile
  character of the spec name survives), not starting with a digit, never a keyword or predeclared identifier —
  and synthesis fails exactly when the spec string contains nothing nameable.
* **type-name conflict detection** (`gen/tstorage.go`, model `Ogen/TStore_proof.lean`): along every successful
  run of `saveType` / `saveRef` / `saveWType` / `merge`, names never disappear, a non-generic type in the table
  is the only type ever bound to its name, and a binding is replaced only by a generic type (through `merge`
  only by a generic of the same base). The remaining overwrite — `saveType` of a generic over a non-generic of
  the same name — is exhibited as a witness and is, on the real generator, part of the known class K12.

Tie: T-corr through the `verif` hooks `gen.VerifPascal*`, `gen.VerifCleanSpecial`, `gen.VerifTStorageRun`
(every Unicode scalar value as a one-rune name; random hostile names; random operation sequences), T-facts for
the rule table.
-/
namespace C02
open NameGen

/-- **a synthesised name is a Go identifier made of letters and digits**: non-empty, every character safe
    (ASCII letter or digit, or one of the two letters U+0130 / U+212A whose lower-case form is ASCII), no leading
    digit — for every input string, with the rule table of the source -/
theorem name_is_identifier (special : Bool) (src name : Str)
    (h : generate Facts.Naming.rules special src = some name) :
    name ≠ [] ∧ name.all safe = true ∧ headDigit name = false :=
  generate_ident special src name h

/-- **… and never a keyword or predeclared identifier**: it does not start with a lower-case ASCII letter -/
theorem name_not_keyword (special : Bool) (src name : Str)
    (h : generate Facts.Naming.rules special src = some name) : headNotLower name = true :=
  generate_not_keyword facts_rules_head special src name h

/-- **name synthesis fails only when nothing nameable is in the input** (then the generator reports
    "can't generate valid name", a spec-level diagnostic) -/
theorem name_fails_iff_nothing_nameable (special : Bool) (src : Str) :
    generate Facts.Naming.rules special src = none ↔ joined Facts.Naming.rules special src = [] :=
  generate_none_iff facts_rules_safe special src

/-- whatever `cleanSpecial` returns consists of safe characters only -/
theorem clean_is_safe (special : Bool) (src : Str) : (clean Facts.Naming.rules special src).all safe = true :=
  clean_safe facts_rules_safe special src

/-- (regenerated facts) the rule table contains only safe, non-lower-case-initial, pairwise case-insensitively
    different words — the premises of the theorems above -/
theorem facts_rules_ok :
    RulesSafe Facts.Naming.rules ∧ RulesHead Facts.Naming.rules ∧
    (Facts.Naming.rules.map (fun r => r.map goLower)).Nodup :=
  ⟨facts_rules_safe, facts_rules_head, facts_rules_nodup⟩

/-- **no silent overwrite**: after any successful run of type-store operations, a non-generic type in the table
    was the only type ever bound to its name -/
theorem no_silent_overwrite (ops : List TStore.Op) (s s' : TStore.Store) (hk : ∀ op ∈ ops, op.keyed)
    (h : TStore.run s ops = some s') (n : String) (t : TStore.Ty) (ht : TStore.get s'.types n = some t)
    (hg : t.generic = false) : TStore.get s.types n = none ∨ TStore.get s.types n = some t :=
  TStore.run_no_silent_overwrite ops s s' hk h n t ht hg

/-- every single successful operation keeps each binding or replaces it by a generic type -/
theorem overwrite_only_by_generic (s s' : TStore.Store) (op : TStore.Op) (hk : op.keyed)
    (h : TStore.apply s op = some s') : TStore.Keeps s.types s'.types :=
  (TStore.apply_sound s s' op hk h).1

/-- `merge` replaces a binding only by a generic type of the same base -/
theorem merge_same_base_only (s o s' : TStore.Store) (hk : TStore.Keyed o.types) (h : TStore.merge s o = some s')
    (n : String) (c t : TStore.Ty) (hc : TStore.get s.types n = some c) (ht : TStore.get s'.types n = some t)
    (hne : t ≠ c) : t.generic = true ∧ c.generic = true ∧ t.base = c.base :=
  (TStore.merge_sound s o s' hk h).2.2 n c t hc ht hne

/-- the full statement ("a second declaration of a name is always refused") is false of the code: witness -/
theorem no_silent_overwrite_full_is_false :
    ∃ s s' c t, TStore.saveType s t = some s' ∧ TStore.get s.types "OptString" = some c ∧ c.generic = false ∧
      TStore.get s'.types "OptString" = some t ∧ t ≠ c := TStore.generic_over_struct_witness

/-! non-vacuity -/
example : generate Facts.Naming.rules false [117, 115, 101, 114, 32, 105, 100] = some [85, 115, 101, 114, 73, 68] := by
  decide  -- "user id" ↦ "UserID"
example : generate Facts.Naming.rules false [34, 92, 10] = none := by decide            -- `"\⏎` ↦ error
example : generate Facts.Naming.rules false [49, 97] = some [82, 49, 97] := by decide   -- "1a" ↦ "R1a"
example : generate Facts.Naming.rules true [43, 49] = some [80, 108, 117, 115, 49] := by decide  -- "+1" ↦ "Plus1"
end C02
