import Ogen.GenOrder_proof
import Ogen.RespOrder_proof
import Ogen.Generated.Facts_genorder
/-!
# C10 — generation is deterministic and free of data races (partial)

Model (`Ogen/GenOrderLib.lean`): the three places where `gen.WriteSource` meets something the Go runtime
chooses — `xmaps.SortedKeys` behind every map that feeds output (`sortedKeys`), `TemplateConfig.collectStrings`
(a depth-first walk over the type graph from the entries of Go maps, `collect`), the parallel template tasks
that each write one file (`runWrites`), and the `sync.Pool` of buffers (`generate`).  A `World` is what the
runtime chooses: map iteration order, completion order of the tasks, pool content, which buffer a task gets.

What is **proved** (for every type graph, every root order, every schedule, every pool content):
the string tables, and with them the files on disk, do not depend on the world.

What is **not** a theorem (and is decided by the search on every run, see `harness/cmd/corr/c10.go`): that no
*other* place of the generator ranges over a map into its output, and that the templates only read the IR —
the model contains the ordering logic, not the generator.  The Go memory model (data races) cannot be
exhibited by this model at all: the race detector child is the check for that clause.

**Regenerated facts** (`Ogen/Generated/Facts_genorder.lean`): the file names `WriteSource` writes on a probe
document that needs every template (observed on the linked package), and the calls of `getBuffer`.
-/
namespace C10
open GenOrder

/-- **fact tie 1**: no two template tasks write the same file (the premise `hnames` of
    `files_independent_of_world`) -/
theorem facts_files_distinct : Facts.GenOrder.writtenFiles.Nodup := by decide

/-- **fact tie 2**: `getBuffer` resets the buffer it takes from the pool (what `GenOrder.getBuffer` models) -/
theorem facts_buffer_reset : Facts.GenOrder.getBufferResets = true := by decide

/-- **map iteration order**: `SortedKeys` of a set only depends on which keys are in it — not on the order in
    which a `range` produced them, nor on how often -/
theorem sorted_keys_order_independent (l₁ l₂ : List Key) (h : ∀ x, x ∈ l₁ ↔ x ∈ l₂) :
    sortedKeys l₁ = sortedKeys l₂ := sortedKeys_canonical l₁ l₂ h

/-- the result is strictly ascending in Go's string order and has exactly the keys of the set -/
theorem sorted_keys_spec (l : List Key) : SSorted (sortedKeys l) ∧ ∀ x, x ∈ sortedKeys l ↔ x ∈ l :=
  ⟨ssorted_sortedKeys l, fun x => mem_sortedKeys x l⟩

/-- **`RegexStrings` / `RatStrings`**: the table is the sorted set of the strings of all types reachable from
    the roots … -/
theorem string_table_spec (g : Graph) (roots : List Nat) :
    SSorted (collect g roots) ∧ ∀ x, x ∈ collect g roots ↔ ∃ n, Reach g roots n ∧ x ∈ g.strs n :=
  ⟨collect_sorted g roots, mem_collect g roots⟩

/-- … hence the same for every order in which the type maps are ranged over -/
theorem string_table_order_independent (g : Graph) (r₁ r₂ : List Nat) (h : ∀ n, n ∈ r₁ ↔ n ∈ r₂) :
    collect g r₁ = collect g r₂ := collect_root_order g r₁ r₂ h

/-- **order in which the templates execute**: tasks that write different names leave the same files in every
    completion order -/
theorem schedule_independent (ws ws' : List (Key × Key)) (hn : (ws.map (·.1)).Nodup) (hp : ws.Perm ws')
    (name : Key) : lookup (runWrites ws) name = lookup (runWrites ws') name := runWrites_perm ws ws' hn hp name

/-- the premise is needed: two tasks writing one name make the result schedule-dependent -/
theorem same_name_is_schedule_dependent :
    lookup (runWrites [([1], [10]), ([1], [20])]) [1] ≠ lookup (runWrites [([1], [20]), ([1], [10])]) [1] :=
  runWrites_same_name_matters

/-- **earlier generations in the same process**: what a task renders does not depend on pool content -/
theorem pool_independent {α} (render : α → Key) (pool : List Key) (pick : Nat) (cfg : α) :
    generate render pool pick cfg = render cfg := generate_pool_irrelevant render pool pick cfg

/-- **composition** (partial: the model's `WriteSource`): two runs on the same IR — any map order, any
    schedule, any pool content, any assignment of buffers — leave the same content under every file name -/
theorem files_independent_of_world_partial (g : Graph) (ts : Array Tmpl) (w₁ w₂ : World)
    (hroots : ∀ n, n ∈ w₁.rootOrder ↔ n ∈ w₂.rootOrder)
    (hsched : w₁.sched.Perm w₂.sched)
    (hnames : (w₁.sched.filterMap (fun i => (ts[i]?).map (fun t : Tmpl => t.file))).Nodup)
    (name : Key) :
    lookup (writeSource g ts w₁) name = lookup (writeSource g ts w₂) name :=
  writeSource_world_irrelevant g ts w₁ w₂ hroots hsched hnames name

/-! ### non-vacuity: a graph with a cycle and a shared node, two root orders, two schedules, a dirty pool -/

def exGraph : Graph := { nodes := #[⟨[[98]], [1, 2]⟩, ⟨[[97], [98]], [0]⟩, ⟨[], [7]⟩, ⟨[[99]], []⟩] }

example : collect exGraph [0, 3] = [[97], [98], [99]] ∧ collect exGraph [3, 1, 3] = [[97], [98], [99]] := by
  constructor <;> simp [collect, exGraph, visit, Graph.size, Graph.kids, Graph.strs, sortedKeys, insertKey, klt]

def exTmpls : Array Tmpl := #[⟨[1], fun t => t.flatten⟩, ⟨[2], fun t => [t.length.toUInt8]⟩]

example :
    let w₁ : World := ⟨[0, 3], [0, 1], [], fun _ => 0⟩
    let w₂ : World := ⟨[3, 0, 0], [1, 0], [[1, 2, 3]], fun i => i⟩
    (∀ n, n ∈ w₁.rootOrder ↔ n ∈ w₂.rootOrder) ∧ w₁.sched.Perm w₂.sched ∧
    (w₁.sched.filterMap (fun i => (exTmpls[i]?).map (fun t : Tmpl => t.file))).Nodup := by
  refine ⟨?_, List.Perm.swap 1 0 [], by decide⟩
  intro n; simp; constructor <;> (rintro (h | h) <;> simp [h])

/-- **the order of the response cases** (`ir.sortResponseInfos`, after fix 6497f487): two listings of the same entries of
    the status-code map — in whatever order the map iteration produced them — sort to the same sequence -/
theorem response_order_independent (l₁ l₂ : List RespOrder.K) (hp : l₁.Perm l₂) (hn : l₁.Nodup) :
    RespOrder.sort RespOrder.lt l₁ = RespOrder.sort RespOrder.lt l₂ := RespOrder.sort_order_independent l₁ l₂ hp hn

/-- before the fix two entries that carry their status code (folded to 999) under one content type tied (witness) -/
theorem response_order_depended_on_iteration_before_fix :
    RespOrder.sort RespOrder.ltOld [(999, 1, 404), (999, 1, 400)] ≠
      RespOrder.sort RespOrder.ltOld [(999, 1, 400), (999, 1, 404)] := RespOrder.old_order_depends_on_iteration

/-- the audited comparators: seven order by one string key that is unique among the sorted items (operation names,
    group names, the methods of one webhook, discriminator mapping keys, variant names, the JSON type names of a
    type-discriminated sum, the names of an interface's implementations — `sortedKeys` in the model), and
    `sortResponseInfos` is the lexicographic `RespOrder.lt` (folded code, content type, real code) -/
def auditedComparators : List String :=
  ["gen/generator.go:sortOperations: { return strings.Compare(a.Name, b.Name) }",
   "gen/generator.go:groupOperations: { return strings.Compare(a.Name, b.Name) }",
   "gen/router.go:Add: { return strings.Compare(a.Method, b.Method) }",
   "gen/schema_gen_sum.go:oneOf: { return strings.Compare(a.Key, b.Key) }",
   "gen/schema_gen_sum.go:oneOf: { return strings.Compare(a.Name, b.Name) }",
   "gen/ir/responses.go:sortResponseInfos: { lcode, rcode := l.StatusCode, r.StatusCode if l.WithStatusCode { lcode = 999 } if r.WithStatusCode { rcode = 999 } if lcode != rcode { return lcode - rcode } if c := strings.Compare(l.ContentType.String(), r.ContentType.String()); c != 0 { return c } return l.StatusCode - r.StatusCode }",
   "gen/ir/template_helpers.go:TypeDiscriminator: { return strings.Compare(a.JXTypes, b.JXTypes) }",
   "gen/ir/type_iface.go:ListImplementations: { return strings.Compare(a.Name, b.Name) }"]

/-- **fact tie 3**: every sort with a caller-supplied comparator in `gen/` and `gen/ir/` is one of the audited ones,
    spelled as audited (regenerated on every run from the source) -/
theorem facts_sort_comparators : Facts.GenOrder.sortComparators = auditedComparators := rfl

end C10
