import Ogen.CliStages_proof
import Ogen.Generated.Facts_cli
/-!
# C20 — failed generation leaves the target directory untouched; `--clean` removes only own files (partial)

Model (`Ogen/CliStages_proof.lean`): the CLI as a stage machine over an abstract directory
(`Dir = Option (List Entry)`), `cleanDir` as a filter, `write` as overwrite-by-name.
**Regenerated facts** (`Ogen/Generated/Facts_cli.lean`, written by `harness/cmd/extract` from
`cmd/ogen/main.go` on every run): the source order of the calls in `generate()` and the literal suffix /
prefix lists of `cleanDir`. The two `facts_*` theorems below tie the hand-written model to those facts; an
edit that moves a directory-touching call in front of `gen.NewGenerator`, or changes the filter, makes them
fail to check.
Not modelled: OS semantics (permissions, read-only files, partial writes once writing has started), and what
`NewGenerator` itself may write (`expand:` — known finding K6).
-/
namespace C20
open Cli

/-- calls that touch the target directory -/
def touching : List String := ["MkdirAll", "cleanDir", "WriteSource", "Remove", "RemoveAll", "WriteFile", "Create"]

/-- **fact tie 1**: in the source of `generate()`, nothing that touches the directory is called before
    `gen.NewGenerator` has returned — the premise of `prewrite_failure_untouched` (all failing stages up to
    routeBuild happen inside or before `NewGenerator`) -/
theorem facts_order_ok :
    "NewGenerator" ∈ Facts.CLI.callOrder ∧
    (Facts.CLI.callOrder.takeWhile (· != "NewGenerator")).all (fun c => !touching.contains c) = true ∧
    (Facts.CLI.callOrder.takeWhile (· != "ReadDir")).all (fun c => !touching.contains c) = true := by decide

/-- the filter as the source states it -/
def isOwnFacts (e : Entry) : Bool :=
  (!Facts.CLI.skipsDirectories || !e.isDir) && Facts.CLI.ownSuffixes.any (e.name.endsWith ·) &&
    Facts.CLI.ownPrefixes.any (e.name.startsWith ·)

/-- **fact tie 2**: the model's `isOwn` is the filter of the source -/
theorem facts_filter_eq (e : Entry) : isOwn e = isOwnFacts e := by
  simp [isOwn, isOwnFacts, Facts.CLI.skipsDirectories, Facts.CLI.ownSuffixes, Facts.CLI.ownPrefixes, List.any]

/-- only `os.Remove` on single files: never a recursive removal -/
theorem facts_no_recursive_remove : Facts.CLI.removeCalls.all (· == "os.Remove") = true := by decide

/-- **a failure at any stage before the directory is read exits non-zero and leaves the target exactly as it
    was** — whatever it contained, whether or not it existed, with or without `--clean` -/
theorem prewrite_failure_untouched (clean : Bool) (s : Stage) (out : List Entry) (d : Dir)
    (hs : s ∈ [Stage.flags, .config, .specRead, .yamlParse, .specValidate, .irBuild, .routeBuild]) :
    run clean (some s) out d = (1, d) := Cli.prewrite_failure_untouched clean s out d hs

/-- **cleaning removes only files matching the generator's own pattern, never directories** -/
theorem clean_only_own (es : List Entry) (e : Entry) (he : e ∈ es) (hgone : e ∉ cleanDir es) :
    isOwnFacts e = true ∧ e.isDir = false := by
  rw [← facts_filter_eq]; exact Cli.clean_only_own es e he hgone

/-- user files survive a successful run: not own-pattern and not overwritten by name -/
theorem others_survive (out es : List Entry) (e : Entry) (he : e ∈ es) (hnot : isOwnFacts e = false)
    (hname : ∀ o ∈ out, o.name ≠ e.name) : e ∈ writeFiles out (cleanDir es) :=
  Cli.others_survive out es e he (by rw [facts_filter_eq]; exact hnot) hname

/-! non-vacuity (`String.endsWith` does not reduce in the kernel, so the name cases are exercised by the
    correspondence run against the built binary; the directory case is decided here) -/
example (n : String) (c : Nat) : isOwn ⟨n, true, c⟩ = false := by simp [isOwn]
example : run true (some .irBuild) [⟨"oas_x_gen.go", false, 1⟩] (some [⟨"user.go", false, 7⟩]) = (1, some [⟨"user.go", false, 7⟩]) :=
  prewrite_failure_untouched true .irBuild _ _ (by simp)
end C20
