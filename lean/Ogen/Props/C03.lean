import Ogen.ValidateModel_proof
import Ogen.SecurityMask_proof
import Ogen.FloatValidate_proof
import Ogen.JsonAccept_proof
import Ogen.BoundMerge_proof
/-!
# C03 — the server accepts a body exactly when it satisfies the schema (partial)

Proved here: the leaf validators generated code calls (`validate.Int`, `validate.Array.ValidateLength`
— also used for string lengths in code points —, `validate.Object.ValidateProperties`,
`validate.UniqueItems`, and `validate.Float` over the exact rational values of doubles) decide the JSON Schema keywords they stand for, for **every** value (every int64
including `minInt64`, arrays of any length), and the required-field bit mask of generated struct decoders
reports a failure exactly when a required field is missing, for any number of fields.
Proved too, end to end on the model `JCodec` of what the templates render for the fragment *objects with named
properties (required or optional, nullable or not; open or closed by `additionalProperties: false`), arrays with
possibly nullable items and item counts, integers (integer literals within 64 bits — a literal with a fraction or
exponent part is no integer) with bounds / exclusive flags / multipleOf, strings with lengths in code points, booleans*: the
server's verdict — decode the body, then `Validate()` — is validity against the schema, for every schema of
the fragment and every document with unique member names (`server_accepts_iff_valid`); `Validate()` on the
decoded value is exactly the keywords on the document (`validate_is_keywords`). The model is tied on every
run: regenerated servers of random schemas of the fragment answer random bodies (valid ones in every member
order, values on the keyword boundaries, single-fault mutants) with the handler or 400 exactly as the model
says (driver tag `jaccept`), and as the reference validator says.
Not proved: the composition schema → IR → generated decoder outside that fragment (that a keyword is
translated to the right validator call, `needValidation`, sum types, `additionalProperties`, formats,
patterns). It is tied by posting schema-directed instances to regenerated servers and comparing with an
independent reference validator on every run.
-/
namespace C03
open ValidateM IntBounds ArrVal

/-- `validate.Int.Validate` accepts exactly the integers that satisfy minimum/maximum (with the boolean
    exclusive flags of draft 4) and multipleOf — including the `v *= -1` wrap at `minInt64` -/
theorem int_validate_iff (t : IntCfg) (v : BitVec 64) (hm : t.mulSet = true → t.mul ≠ 0) :
    intValidate t v = .ok ↔ IntValid t v.toInt := ValidateM.int_validate_iff t v hm
theorem int_validate_no_panic (t : IntCfg) (v : BitVec 64) (hm : t.mulSet = true → t.mul ≠ 0) :
    intValidate t v ≠ .panic := ValidateM.int_validate_no_panic t v hm

/-- minItems / maxItems (and minLength / maxLength on the code-point count) -/
theorem length_iff (t : Arr) (v : Int) :
    validateLength t v = true ↔ (t.maxLengthSet = true → v ≤ t.maxLength) ∧ (t.minLengthSet = true → t.minLength ≤ v) :=
  validateLength_iff t v

/-- minProperties / maxProperties -/
theorem props_iff (t : ObjV) (n : Int) :
    propsOk t n = true ↔ (t.maxSet = true → n ≤ t.max) ∧ (t.minSet = true → t.min ≤ n) := propsOk_iff t n

/-- uniqueItems: the quadratic scan passes iff the list has no duplicates -/
theorem unique_iff {α} [DecidableEq α] (l : List α) : uniqueItems l = true ↔ l.Nodup := uniqueItems_iff l

/-- required members: the XOR test over the byte masks fails iff some required field index was not seen -/
theorem required_mask_iff (seen : Sec.Bitset) (requiredIdx : List Nat) :
    Sec.missingAny seen (Sec.maskOf requiredIdx) = false ↔ ∀ i ∈ requiredIdx, Sec.test seen i = true :=
  Sec.required_check_iff seen requiredIdx

/-! non-vacuity -/
example : intValidate ⟨⟨true, -10, false, false, 0, false⟩, true, 3⟩ (BitVec.ofInt 64 (-9)) = .ok := by decide
example : intValidate ⟨⟨false, 0, false, false, 0, false⟩, true, 2⟩ (BitVec.ofInt 64 (-9223372036854775808)) = .ok := by decide
example : uniqueItems [1, 2, 1] = false := by decide
/-- **`validate.Float.Validate`** accepts exactly the finite doubles that satisfy minimum/maximum (exclusive or
    not) and are an integer multiple of `multipleOf`, over the exact rational value of the double (the code
    itself tests divisibility in `big.Rat`); NaN and the infinities are refused -/
theorem float_validate_iff (c : FloatV.Cfg) (v : Rat) (hm : c.multSet = true → c.mult ≠ 0) :
    FloatV.validate c (.fin v) = true ↔ FloatV.Valid c v := FloatV.validate_iff c v hm
theorem float_validate_nonfinite (c : FloatV.Cfg) :
    FloatV.validate c .nan = false ∧ FloatV.validate c .inf = false := FloatV.validate_nonfinite c

/-! non-vacuity: 0.75 is a multiple of 0.25 within [0, 1); 0.1 (the double) is not a multiple of 1/10 -/
example : FloatV.validate ⟨true, 0, false, true, 1, true, true, 1 / 4⟩ (FloatV.ofBits 0x3fe8000000000000) = true := by
  decide +kernel
example : FloatV.validate ⟨false, 0, false, false, 0, false, true, 1 / 10⟩ (FloatV.ofBits 0x3fb999999999999a) = false := by
  decide +kernel
/-! ### end to end on the codec fragment (`JCodec`) -/
open JCodec in
/-- **the server accepts a body exactly when it satisfies the schema**: type, required, nullable, integer bounds
    with exclusive flags, multipleOf, string length in code points, item counts, at every depth; members the
    schema does not name are free -/
theorem server_accepts_iff_valid (t : Ty) (j : Json) (hw : t.WF) (hu : UniqueKeys j) :
    accept t j = true ↔ SchemaValid t j := JCodec.accept_iff_schemaValid t j hw hu
open JCodec in
/-- `Validate()` of the decoded value says exactly what the keywords say about the document -/
theorem validate_is_keywords (j : Json) (t : Ty) (v : Val) (hw : t.WF) (hu : UniqueKeys j)
    (h : JCodec.decode t j = some v) : JCodec.validate t v = true ↔ Constr t j := JCodec.validate_iff j t v hw hu h
/-! ### allOf: numeric bounds of two members (`gen.mergeSchemes`; hook `gen.VerifMergeBounds`, driver tag `bmerge`) -/

/-- **the merged bounds accept exactly the numbers that both members' bounds accept** — inclusive and exclusive
    bounds in every combination, equal bounds, a flag without a bound -/
theorem allOf_bounds_iff (u₁ l₁ u₂ l₂ : BoundM.Bnd) (x : Int) :
    (BoundM.okUpper (BoundM.mergeUpper u₁ u₂) x ∧ BoundM.okLower (BoundM.mergeLower l₁ l₂) x) ↔
      ((BoundM.okUpper u₁ x ∧ BoundM.okLower l₁ x) ∧ (BoundM.okUpper u₂ x ∧ BoundM.okLower l₂ x)) :=
  BoundM.merge_iff u₁ l₁ u₂ l₂ x

/-- the count keywords of an allOf merge (string lengths, item and property counts) accept exactly the counts both
    members' keywords accept -/
theorem allOf_counts_iff (mn₁ mx₁ mn₂ mx₂ : Option Nat) (n : Nat) :
    BoundM.okCount (BoundM.mergeMin mn₁ mn₂) (BoundM.mergeMax mx₁ mx₂) n ↔
      BoundM.okCount mn₁ mx₁ n ∧ BoundM.okCount mn₂ mx₂ n := BoundM.mergeCount_iff mn₁ mx₁ mn₂ mx₂ n

/-- the `enum` lists of an allOf merge: a value is admitted by the merged list iff both members admit it (a member
    without `enum` admits everything) … -/
theorem allOf_enum_iff (e₁ e₂ r : List Nat) (v : Nat) (h : BoundM.mergeEnums e₁ e₂ = some r) :
    BoundM.okEnum r v ↔ BoundM.okEnum e₁ v ∧ BoundM.okEnum e₂ v := BoundM.mergeEnums_iff e₁ e₂ r v h

/-- … and the merge is refused (at generation time) exactly when both members list values and share none -/
theorem allOf_enum_refused_iff (e₁ e₂ : List Nat) :
    BoundM.mergeEnums e₁ e₂ = none ↔ e₁ ≠ [] ∧ e₂ ≠ [] ∧ ∀ v, ¬ (v ∈ e₁ ∧ v ∈ e₂) := BoundM.mergeEnums_none_iff e₁ e₂

/-- `required` of an allOf merge (partial: the parser's flags agree with the `required` lists and every required
    name is declared by some member — without the second hypothesis the statement is false, K20): the merged object
    demands exactly the names either member requires, and keeps the members' properties in order -/
theorem allOf_required_iff_partial (p₁ p₂ : List BoundM.Prp) (r₁ r₂ : List Nat) (K : Nat → Prop)
    (hc₁ : ∀ p ∈ p₁, p.2 = true → p.1 ∈ r₁) (hc₂ : ∀ p ∈ p₂, p.2 = true → p.1 ∈ r₂)
    (hd : ∀ n, n ∈ r₁ ++ r₂ → n ∈ BoundM.names p₁ ∨ n ∈ BoundM.names p₂) :
    BoundM.demands (BoundM.mergeProps p₁ p₂ (r₁ ++ r₂)) K ↔ (∀ n ∈ r₁, K n) ∧ (∀ n ∈ r₂, K n) :=
  BoundM.mergeProps_required_iff p₁ p₂ r₁ r₂ K hc₁ hc₂ hd

theorem allOf_property_order (p₁ p₂ : List BoundM.Prp) (req : List Nat) :
    BoundM.names (BoundM.mergeProps p₁ p₂ req) =
      BoundM.names p₁ ++ (BoundM.names p₂).filter (fun n => !(BoundM.names p₁).contains n) :=
  BoundM.mergeProps_names p₁ p₂ req

/-- K20 in the model: a required name that no member declares is demanded by nobody (witness) -/
theorem required_ghost_not_demanded :
    BoundM.demands (BoundM.mergeProps [(0, false)] [] ([1] ++ [])) (fun n => n = 0) ∧
      ¬ (∀ n ∈ [1], (fun n => n = 0) n) := BoundM.ghost_required_not_demanded

/-- **`required` of an allOf with any number of members** (after fix 944cde35; hypotheses: parser-consistent flags and
    every required name declared by some member — K20 otherwise): the merged object demands exactly the names that
    any member requires, whatever the order of the members -/
theorem allOf_required_n_iff_partial (first : BoundM.Member) (rest : List BoundM.Member) (K : Nat → Prop)
    (hf : ∀ m ∈ first :: rest, BoundM.FlagIff m)
    (hd : ∀ m ∈ first :: rest, ∀ n ∈ m.2, ∃ m' ∈ first :: rest, n ∈ BoundM.names m'.1) :
    BoundM.demands (BoundM.mergeN first rest).1 K ↔ ∀ m ∈ first :: rest, ∀ n ∈ m.2, K n :=
  BoundM.mergeN_required_iff first rest K hf hd

end C03
