import Ogen.HandlerStages_proof
import Ogen.Generated.Facts_tmpl
import Ogen.Generated.Facts_errors
/-!
# C15 — every request is answered, nothing is over-accepted (partial: the stage machine)

Model: `Stages.handle` — the order route → security → parameters → body → handler → response of a
generated `handleXRequest`, each failure returning early through the error handler, and the
error → status map of `ogenerrors.ErrorCode` for the error types the stages wrap their failures in.
Stage outcomes are abstract: *why* a parameter or body fails to decode (bytes, escapes, JSON syntax) is
the business of the decoders (jx, net/http, the `uri` package — C06/C12 exclude their panics); "does not
panic on arbitrary bytes" is checked on the implementation with mutated and hand-built requests.
-/
namespace C15
open Stages

/-- exactly one response, whatever happens -/
theorem one_response (o : Outcomes) : (handle o).statuses.length = 1 := Stages.one_response o

/-- nothing is over-accepted: the handler runs exactly when routing, security, parameters and body succeeded -/
theorem no_overaccept (o : Outcomes) :
    (handle o).handlerInvoked = true ↔
      o.route = .found ∧ o.securityOk = true ∧ o.paramsOk = true ∧ o.body = none := Stages.no_overaccept o

/-- the first failing stage decides the status: 404 / 405 / 401 / 400 / 415 / 400 -/
theorem stage_status (o : Outcomes) :
    (o.route = .noPath → (handle o).statuses = [404]) ∧
    (o.route = .wrongMethod → (handle o).statuses = [405]) ∧
    (o.route = .found → o.securityOk = false → (handle o).statuses = [401]) ∧
    (o.route = .found → o.securityOk = true → o.paramsOk = false → (handle o).statuses = [400]) ∧
    (o.route = .found → o.securityOk = true → o.paramsOk = true → o.body = some .wrongContentType →
        (handle o).statuses = [415]) ∧
    (o.route = .found → o.securityOk = true → o.paramsOk = true → o.body = some .malformed →
        (handle o).statuses = [400]) := Stages.stage_status o

/-- handler failures surface as the declared error status, 501 or 500 -/
theorem handler_error_status (o : Outcomes) (hr : o.route = .found) (hs : o.securityOk = true)
    (hp : o.paramsOk = true) (hb : o.body = none) :
    (handle o).statuses = [match o.handler with
      | .ok s => s | .declaredError s => s | .notImplemented => 501 | .otherError => 500] := by
  unfold handle
  simp [hr, hs, hp, hb]
  cases o.handler <;> rfl

/-- the order in which `Stages.handle` consults its inputs (after routing) -/
def modelStageOrder : List String := ["security", "params", "body", "handler", "encode"]

/-- **(regenerated facts) the template runs the stages in the model's order**, and between a failing stage's
    marker and the next stage there is at least one `return` (the early exit the model's `if … else` stands
    for) — read off the text of `gen/_template/handlers.tmpl` on every run -/
theorem facts_stage_order :
    Facts.Tmpl.stageOrder = modelStageOrder ∧
    Facts.Tmpl.returnsAfter.map (·.1) = ["security", "params", "body", "handler"] ∧
    Facts.Tmpl.returnsAfter.all (fun s => 1 ≤ s.2) = true := by decide

/-- **(regenerated facts) the model's status constants are the ones `ogenerrors` reports**: `Code()` of the
    error types the stages wrap their failures in, and the three cases of `ogenerrors.ErrorCode` -/
theorem facts_status_codes :
    Facts.Errors.codes.lookup "SecurityError" = some securityCode ∧
    Facts.Errors.codes.lookup "DecodeParamsError" = some decodeCode ∧
    Facts.Errors.codes.lookup "DecodeRequestError" = some decodeCode ∧
    Facts.Errors.contentTypeCode = contentTypeCode ∧
    Facts.Errors.notImplementedCode = notImplementedCode ∧
    Facts.Errors.defaultCode = internalCode := by decide

/-- (regenerated facts) an optional request body counts as absent only when there is neither a Content-Type
    header nor any body byte — the conjunction, not the disjunction: the condition of the shortcut in the Go the
    generator writes for a probe document is the `&&` of exactly these two conjuncts (go/ast, sorted; `<local>` is
    the presence flag of the header lookup) -/
theorem facts_optional_body :
    Facts.Tmpl.optionalBodyShortcut = ["!<local>", "r.ContentLength == 0"] := by
  decide

example : handle ⟨.found, true, false, none, .ok 200⟩ = ⟨[400], false⟩ := by decide
example : handle ⟨.found, true, true, none, .otherError⟩ = ⟨[500], true⟩ := by decide
end C15
