import Ogen.Concurrency_proof
import Ogen.Generated.Facts_conc
/-!
# C19 — generated clients and servers are safe under concurrent use (partial)

Model (`Ogen/Concurrency_proof.lean`): a request is a sequence of atomic steps, each a function of the immutable
globals and of the request's own state; a schedule is any interleaving of the requests' steps.
**Regenerated facts** (`Ogen/Generated/Facts_conc.lean`, go/ast over the package the working tree's generator
writes for a probe document with every feature on, and over the runtime packages generated code calls): the
package-level variables of the generated package and every statement outside `init` that writes through a
package-level variable.  `facts_no_global_writes` is the model's premise; a template or runtime edit that
introduces such a write makes it fail to check.

Proved: under any interleaving every call's outcome is the outcome it has alone (`outcome_as_alone`), other
requests' data cannot influence it (`no_leak_between_requests`), pooled buffers that are reset on `Get` do not
carry data across requests (`no_leak_through_pool`); the witnesses show that each premise is needed.

**Partial**: an atomic-step model cannot exhibit the Go memory model — a data race is not an interleaving of
atomic steps — nor the internals of third-party code (`regexp`, `regexp2`, `net/http`, `math/big`).  Those are
covered by the race-detector stress on regenerated code on every run (`harness/cmd/corr/c19.go`): many
goroutines on one server and one client, every outcome compared with the same call run alone.
-/
namespace C19
open Conc

/-- **fact tie**: the generated package has package-level state (the regex / rational tables, field-name
    tables) … -/
theorem facts_has_globals : "regexMap" ∈ Facts.Conc.generatedGlobals ∧ "ratMap" ∈ Facts.Conc.generatedGlobals := by
  decide

/-- … and neither it nor the runtime packages write through a package-level variable outside `init` -/
theorem facts_no_global_writes :
    Facts.Conc.generatedGlobalWrites = [] ∧ Facts.Conc.runtimeGlobalWrites = [] := by decide

/-- methods called on package-level variables outside `init` (a pointer-receiver method could write through the
    variable): none in the generated package; in the runtime packages only `strings.Replacer.Replace`, which is
    documented as safe for concurrent use -/
theorem facts_global_method_calls :
    Facts.Conc.generatedGlobalMethodCalls = [] ∧
    Facts.Conc.runtimeGlobalMethodCalls.all (fun c => ["http/quoteEscaper.Replace", "uri/quoteEscaper.Replace"].contains c) = true := by
  decide

/-- **every call's outcome equals the outcome it has when run alone**, for every interleaving -/
theorem outcome_as_alone {G L} (m : Machine G L) (g : G) (st : Nat → L) (sched : List Nat) (i : Nat) :
    runSched m g st sched i = runSched m g st (List.replicate (sched.count i) i) i :=
  Conc.outcome_as_alone m g st sched i

/-- two interleavings that let call `i` finish (same number of its steps) agree on its outcome -/
theorem interleavings_agree {G L} (m : Machine G L) (g : G) (st : Nat → L) (s₁ s₂ : List Nat) (i : Nat)
    (h : s₁.count i = s₂.count i) : runSched m g st s₁ i = runSched m g st s₂ i :=
  schedules_agree m g st s₁ s₂ i h

/-- **no leakage of parameters or bodies between concurrent requests**: what the other requests carry is
    irrelevant to call `i` -/
theorem no_leak_between_requests {G L} (m : Machine G L) (g : G) (st st' : Nat → L) (sched : List Nat) (i : Nat)
    (h : st i = st' i) : runSched m g st sched i = runSched m g st' sched i :=
  others_irrelevant m g st st' sched i h

/-- the premise "no step writes shared state" is needed -/
theorem shared_write_breaks_it :
    let st : Nat → Nat × Nat × Nat := fun i => (i, 0, 0)
    ((runShared leaky 0 st [1, 1, 2, 2]).2 1).2.2 ≠ ((runShared leaky 0 st [1, 2, 1, 2]).2 1).2.2 :=
  shared_write_is_schedule_dependent

/-- **no leakage through pooled buffers** when `Get` resets -/
theorem no_leak_through_pool {D} (render : D → List UInt8) (b₁ b₂ : List UInt8) (d : D) :
    (usePooled render b₁ d).1 = (usePooled render b₂ d).1 := pool_choice_irrelevant render b₁ b₂ d

theorem pool_without_reset_leaks : usePooledNoReset (fun (d : Nat) => [d.toUInt8]) [7] 1 ≠
    usePooledNoReset (fun (d : Nat) => [d.toUInt8]) [] 1 := no_reset_leaks

/-! non-vacuity: a two-step machine, three requests, an interleaving in which every request finishes -/
def exM : Machine Nat (Nat × Nat) := ⟨fun g (pc, acc) => (pc + 1, acc * g + pc)⟩

example : runSched exM 3 (fun i => (0, i)) [2, 0, 1, 1, 0, 2] 1 = (2, 10) ∧
    runSched exM 3 (fun i => (0, i)) [1, 1] 1 = (2, 10) := by decide

end C19
