import Ogen.RefCache_proof
/-!
# C07 — `$ref` transparency and cycle termination (partial: the reference cache of one component kind)

Model: `RefChain.resolve` — `resolveComponent` / `resolveHeader` step for step: cache lookup, raw lookup
(dangling ⇒ error), `ResolveCtx.AddKey` (depth limit first, then the in-progress set ⇒ "infinite recursion"),
parse with the *referrer's* context (the header's name), store in the cache — for components that are `$ref`
chains ending in a payload, threaded over any list of referrers through one shared cache (`resolveAll`).
The function is total (structural recursion on the depth counter): that is the termination proof.
Specification: `Reaches env k p` — "inlining the references from `k` ends in payload `p`" — an inductive
relation with no cache, depth counter or in-progress set in it.
Not modelled: schemas (whose cycles become recursive types), external files and URL resolution
(`Key` relative to the location stack), `expand.go`. Transparency for *all* component kinds is checked on the
implementation by comparing every document with its inlined copies.
-/
namespace C07
open RefChain

/-- **transparency**: whatever the cache already holds — whoever filled it, in whatever order — a successful
    resolution gives the referrer its *own* name and the payload that inlining gives -/
theorem resolve_sound (env : Nat → Option Raw) (d : Nat) (seen : List Nat) (cache : Cache) (name k : Nat) (h : Hdr)
    (cache' : Cache) (hi : Inv env cache) (hr : resolve true env d seen cache name k = .ok (h, cache')) :
    h.1 = name ∧ Reaches env k h.2 ∧ Inv env cache' := RefChain.resolve_sound env d seen cache name k h cache' hi hr

/-- … for a whole list of referrers sharing targets (k ≥ 2 referrers under different names): pointwise own name
    and target payload — hence independent of the order in which the referrers are visited -/
theorem resolveAll_transparent (env : Nat → Option Raw) (d : Nat) (refs : List (Nat × Nat)) (cache : Cache)
    (out : List Hdr) (hi : Inv env cache) (h : resolveAll true env d cache refs = .ok out) :
    Transparent env refs out := RefChain.resolveAll_transparent env d refs cache out hi h

/-- **cycles and dangling references terminate with an error**: where inlining finds no payload, resolution
    reports an error (it is a total function, so it cannot loop; by soundness it cannot succeed) -/
theorem no_payload_error (env : Nat → Option Raw) (d : Nat) (seen : List Nat) (name k : Nat)
    (hno : ∀ p, ¬ Reaches env k p) : ∃ e, resolve true env d seen [] name k = .error e :=
  RefChain.no_payload_error env d seen name k hno

/-- **completeness**: an acyclic chain no longer than the remaining depth always resolves, also through cache hits -/
theorem resolve_complete (env : Nat → Option Raw) {k : Nat} {ks : List Nat} {p : Nat} (hp : Path env k ks p)
    (hnd : ks.Nodup) (d : Nat) (seen : List Nat) (cache : Cache) (name : Nat) (hd : ks.length ≤ d)
    (hs : ∀ x ∈ ks, x ∉ seen) (hi : Inv env cache) :
    ∃ cache', resolve true env d seen cache name k = .ok ((name, p), cache') ∧ Inv env cache' :=
  RefChain.resolve_complete env hp hnd d seen cache name hd hs hi

/-- the defect that was repaired (D9), on the unrepaired variant of the model: two referrers `X-First`,
    `X-Second` of one component both received the first name -/
theorem d9_before_fix : twoReferrers false = .ok ((1, 42), (1, 42)) := d9_witness
theorem d9_after_fix : twoReferrers true = .ok ((1, 42), (2, 42)) := d9_repaired
end C07
