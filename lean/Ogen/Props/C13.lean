import Ogen.IntRoundTrip_proof
/-!
# C13 — text forms of primitive values parse back to the same value (partial)

Proved here, for *every* value of *every* width (parametric in the bit size — not the 8/16-bit
enumeration a test could afford): decimal integer text (`strconv.FormatInt/FormatUint` as a digit
loop, `ParseInt/ParseUint` as syntax + range check) and booleans. Floats, durations, time layouts,
UUID, IP, MAC and URL rest on standard-library contracts (`ParseFloat ∘ FormatFloat(…, -1, bits) = id`,
`time.Parse ∘ Format`, …) that this development does not model; for those the check runs the real
helper pairs on boundary and random values (implementation-only) and says so in the evidence.
-/
namespace C13
open IntRT

/-- unsigned widths (uint8 … uint64, uint): every value below 2^bits -/
theorem uint_rt (bits : Nat) (n : Nat) (h : n < 2 ^ bits) : parseNat bits (fmtNat n) = some n :=
  IntRT.uint_rt bits n h

/-- signed widths (int8 … int64, int): every value of the width, the minimum included -/
theorem int_rt (bits : Nat) (hb : 0 < bits) (v : Int) (hlo : -(2 ^ (bits - 1) : Int) ≤ v)
    (hhi : v < (2 ^ (bits - 1) : Int)) : parseInt bits (fmtInt v) = some v :=
  IntRT.int_rt bits hb v hlo hhi

/-- the text is in the syntax `-?[0-9]+` with the sign exactly for negative values -/
theorem int_syntax (v : Int) :
    (fmtInt v = 0x2d :: fmtNat v.natAbs ∧ v < 0 ∨ fmtInt v = fmtNat v.natAbs ∧ 0 ≤ v) ∧
      (fmtNat v.natAbs).all isDigit = true ∧ fmtNat v.natAbs ≠ [] := fmtInt_syntax v

theorem bool_rt (b : Bool) : parseBool (fmtBool b) = some b := IntRT.bool_rt b

/-! non-vacuity -/
example : fmtInt (-128) = [0x2d, 0x31, 0x32, 0x38] ∧ parseInt 8 (fmtInt (-128)) = some (-128) := by decide
example : parseInt 8 [0x31, 0x32, 0x38] = none := by decide     -- "128" is out of range for int8
example : parseNat 8 [0x32, 0x35, 0x35] = some 255 := by decide
end C13
