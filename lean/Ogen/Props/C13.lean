import Ogen.IntRoundTrip_proof
import Ogen.Generated.Facts_float
import Ogen.UnixTime_proof
import Ogen.UuidText_proof
import Ogen.DurationText_proof
/-!
# C13 — text forms of primitive values parse back to the same value (partial)

Proved here, for *every* value of *every* width (parametric in the bit size — not the 8/16-bit
enumeration a test could afford): decimal integer text (`strconv.FormatInt/FormatUint` as a digit
loop, `ParseInt/ParseUint` as syntax + range check) and booleans. Floats, durations, time layouts,
UUID, IP, MAC and URL rest on standard-library contracts (`ParseFloat ∘ FormatFloat(…, -1, bits) = id`,
`time.Parse ∘ Format`, …) that this development does not model; for those the check runs the real
helper pairs on boundary and random values (implementation-only) and says so in the evidence.
-/
namespace C13
open IntRT

/-- unsigned widths (uint8 … uint64, uint): every value below 2^bits -/
theorem uint_rt (bits : Nat) (n : Nat) (h : n < 2 ^ bits) : parseNat bits (fmtNat n) = some n :=
  IntRT.uint_rt bits n h

/-- signed widths (int8 … int64, int): every value of the width, the minimum included -/
theorem int_rt (bits : Nat) (hb : 0 < bits) (v : Int) (hlo : -(2 ^ (bits - 1) : Int) ≤ v)
    (hhi : v < (2 ^ (bits - 1) : Int)) : parseInt bits (fmtInt v) = some v :=
  IntRT.int_rt bits hb v hlo hhi

/-- the text is in the syntax `-?[0-9]+` with the sign exactly for negative values -/
theorem int_syntax (v : Int) :
    (fmtInt v = 0x2d :: fmtNat v.natAbs ∧ v < 0 ∨ fmtInt v = fmtNat v.natAbs ∧ 0 ≤ v) ∧
      (fmtNat v.natAbs).all isDigit = true ∧ fmtNat v.natAbs ≠ [] := fmtInt_syntax v

theorem bool_rt (b : Bool) : parseBool (fmtBool b) = some b := IntRT.bool_rt b

/-- **(regenerated facts) every float formatter asks `strconv` for the shortest text that parses back**:
    precision −1 (never a fixed number of digits — `('f', 10)` turned 1e-11 into 0 before the fix), verb `g` or
    `f`, and the bit size of the value's own type (or the bit-size parameter its callers pass), so that
    `ParseFloat(text, bits)` returns the value by strconv's documented round-trip contract — which is a
    hypothesis of this development, exercised on random bit patterns, not proved -/
theorem float_spec_ok :
    Facts.Float.formatCalls ≠ [] ∧
    Facts.Float.formatCalls.all (fun c => c.2.2.1 == "-1" && (c.2.1 == "'g'" || c.2.1 == "'f'") &&
      (c.2.2.2.1 == c.2.2.2.2 || "param:" ++ c.2.2.2.1 == c.2.2.2.2)) = true := by decide

/-- **Unix timestamps, text → value → text**: in each of the four units every integer (negative ones
    included) is the timestamp of the instant it is converted to — `time.Unix` / `UnixMilli` / `UnixMicro` with
    Go's truncating `/` and `%` and the normalisation of a negative remainder, then `Unix()` / `UnixMilli()` /
    `UnixMicro()` / `UnixNano()` -/
theorem unix_text_value_text (u : UnixT.Unit') (n : Int) : UnixT.toUnit u (UnixT.fromUnit u n) = n :=
  UnixT.to_from u n

/-- **Unix timestamps, value → text → value at the unit's resolution**: an instant comes back truncated to a
    whole number of units (toward the past); whole instants come back unchanged -/
theorem unix_value_text_value (u : UnixT.Unit') (t : UnixT.Instant) (h : t.WF) :
    UnixT.fromUnit u (UnixT.toUnit u t) = ⟨t.sec, t.nsec - t.nsec % UnixT.nsPer u⟩ := UnixT.from_to u t h

theorem unix_exact (u : UnixT.Unit') (t : UnixT.Instant) (h : t.WF) (hu : t.nsec % UnixT.nsPer u = 0) :
    UnixT.fromUnit u (UnixT.toUnit u t) = t := UnixT.from_to_exact u t h hu

/-! non-vacuity -/
example : fmtInt (-128) = [0x2d, 0x31, 0x32, 0x38] ∧ parseInt 8 (fmtInt (-128)) = some (-128) := by decide
example : parseInt 8 [0x31, 0x32, 0x38] = none := by decide     -- "128" is out of range for int8
example : parseNat 8 [0x32, 0x35, 0x35] = some 255 := by decide
/-! ### UUID (ogen's own encoder `json.hexEncode`; the parser is the 36-byte branch of `uuid.ParseBytes`) -/

/-- **every UUID is read back from the text ogen writes for it** -/
theorem uuid_rt (v : List UInt8) (h : v.length = 16) : UuidT.parse36 (UuidT.hexEncode v) = some v :=
  UuidT.parse_hexEncode v h

/-- the text is in the syntax the format prescribes: 36 bytes, lower-case hex digits and hyphens (their places
    are fixed by the definition of `hexEncode`: after 4, 2, 2 and 2 octets) -/
theorem uuid_syntax (v : List UInt8) (h : v.length = 16) :
    (UuidT.hexEncode v).length = 36 ∧
      ∀ c ∈ UuidT.hexEncode v, (48 ≤ c ∧ c ≤ 57) ∨ (97 ≤ c ∧ c ≤ 102) ∨ c = 45 :=
  ⟨UuidT.hexEncode_length v h, UuidT.hexEncode_alphabet v⟩

/-- different UUIDs have different texts -/
theorem uuid_text_injective (v w : List UInt8) (hv : v.length = 16) (hw : w.length = 16)
    (h : UuidT.hexEncode v = UuidT.hexEncode w) : v = w := UuidT.hexEncode_injective v w hv hw h

example : UuidT.hexEncode [0x12, 0x3e, 0x45, 0x67, 0xe8, 0x9b, 0x12, 0xd3, 0xa4, 0x56, 0x42, 0x66, 0x14, 0x17, 0x40, 0x00] =
    [49, 50, 51, 101, 52, 53, 54, 55, 45, 101, 56, 57, 98, 45, 49, 50, 100, 51, 45, 97, 52, 53, 54, 45,
      52, 50, 54, 54, 49, 52, 49, 55, 52, 48, 48, 48] := by decide  -- "123e4567-e89b-12d3-a456-426614174000"

/-! ### durations (ogen's own writer `json.formatDuration`, a port of `time.Duration.String`)

`DurT.value` is the reading of a duration text that `time.ParseDuration` documents (sign, terms
`digits[.digits]unit`, exact arithmetic); the tie compares it with `time.ParseDuration` on written texts and their
one-byte mutants, and `DurT.format` with `json.EncodeDuration` / `Duration.String`. -/

/-- **every duration is read back from the text ogen writes for it** (every `int64` number of nanoseconds, the
    minimum included; a text whose value does not fit is refused by `value` as by `time.ParseDuration`) -/
theorem duration_rt (d : Int) (hlo : -9223372036854775808 ≤ d) (hhi : d < 9223372036854775808) :
    DurT.value (DurT.format d) = some d := DurT.value_format d hlo hhi

/-- different durations have different texts -/
theorem duration_text_injective (d₁ d₂ : Int) (h₁ : -9223372036854775808 ≤ d₁ ∧ d₁ < 9223372036854775808)
    (h₂ : -9223372036854775808 ≤ d₂ ∧ d₂ < 9223372036854775808) (h : DurT.format d₁ = DurT.format d₂) : d₁ = d₂ :=
  DurT.format_injective d₁ d₂ h₁ h₂ h

/-- the fraction is written without trailing zeros and never as a bare point: no digits iff the remainder is 0 -/
theorem duration_fraction_canonical (v prec : Nat) :
    (DurT.fracDigits v prec = [] ↔ v % 10 ^ prec = 0) ∧ (DurT.fracDigits v prec).length ≤ prec :=
  ⟨(DurT.fracGo_spec prec v).2.2.2.2, (DurT.fracGo_spec prec v).2.2.1⟩

example : DurT.format 5400000000000 = [49, 104, 51, 48, 109, 48, 115] := by simp [DurT.format, DurT.body, DurT.fmtFrac, DurT.fracText, DurT.fracDigits, DurT.fracGo, IntRT.fmtNat, IntRT.digitsAux, IntRT.digitChar]
example : DurT.format (-1500000) = [45, 49, 46, 53, 109, 115] := by simp [DurT.format, DurT.body, DurT.fmtFrac, DurT.fracText, DurT.fracDigits, DurT.fracGo, IntRT.fmtNat, IntRT.digitsAux, IntRT.digitChar]

end C13
