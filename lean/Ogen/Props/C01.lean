import Ogen.Exchange_proof
import Ogen.Props.C06
import Ogen.Props.C13
import Ogen.JsonAccept_proof
/-!
# C01 — generated client and server exchange values without silent change (partial, by composition)

The parameter half is the composition of C13 (text forms) and C06 (style encoding, transport, decoding):
`C06.never_wrong_partial`, `C06.*_core_delivered` and `C06.no_panic` are theorems about exactly the pipeline
a generated client and server run for every parameter; they are re-exported here for the exchange, and the
composition is carried out in full for integer parameters (`int_param_never_wrong`). What is specific to the
exchange is modelled in `Ogen/Exchange_proof.lean`: presence and defaults (`decodeParam`), and response-variant
selection (`select` / `statusOf`).
JSON bodies of the codec fragment (`JCodec`: objects open or closed, required / optional / defaulted × nullable
members, arrays, integers, strings, booleans) are carried by C04's and C03's theorems, re-exported here for
the exchange: the server decodes exactly the value the client encoded (`body_delivered`), reaches the handler
exactly when that value passes its validation (`body_reaches_handler_iff`), and an absent member that has a
schema default arrives as that default (`body_absent_member_default`).
Not proved: bodies outside that fragment, media types other than JSON, the middleware's parameter
map, the template expansion itself. Those are decided on every run by driving regenerated clients and servers
(every admitted location × style × explode × shape × element type, bodies, every response variant) and
comparing canonical forms, where the oracle is identity.
-/
namespace C01
open Exchange

/-- parameters (any text): whatever is decoded is what was encoded, W1–W4 aside (C06) -/
theorem param_never_wrong_partial (c : Codec.Cfg) (v v' : Codec.Val) (hfit : Codec.Fits c v)
    (h : Codec.roundTrip c v = .ok v') : v' = v ∨ Codec.inKnownClass c v := C06.never_wrong_partial c v v' hfit h

/-- integer parameters end to end (C13 ∘ C06): never a different integer, in any location/style/explode -/
theorem int_param_never_wrong (bits : Nat) (hb : 0 < bits) (c : Codec.Cfg) (hshape : c.shape = .prim) (v v' : Int)
    (hlo : -(2 ^ (bits - 1) : Int) ≤ v) (hhi : v < (2 ^ (bits - 1) : Int))
    (h : intParamTrip bits c v = some v') : v' = v := Exchange.int_param_never_wrong bits hb c hshape v v' hlo hhi h

/-- absent optional parameter with a schema default arrives as that default -/
theorem absent_default {W V : Type} (d : V) (dec : W → Option V) :
    decodeParam false (some d) (none : Option W) dec = .ok (some d) := Exchange.absent_default d dec
/-- absent required parameter is refused -/
theorem absent_required {W V : Type} (dflt : Option V) (dec : W → Option V) :
    decodeParam true dflt (none : Option W) dec = .error .required := Exchange.absent_required dflt dec
/-- a present parameter never silently falls back to the default -/
theorem present_never_default {W V : Type} (required : Bool) (dflt : Option V) (w : W) (dec : W → Option V)
    (r : Option V) (h : decodeParam required dflt (some w) dec = .ok r) : ∃ v, dec w = some v ∧ r = some v :=
  Exchange.present_never_default required dflt w dec r h

/-- the caller decodes the response variant the handler returned whenever its status belongs to it (partial:
    `Owns` excludes pattern/default variants carrying a status claimed by a more specific variant — K3) -/
theorem response_select_inverse_partial (declared : List Variant) (v : Variant) (status : Nat)
    (hv : v ∈ declared) (ho : Owns declared v status) : select declared status = some v :=
  Exchange.response_select_inverse declared v status hv ho
/-- whatever variant the caller selects is declared and owns the status -/
theorem select_sound (declared : List Variant) (v : Variant) (status : Nat)
    (h : select declared status = some v) : v ∈ declared ∧ Owns declared v status :=
  Exchange.select_sound declared v status h
/-! ### JSON bodies of the codec fragment -/
open JCodec in
/-- the handler's decoder recovers exactly the body value the caller's encoder wrote -/
theorem body_delivered (t : Ty) (v : Val) (hw : t.WF) (h : WT t v) : JCodec.decode t (JCodec.encode t v) = some v :=
  JCodec.decode_encode t v hw h
open JCodec in
/-- … and the request reaches the handler exactly when that value passes its own validation -/
theorem body_reaches_handler_iff (t : Ty) (v : Val) (hw : t.WF) (h : WT t v) :
    accept t (JCodec.encode t v) = JCodec.validate t v := by
  simp [accept, JCodec.decode_encode t v hw h]
open JCodec in
/-- an absent member that has a schema default arrives as that default -/
theorem body_absent_member_default (closed : Bool) (fs : List Field) (kvs : List (String × Json)) (st : List Val)
    (hn : (names fs).Nodup) (hk : (JEqG.keys kvs).Nodup) (h : JCodec.decode (.obj closed fs) (.obj kvs) = some (.obj st)) :
    st = fs.map (fieldState kvs) ∧
    ∀ n d nul t, JEqG.lookupJ kvs n = none → fieldState kvs (n, .dflt d, nul, t) = d :=
  ⟨JCodec.decoded_fields closed fs kvs st hn hk h, fun n d nul t hl => JCodec.fieldState_absent_default kvs n d nul t hl⟩

/-- K3 witness -/
theorem k3 : select [.code 200, .code 404, .dflt] (statusOf .dflt 404) = some (.code 404) := Exchange.k3_witness
end C01
