import Ogen.Exchange_proof
import Ogen.Props.C06
import Ogen.Props.C13
/-!
# C01 — generated client and server exchange values without silent change (partial, by composition)

The parameter half is the composition of C13 (text forms) and C06 (style encoding, transport, decoding):
`C06.never_wrong_partial`, `C06.*_core_delivered` and `C06.no_panic` are theorems about exactly the pipeline
a generated client and server run for every parameter; they are re-exported here for the exchange, and the
composition is carried out in full for integer parameters (`int_param_never_wrong`). What is specific to the
exchange is modelled in `Ogen/Exchange_proof.lean`: presence and defaults (`decodeParam`), and response-variant
selection (`select` / `statusOf`).
Not proved: request/response bodies (C04's codecs), media types other than JSON, the middleware's parameter
map, the template expansion itself. Those are decided on every run by driving regenerated clients and servers
(every admitted location × style × explode × shape × element type, bodies, every response variant) and
comparing canonical forms, where the oracle is identity.
-/
namespace C01
open Exchange

/-- parameters (any text): whatever is decoded is what was encoded, W1–W4 aside (C06) -/
theorem param_never_wrong_partial (c : Codec.Cfg) (v v' : Codec.Val) (hfit : Codec.Fits c v)
    (h : Codec.roundTrip c v = .ok v') : v' = v ∨ Codec.inKnownClass c v := C06.never_wrong_partial c v v' hfit h

/-- integer parameters end to end (C13 ∘ C06): never a different integer, in any location/style/explode -/
theorem int_param_never_wrong (bits : Nat) (hb : 0 < bits) (c : Codec.Cfg) (hshape : c.shape = .prim) (v v' : Int)
    (hlo : -(2 ^ (bits - 1) : Int) ≤ v) (hhi : v < (2 ^ (bits - 1) : Int))
    (h : intParamTrip bits c v = some v') : v' = v := Exchange.int_param_never_wrong bits hb c hshape v v' hlo hhi h

/-- absent optional parameter with a schema default arrives as that default -/
theorem absent_default {W V : Type} (d : V) (dec : W → Option V) :
    decodeParam false (some d) (none : Option W) dec = .ok (some d) := Exchange.absent_default d dec
/-- absent required parameter is refused -/
theorem absent_required {W V : Type} (dflt : Option V) (dec : W → Option V) :
    decodeParam true dflt (none : Option W) dec = .error .required := Exchange.absent_required dflt dec
/-- a present parameter never silently falls back to the default -/
theorem present_never_default {W V : Type} (required : Bool) (dflt : Option V) (w : W) (dec : W → Option V)
    (r : Option V) (h : decodeParam required dflt (some w) dec = .ok r) : ∃ v, dec w = some v ∧ r = some v :=
  Exchange.present_never_default required dflt w dec r h

/-- the caller decodes the response variant the handler returned whenever its status belongs to it (partial:
    `Owns` excludes pattern/default variants carrying a status claimed by a more specific variant — K3) -/
theorem response_select_inverse_partial (declared : List Variant) (v : Variant) (status : Nat)
    (hv : v ∈ declared) (ho : Owns declared v status) : select declared status = some v :=
  Exchange.response_select_inverse declared v status hv ho
/-- whatever variant the caller selects is declared and owns the status -/
theorem select_sound (declared : List Variant) (v : Variant) (status : Nat)
    (h : select declared status = some v) : v ∈ declared ∧ Owns declared v status :=
  Exchange.select_sound declared v status h
/-- K3 witness -/
theorem k3 : select [.code 200, .code 404, .dflt] (statusOf .dflt 404) = some (.code 404) := Exchange.k3_witness
end C01
