import Ogen.OptNilStates_proof
import Ogen.Generated.Facts_tmpl
/-!
# C04 — JSON encoding of generated types round-trips and conforms to the schema (partial)

Proved here: the clause about the three states of an optional nullable member, on a literal model of the
generated `OptNilT` wrapper (`Set`, `Null`, `Value`) and its `Encode`/`Decode` as a struct member — the
state the API exposes (`Get`/`IsNull`/`IsSet`) is preserved exactly, the three states are distinct on the
wire, and the decoder's output is canonical. The proof also fixes how values must be compared: the Go
struct does **not** round-trip field by field (a `Value` left behind under `Null` or `Set = false` is
reset), so the harness compares canonical states, never `reflect.DeepEqual`.
Not proved: encode/decode of whole schemas (structs, maps, arrays, numbers, strings through jx). That is
decided on every run on regenerated code: type-directed random Go values that pass their own
`Validate()` are encoded, the JSON is validated against the source schema by the reference validator,
and decoded again.
-/
namespace C04
open OptNil

theorem three_states {α} (zero : α) (w : W α) : state (decode zero (encode w)) = state w :=
  OptNil.three_states zero w

theorem states_distinct {α} (a : α) : (Member.omitted : Member α) ≠ .null ∧ (Member.null : Member α) ≠ .val a ∧
    (Member.omitted : Member α) ≠ .val a := OptNil.states_distinct a

theorem decode_canonical {α} (zero : α) (m : Member α) : decode zero (encode (decode zero m)) = decode zero m :=
  OptNil.decode_canonical zero m

/-- decoding a present member over a wrapper that already holds something (a `Null` pre-set by `default: null`,
    an earlier value) gives exactly what decoding into a fresh wrapper gives; an absent member keeps the default -/
theorem decode_over_default {α} (zero : α) (pre : W α) (m : Member α) (hm : m ≠ .omitted) :
    decodeOver zero pre m = decode zero m := OptNil.decodeOver_present zero pre m hm
theorem absent_keeps_default {α} (zero : α) (pre : W α) : decodeOver zero pre .omitted = pre := rfl

/-- **(regenerated facts) the generic `Decode` of the template assigns what `decodeOver` says it assigns**: all three
    fields on the null path, `Set` and `Null` before a value is decoded — read off the text of
    `gen/_template/json/encoders_generic.tmpl` on every run -/
theorem facts_generic_decode :
    Facts.Tmpl.genericDecodeNullPath = ["o.Value = v", "o.Set = true", "o.Null = true"] ∧
    Facts.Tmpl.genericDecodeValueResets = ["o.Set = true", "o.Null = false"] := by decide

/-- the struct itself does not round-trip (why the comparison goes through `state`) -/
theorem struct_not_preserved : decode 0 (encode (⟨true, true, 5⟩ : W Nat)) ≠ ⟨true, true, 5⟩ := by decide
end C04
