import Ogen.OptNilStates_proof
/-!
# C04 — JSON encoding of generated types round-trips and conforms to the schema (partial)

Proved here: the clause about the three states of an optional nullable member, on a literal model of the
generated `OptNilT` wrapper (`Set`, `Null`, `Value`) and its `Encode`/`Decode` as a struct member — the
state the API exposes (`Get`/`IsNull`/`IsSet`) is preserved exactly, the three states are distinct on the
wire, and the decoder's output is canonical. The proof also fixes how values must be compared: the Go
struct does **not** round-trip field by field (a `Value` left behind under `Null` or `Set = false` is
reset), so the harness compares canonical states, never `reflect.DeepEqual`.
Not proved: encode/decode of whole schemas (structs, maps, arrays, numbers, strings through jx). That is
decided on every run on regenerated code: type-directed random Go values that pass their own
`Validate()` are encoded, the JSON is validated against the source schema by the reference validator,
and decoded again.
-/
namespace C04
open OptNil

theorem three_states {α} (zero : α) (w : W α) : state (decode zero (encode w)) = state w :=
  OptNil.three_states zero w

theorem states_distinct {α} (a : α) : (Member.omitted : Member α) ≠ .null ∧ (Member.null : Member α) ≠ .val a ∧
    (Member.omitted : Member α) ≠ .val a := OptNil.states_distinct a

theorem decode_canonical {α} (zero : α) (m : Member α) : decode zero (encode (decode zero m)) = decode zero m :=
  OptNil.decode_canonical zero m

/-- the struct itself does not round-trip (why the comparison goes through `state`) -/
theorem struct_not_preserved : decode 0 (encode (⟨true, true, 5⟩ : W Nat)) ≠ ⟨true, true, 5⟩ := by decide
end C04
