import Ogen.OptNilStates_proof
import Ogen.JsonCodec_proof
import Ogen.JsonAccept_proof
import Ogen.Generated.Facts_tmpl
/-!
# C04 — JSON encoding of generated types round-trips and conforms to the schema (partial)

Proved here: the clause about the three states of an optional nullable member, on a literal model of the
generated `OptNilT` wrapper (`Set`, `Null`, `Value`) and its `Encode`/`Decode` as a struct member — the
state the API exposes (`Get`/`IsNull`/`IsSet`) is preserved exactly, the three states are distinct on the
wire, and the decoder's output is canonical. The proof also fixes how values must be compared: the Go
struct does **not** round-trip field by field (a `Value` left behind under `Null` or `Set = false` is
reset), so the harness compares canonical states, never `reflect.DeepEqual`.
Proved too, on the model `JCodec` of the struct / array / wrapper codec the templates render for the fragment
*integers (integer literals within 64 bits), strings, booleans, arrays with possibly nullable items, objects
(open or closed) with named properties, each required or optional, nullable or not* (over JSON syntax trees, unique member names): every value of a type
comes back from its own encoding (`codec_round_trip`), the encoding is admitted by the schema
(`codec_output_valid`), the decoder accepts exactly the documents the schema admits
(`codec_accepts_iff_valid`), builds only values of the type (`codec_decodes_only_values`) and is canonical
(`codec_canonical`). The model is tied on every run: regenerated types of random schemas of the fragment
decode and re-encode random documents (valid in every member order with undeclared members, and
single-fault mutants) exactly as the model does.
Not proved: maps, sums, numbers other than integers, formats, strings through jx's tokenizer, validators.
That is decided on every run on regenerated code: type-directed random Go values that pass their own
`Validate()` are encoded, the JSON is validated against the source schema by the reference validator,
and decoded again.
-/
namespace C04
open OptNil

theorem three_states {α} (zero : α) (w : W α) : state (decode zero (encode w)) = state w :=
  OptNil.three_states zero w

theorem states_distinct {α} (a : α) : (Member.omitted : Member α) ≠ .null ∧ (Member.null : Member α) ≠ .val a ∧
    (Member.omitted : Member α) ≠ .val a := OptNil.states_distinct a

theorem decode_canonical {α} (zero : α) (m : Member α) : decode zero (encode (decode zero m)) = decode zero m :=
  OptNil.decode_canonical zero m

/-- decoding a present member over a wrapper that already holds something (a `Null` pre-set by `default: null`,
    an earlier value) gives exactly what decoding into a fresh wrapper gives; an absent member keeps the default -/
theorem decode_over_default {α} (zero : α) (pre : W α) (m : Member α) (hm : m ≠ .omitted) :
    decodeOver zero pre m = decode zero m := OptNil.decodeOver_present zero pre m hm
theorem absent_keeps_default {α} (zero : α) (pre : W α) : decodeOver zero pre .omitted = pre := rfl

/-- **(regenerated facts) the generic `Decode` of the template assigns what `decodeOver` says it assigns**: all three
    fields on the null path, `Set` and `Null` before a value is decoded — read off the Go that the generator of the
    working tree writes for a probe document (`(*OptNilString).Decode`, go/ast, as sorted sets of assignments to the
    receiver) on every run -/
theorem facts_generic_decode :
    Facts.Tmpl.genericDecodeNullPath = ["o.Null = true", "o.Set = true", "o.Value = <value>"] ∧
    Facts.Tmpl.genericDecodeValueResets = ["o.Null = false", "o.Set = true"] := by decide

/-! ### the codec of the object / array / wrapper fragment (`JCodec`) -/
open JCodec in
/-- **round trip**: every value of a type comes back from its own encoding -/
theorem codec_round_trip (t : Ty) (v : Val) (hw : t.WF) (h : WT t v) : JCodec.decode t (JCodec.encode t v) = some v :=
  JCodec.decode_encode t v hw h
open JCodec in
/-- **conforms to the schema**: the encoding of every value of a type is admitted by the schema -/
theorem codec_output_valid (t : Ty) (v : Val) (hw : t.WF) (h : WT t v) : Valid t (JCodec.encode t v) :=
  JCodec.encode_valid t v hw h
open JCodec in
/-- the decoder accepts exactly the documents the schema admits (missing required member, `null` where not
    nullable, a wrong JSON type anywhere: refused; undeclared members and any member order: accepted) -/
theorem codec_accepts_iff_valid (j : Json) (t : Ty) (hw : t.WF) (hu : UniqueKeys j) :
    (JCodec.decode t j).isSome ↔ Valid t j := JCodec.accept_iff j t hw hu
open JCodec in
/-- the decoder builds only values of the type: `omitted` only for optional members, `null` only for nullable ones -/
theorem codec_decodes_only_values (j : Json) (t : Ty) (v : Val) (hw : t.WF) (h : JCodec.decode t j = some v) : WT t v :=
  JCodec.decode_wt j t v hw h
open JCodec in
/-- decoding is canonical -/
theorem codec_canonical (t : Ty) (j : Json) (v : Val) (hw : t.WF) (h : JCodec.decode t j = some v) :
    JCodec.decode t (JCodec.encode t v) = some v := JCodec.decode_canonical t j v hw h

open JCodec in
/-- what a decoded object holds, field by field: what the member of that name decodes to, the schema default when
    the member is absent and has one, `omitted` when it is absent and optional -/
theorem codec_decoded_fields (closed : Bool) (fs : List Field) (kvs : List (String × Json)) (st : List Val)
    (hn : (names fs).Nodup) (hk : (JEqG.keys kvs).Nodup) (h : JCodec.decode (.obj closed fs) (.obj kvs) = some (.obj st)) :
    st = fs.map (fieldState kvs) := JCodec.decoded_fields closed fs kvs st hn hk h

/-- the struct itself does not round-trip (why the comparison goes through `state`) -/
theorem struct_not_preserved : decode 0 (encode (⟨true, true, 5⟩ : W Nat)) ≠ ⟨true, true, 5⟩ := by decide
end C04
