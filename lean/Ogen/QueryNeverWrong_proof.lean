import Ogen.HeaderCookie_proof
/-! Proof probe for C06: query parameters never deliver a different value, apart from W1 (form, explode=false,
    `[""]` → `[]`) and W2 (pipeDelimited, explode=false, `[]` → `[""]`). Object field names are distinct (they are the
    property names of one schema). -/
namespace Codec

@[simp] theorem Style.beq_eq (a b : Style) : (a == b) = decide (a = b) := by cases a <;> cases b <;> rfl

theorem join_nil_iff (sep : UInt8) (items : List Bytes) : join sep items = [] ↔ items = [] ∨ items = [[]] := by
  cases items with
  | nil => simp [join]
  | cons x xs =>
    cases xs with
    | nil => simp [join]
    | cons y ys => simp [join]

theorem query_never_wrong_prim_arr (c : Cfg) (v v' : Val) (hloc : c.loc = .query)
    (hshape : match v with | .prim _ => c.shape = .prim | .arr _ => c.shape = .arr | .obj _ => False)
    (h : roundTrip c v = .ok v') :
    v' = v ∨ (v = .arr [[]] ∧ c.style = .form ∧ c.explode = false) ∨ (v = .arr [] ∧ c.style = .pipe ∧ c.explode = false) := by
  unfold roundTrip at h
  simp only [hloc] at h
  cases v with
  | prim s =>
    simp only at hshape
    cases hst : c.style <;>
      simp [queryEnc, queryDec, Values.transport, Values.get?, hst, hshape] at h
    exact Or.inl h.symm
  | arr items =>
    simp only at hshape
    cases hst : c.style <;> cases hex : c.explode <;>
      simp [queryEnc, queryDec, Values.transport, Values.get?, hst, hex, hshape] at h
    · -- form, explode=false
      by_cases hany : ∃ x, x ∈ items ∧ contains x 44 = true
      · simp [hany] at h
      · have hf : ∀ it ∈ items, contains it 0x2c = false := by
          intro it hit
          simp only [not_exists, not_and, Bool.not_eq_true] at hany
          exact hany it hit
        simp [hany] at h
        by_cases hj : join 44 items = []
        · simp [hj] at h
          rcases (join_nil_iff 44 items).mp hj with h0 | h0
          · left; rw [← h, h0]
          · right; left; exact ⟨by rw [h0], rfl, rfl⟩
        · simp [hj] at h
          have hne : items ≠ [] := by intro h0; apply hj; rw [h0]; rfl
          left; rw [← h, split_join' 0x2c items hne hf]
    · -- form, explode=true
      by_cases h0 : items = []
      · simp [h0] at h
      · simp [h0] at h; exact Or.inl h.symm
    · -- pipe, explode=false
      by_cases hany : ∃ x, x ∈ items ∧ contains x 124 = true
      · simp [hany] at h
      · have hf : ∀ it ∈ items, contains it 0x7c = false := by
          intro it hit
          simp only [not_exists, not_and, Bool.not_eq_true] at hany
          exact hany it hit
        simp [hany] at h
        by_cases h0 : items = []
        · right; right; exact ⟨by rw [h0], rfl, rfl⟩
        · left; rw [← h, split_join' 0x7c items h0 hf]
    · -- pipe, explode=true
      by_cases h0 : items = []
      · simp [h0] at h
      · simp [h0] at h; exact Or.inl h.symm
  | obj fields => exact absurd hshape (by simp)

/-! ### exploded objects: one query key per field -/
def encKV (q : Bytes → Bytes) (fields : List (Bytes × Bytes)) : Values := fields.map (fun kv => (q kv.1, [kv.2]))

theorem foldl_set (q : Bytes → Bytes) (fields : List (Bytes × Bytes)) (acc : Values)
    (hn : (acc.map (·.1) ++ fields.map (fun kv => q kv.1)).Nodup) :
    fields.foldl (fun vs (kv : Bytes × Bytes) => Values.set vs (q kv.1) [kv.2]) acc = acc ++ encKV q fields := by
  induction fields generalizing acc with
  | nil => simp [encKV]
  | cons f rest ih =>
    obtain ⟨k, v⟩ := f
    simp only [List.foldl_cons]
    have hfil : acc.filter (·.1 != q k) = acc := by
      apply List.filter_eq_self.mpr
      intro x hx
      simp only [bne_iff_ne, ne_eq]
      intro hxk
      simp only [List.map_cons] at hn
      have := (List.nodup_append.mp hn).2.2 x.1 (List.mem_map.mpr ⟨x, hx, rfl⟩) (q k) (List.mem_cons_self ..)
      exact this hxk
    have hset : Values.set acc (q k) [v] = acc ++ [(q k, [v])] := by simp only [Values.set, hfil]
    rw [hset]
    have := ih (acc ++ [(q k, [v])]) (by simpa [List.append_assoc] using hn)
    simpa [encKV, List.append_assoc] using this

theorem transport_encKV (q : Bytes → Bytes) (fields : List (Bytes × Bytes)) :
    Values.transport (encKV q fields) = encKV q fields := by
  unfold Values.transport encKV
  apply List.filter_eq_self.mpr
  intro x hx
  obtain ⟨kv, _, rfl⟩ := List.mem_map.mp hx
  simp

theorem get_encKV (q : Bytes → Bytes) (fields : List (Bytes × Bytes)) (hn : (fields.map (fun kv => q kv.1)).Nodup)
    {k v : Bytes} (hm : (k, v) ∈ fields) : Values.get? (encKV q fields) (q k) = some [v] := by
  induction fields with
  | nil => cases hm
  | cons f rest ih =>
    obtain ⟨k', v'⟩ := f
    simp only [List.map_cons, List.nodup_cons] at hn
    rcases List.mem_cons.mp hm with heq | hmem
    · cases heq
      simp [Values.get?, encKV]
    · have hne : q k' ≠ q k := by
        intro hk
        exact hn.1 (hk ▸ List.mem_map.mpr ⟨(k, v), hmem, rfl⟩)
      have := ih hn.2 hmem
      have hb : (q k' == q k) = false := by simpa using hne
      simp only [Values.get?, encKV, List.map_cons, List.find?_cons, hb] at this ⊢
      exact this

/-- the decoder's pass over the statically known field names -/
def decStep (q : Bytes → Bytes) (vs : Values) (acc : Option (List (Bytes × Bytes))) (f : Bytes) : Option (List (Bytes × Bytes)) :=
  match acc with
  | none => none
  | some l =>
    match vs.get? (q f) with
    | none | some [] => some l
    | some [x] => some (l ++ [(f, x)])
    | some _ => none

theorem decFold (q : Bytes → Bytes) (fields : List (Bytes × Bytes)) (hn : (fields.map (fun kv => q kv.1)).Nodup) :
    ∀ (sub acc : List (Bytes × Bytes)), (∀ x ∈ sub, x ∈ fields) →
      (sub.map (·.1)).foldl (decStep q (encKV q fields)) (some acc) = some (acc ++ sub) := by
  intro sub
  induction sub with
  | nil => intro acc _; simp
  | cons f rest ih =>
    intro acc hsub
    obtain ⟨k, v⟩ := f
    simp only [List.map_cons, List.foldl_cons]
    have hg := get_encKV q fields hn (hsub (k, v) (List.mem_cons_self ..))
    have : decStep q (encKV q fields) (some acc) k = some (acc ++ [(k, v)]) := by simp [decStep, hg]
    rw [this, ih (acc ++ [(k, v)]) (fun x hx => hsub x (List.mem_cons_of_mem _ hx))]
    simp [List.append_assoc]

#print axioms decFold

theorem exploded_dec (c : Cfg) (q : Bytes → Bytes) (fields : List (Bytes × Bytes))
    (hq : ∀ f, (if c.style == .deep then c.name ++ 0x5b :: f ++ [0x5d] else f) = q f)
    (hqn : (fields.map (fun kv => q kv.1)).Nodup) (hex : c.explode = true)
    (hsty : (c.style == .form || c.style == .deep) = true) (hshape : c.shape = .obj) (hemp : fields ≠ []) :
    queryDec c (fields.map (·.1)) (encKV q fields) = .ok (.obj fields) := by
  have hnames : (fields.map (·.1)).isEmpty = false := by simpa using hemp
  have hfold := decFold q fields hqn fields [] (fun x hx => hx)
  simp only [List.nil_append] at hfold
  have hpres : ((fields.map (·.1)).any fun f => (Values.get? (encKV q fields) (q f)).isSome) = true := by
    cases fields with
    | nil => exact absurd rfl hemp
    | cons f rest =>
      obtain ⟨k, v⟩ := f
      apply List.any_eq_true.mpr
      refine ⟨k, by simp, ?_⟩
      rw [get_encKV q _ hqn (List.mem_cons_self ..)]; rfl
  unfold queryDec
  simp only [hq, hnames, hex, hsty, hshape, Bool.not_false, Bool.and_self, Bool.true_and, if_true, hpres,
    Bool.not_true, Bool.false_eq_true, if_false, Bool.or_self, Bool.true_or]
  show (match List.foldl (decStep q (encKV q fields)) (some []) (fields.map (·.1)) with
        | some l => Out.ok (Val.obj l) | none => Out.decErr) = _
  rw [hfold]

theorem query_never_wrong_obj (c : Cfg) (fields : List (Bytes × Bytes)) (v' : Val) (hloc : c.loc = .query)
    (hshape : c.shape = .obj) (hnd : (fields.map (·.1)).Nodup)
    (h : roundTrip c (.obj fields) = .ok v') : v' = .obj fields := by
  unfold roundTrip at h
  simp only [hloc] at h
  by_cases hemp : fields = []
  · simp [queryEnc, queryDec, hemp, Values.transport, Values.get?] at h
  · have hemp' : fields.isEmpty = false := by simpa using hemp
    have hnames : (fields.map (·.1)).isEmpty = false := by simpa using hemp
    cases hst : c.style <;> cases hex : c.explode <;> simp only [queryEnc, hst, hex, hemp', Bool.false_eq_true, if_false, if_true, Bool.not_false, Bool.not_true] at h
    case form.false =>
      by_cases hany : (fields.any fun x => contains x.fst 44 || contains x.snd 44) = true
      · simp [hany] at h
      · simp only [hany, Bool.false_eq_true, if_false] at h
        have hk : ∀ f ∈ fields, contains f.1 0x2c = false := by
          intro f hf
          simp only [List.any_eq_true, not_exists, not_and, Bool.not_eq_true, Bool.or_eq_false_iff] at hany
          exact (hany f hf).1
        have hv : ∀ f ∈ fields, contains f.2 0x2c = false := by
          intro f hf
          simp only [List.any_eq_true, not_exists, not_and, Bool.not_eq_true, Bool.or_eq_false_iff] at hany
          exact (hany f hf).2
        simp [queryDec, Values.transport, Values.get?, hst, hex, hshape, hnames] at h
        cases hdec : decodeObject (List.length (encodeObject 44 44 fields) + 2) 44 44 (encodeObject 44 44 fields) with
        | none => simp [hdec] at h
        | some l =>
          simp [hdec] at h
          rw [← h, decodeObject_encodeObject 0x2c 0x2c fields hemp hk hv _ l hdec]
    case form.true =>
      have hfold := foldl_set (fun k => k) fields [] (by simpa using hnd)
      simp only [List.nil_append] at hfold
      rw [hfold, transport_encKV] at h
      rw [exploded_dec c (fun k => k) fields (by intro f; simp [hst]) (by simpa using hnd) hex (by simp [hst]) hshape hemp] at h
      cases h; rfl
    case deep.true =>
      have hinj : ∀ a b : Bytes, a ≠ b → c.name ++ 0x5b :: a ++ [0x5d] ≠ c.name ++ 0x5b :: b ++ [0x5d] := by
        intro a b hab heq
        apply hab
        simp only [List.append_assoc, List.cons_append] at heq
        have := List.append_cancel_left heq
        simp only [List.cons.injEq, true_and] at this
        exact List.append_cancel_right this
      have hqn : (fields.map (fun kv => c.name ++ 0x5b :: kv.1 ++ [0x5d])).Nodup := by
        have : fields.map (fun kv => c.name ++ 0x5b :: kv.1 ++ [0x5d]) =
            (fields.map (·.1)).map (fun k => c.name ++ 0x5b :: k ++ [0x5d]) := by simp
        rw [this]
        exact List.Pairwise.map _ hinj hnd
      have hfold := foldl_set (fun k => c.name ++ 0x5b :: k ++ [0x5d]) fields [] (by simpa using hqn)
      simp only [List.nil_append] at hfold
      rw [hfold, transport_encKV] at h
      rw [exploded_dec c (fun k => c.name ++ 0x5b :: k ++ [0x5d]) fields (by intro f; simp [hst]) hqn hex (by simp [hst]) hshape hemp] at h
      cases h; rfl
    all_goals (first | cases h | skip)

#print axioms query_never_wrong_obj
#print axioms query_never_wrong_prim_arr
end Codec
