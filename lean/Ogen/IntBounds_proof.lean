/-! Proof probe for C03: the bound checks of `validate.Int.Validate` (validate/int.go) and the property-count check of
    `validate.Object.ValidateProperties` decide `minimum`/`maximum` with their `exclusive*` flags and
    `minProperties`/`maxProperties`. Comparisons of int64 values are comparisons of the integers they denote, so the
    model is on `Int`; the `multipleOf` part, where the representation matters, is `IntValidate_proof.lean`. -/
namespace IntBounds

structure IntV where
  minSet : Bool
  min : Int
  minExclusive : Bool
  maxSet : Bool
  max : Int
  maxExclusive : Bool

/-- the two bound tests of `Validate`; `true` = no error -/
def boundsOk (t : IntV) (v : Int) : Bool :=
  if t.minSet && (v < t.min || (t.minExclusive && v == t.min)) then false
  else if t.maxSet && (v > t.max || (t.maxExclusive && v == t.max)) then false
  else true

/-- JSON Schema draft 4 reading (boolean `exclusiveMinimum` / `exclusiveMaximum`) -/
def Valid (t : IntV) (v : Int) : Prop :=
  (t.minSet = true → if t.minExclusive then t.min < v else t.min ≤ v) ∧
  (t.maxSet = true → if t.maxExclusive then v < t.max else v ≤ t.max)

theorem boundsOk_iff (t : IntV) (v : Int) : boundsOk t v = true ↔ Valid t v := by
  unfold boundsOk Valid
  cases t.minSet <;> cases t.minExclusive <;> cases t.maxSet <;> cases t.maxExclusive <;> simp <;> omega

structure ObjV where
  minSet : Bool
  min : Int
  maxSet : Bool
  max : Int

def propsOk (t : ObjV) (n : Int) : Bool :=
  if t.maxSet && n > t.max then false
  else if t.minSet && n < t.min then false
  else true

theorem propsOk_iff (t : ObjV) (n : Int) :
    propsOk t n = true ↔ (t.maxSet = true → n ≤ t.max) ∧ (t.minSet = true → t.min ≤ n) := by
  unfold propsOk
  cases t.minSet <;> cases t.maxSet <;> simp <;> omega

#print axioms boundsOk_iff
#print axioms propsOk_iff
end IntBounds
