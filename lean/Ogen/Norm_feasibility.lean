/-! Prototype for C12 (fixed NormalizeEscapedPath). -/
namespace Norm
abbrev Bytes := List UInt8

inductive Outcome (α : Type) where
  | ok (a : α) | err | panic
deriving Repr, DecidableEq

def Outcome.map {α β} (f : α → β) : Outcome α → Outcome β
  | .ok a => .ok (f a) | .err => .err | .panic => .panic

def ishex (c : UInt8) : Bool :=
  (0x30 ≤ c && c ≤ 0x39) || (0x61 ≤ c && c ≤ 0x66) || (0x41 ≤ c && c ≤ 0x46)
def unhex (c : UInt8) : UInt8 :=
  if 0x30 ≤ c && c ≤ 0x39 then c - 0x30
  else if 0x61 ≤ c && c ≤ 0x66 then c - 0x61 + 10
  else if 0x41 ≤ c && c ≤ 0x46 then c - 0x41 + 10 else 0
def up (c : UInt8) : UInt8 := if 0x61 ≤ c && c ≤ 0x66 then c - 0x20 else c
def isLower (c : UInt8) : Bool := 0x61 ≤ c && c ≤ 0x7a
def shouldEscape (c : UInt8) : Bool :=
  !((0x61 ≤ c && c ≤ 0x7a) || (0x41 ≤ c && c ≤ 0x5a) || (0x30 ≤ c && c ≤ 0x39)
    || c == 0x2d || c == 0x5f || c == 0x2e || c == 0x7e)
def val (a b : UInt8) : UInt8 := unhex a <<< 4 ||| unhex b
def needs (a b : UInt8) : Bool := isLower a || isLower b || !shouldEscape (val a b)

/-- first loop: validate every escape, remember whether a rewrite is needed -/
def scan : Bytes → Option Bool
  | [] => some false
  | c :: cs =>
    if c = 0x25 then
      match cs with
      | a :: b :: rest => if ishex a && ishex b then (scan rest).map (needs a b || ·) else none
      | _ => none
    else scan cs

/-- second loop, with the unchecked reads `s[i+1]`, `s[i+2]` made explicit -/
def slow : Bytes → Outcome Bytes
  | [] => .ok []
  | c :: cs =>
    if c = 0x25 then
      match cs with
      | a :: b :: rest =>
        (slow rest).map fun t =>
          if shouldEscape (val a b) then 0x25 :: up a :: up b :: t else val a b :: t
      | _ => .panic
    else (slow cs).map (c :: ·)

def normalize (s : Bytes) : Outcome Bytes :=
  match scan s with
  | none => .err
  | some false => .ok s
  | some true => slow s

/-! spec -/
inductive Valid : Bytes → Prop
  | nil : Valid []
  | raw {c s} : c ≠ 0x25 → Valid s → Valid (c :: s)
  | esc {a b s} : ishex a = true → ishex b = true → Valid s → Valid (0x25 :: a :: b :: s)

def octets : Bytes → Bytes
  | [] => []
  | c :: cs =>
    if c = 0x25 then
      match cs with
      | a :: b :: rest => val a b :: octets rest
      | _ => c :: cs
    else c :: octets cs

#check @scan.induct

theorem valid_pct_inv {cs : Bytes} (h : Valid (0x25 :: cs)) :
    ∃ a b rest, cs = a :: b :: rest ∧ ishex a = true ∧ ishex b = true ∧ Valid rest := by
  cases h with
  | raw hne _ => exact absurd rfl hne
  | esc ha hb hv => exact ⟨_, _, _, rfl, ha, hb, hv⟩

theorem scan_some_iff_valid (s : Bytes) : (scan s).isSome ↔ Valid s := by
  fun_induction scan s with
  | case1 => simp; exact Valid.nil
  | case2 a b rest hh ih =>
    simp only [Bool.and_eq_true] at hh
    constructor
    · intro h
      exact Valid.esc hh.1 hh.2 (ih.mp (by simpa using h))
    · intro h
      obtain ⟨a', b', rest', heq, _, _, hv⟩ := valid_pct_inv h
      cases heq
      simpa using ih.mpr hv
  | case3 a b rest hh =>
    constructor
    · intro h; simp at h
    · intro h
      obtain ⟨a', b', rest', heq, ha, hb, _⟩ := valid_pct_inv h
      cases heq
      simp [ha, hb] at hh
  | case4 cs hcs =>
    constructor
    · intro h; simp at h
    · intro h
      obtain ⟨a', b', rest', heq, _, _, _⟩ := valid_pct_inv h
      exact absurd heq (hcs _ _ _)
  | case5 c cs hc ih =>
    constructor
    · intro h; exact Valid.raw hc (ih.mp h)
    · intro h
      cases h with
      | raw _ hv => exact ih.mpr hv
      | esc _ _ _ => exact absurd rfl hc

/-- lift a `decide`d fact over all 256 bytes -/
theorem forall_byte {P : UInt8 → Prop} (h : ∀ n : Fin 256, P (UInt8.ofFin n)) : ∀ c : UInt8, P c := by
  intro c; simpa using h c.toFin

theorem slow_no_panic (s : Bytes) (h : (scan s).isSome) : ∃ t, slow s = .ok t := by
  fun_induction scan s with
  | case1 => exact ⟨[], rfl⟩
  | case2 a b rest hh ih =>
    obtain ⟨t, ht⟩ := ih (by simpa using h)
    unfold slow
    simp [ht, Outcome.map]
  | case3 a b rest hh => simp at h
  | case4 cs hcs => simp at h
  | case5 c cs hc ih =>
    obtain ⟨t, ht⟩ := ih h
    unfold slow
    simp [hc, ht, Outcome.map]

theorem normalize_total (s : Bytes) : normalize s ≠ .panic := by
  unfold normalize
  split
  · simp
  · simp
  · rename_i h
    obtain ⟨t, ht⟩ := slow_no_panic s (by simp [h])
    simp [ht]

theorem normalize_err_iff (s : Bytes) : normalize s = .err ↔ ¬ Valid s := by
  rw [← scan_some_iff_valid]
  unfold normalize
  split
  · rename_i h; simp [h]
  · rename_i h; simp [h]
  · rename_i h
    obtain ⟨t, ht⟩ := slow_no_panic s (by simp [h])
    simp [ht, h]

/-- canonical: only upper-case escapes of bytes that must be escaped -/
inductive Canon : Bytes → Prop
  | nil : Canon []
  | raw {c s} : c ≠ 0x25 → Canon s → Canon (c :: s)
  | esc {a b s} : ishex a = true → ishex b = true → needs a b = false → Canon s → Canon (0x25 :: a :: b :: s)

theorem scan_false_iff_canon (s : Bytes) : scan s = some false ↔ Canon s := by
  fun_induction scan s with
  | case1 => simp; exact Canon.nil
  | case2 a b rest hh ih =>
    simp only [Bool.and_eq_true] at hh
    constructor
    · intro h
      cases hs : scan rest with
      | none => simp [hs] at h
      | some r =>
        simp [hs] at h
        exact Canon.esc hh.1 hh.2 h.1 (ih.mp (by simp [hs, h.2]))
    · intro h
      cases h with
      | raw hne _ => exact absurd rfl hne
      | esc _ _ hn hc => simp [ih.mpr hc, hn]
  | case3 a b rest hh =>
    constructor
    · intro h; simp at h
    · intro h
      cases h with
      | raw hne _ => exact absurd rfl hne
      | esc ha hb _ _ => simp [ha, hb] at hh
  | case4 cs hcs =>
    constructor
    · intro h; simp at h
    · intro h
      cases h with
      | raw hne _ => exact absurd rfl hne
      | esc _ _ _ _ => exact absurd rfl (hcs _ _ _)
  | case5 c cs hc ih =>
    constructor
    · intro h; exact Canon.raw hc (ih.mp h)
    · intro h
      cases h with
      | raw _ hv => exact ih.mpr hv
      | esc _ _ _ _ => exact absurd rfl hc

theorem byte_facts : ∀ a : UInt8, ishex a = true →
    ishex (up a) = true ∧ isLower (up a) = false ∧ unhex (up a) = unhex a := by
  apply forall_byte; decide +kernel

theorem raw_not_pct : ∀ v : UInt8, shouldEscape v = false → v ≠ 0x25 := by
  apply forall_byte; decide +kernel

@[simp] theorem octets_raw {c : UInt8} {cs : Bytes} (hc : c ≠ 0x25) : octets (c :: cs) = c :: octets cs := by
  conv => lhs; unfold octets
  simp [hc]
@[simp] theorem octets_esc {a b : UInt8} {rest : Bytes} : octets (0x25 :: a :: b :: rest) = val a b :: octets rest := by
  conv => lhs; unfold octets
  simp

theorem slow_spec (s : Bytes) (h : Valid s) : ∃ t, slow s = .ok t ∧ Canon t ∧ octets t = octets s := by
  induction h with
  | nil => exact ⟨[], rfl, Canon.nil, rfl⟩
  | @raw c s hc _ ih =>
    obtain ⟨t, ht, hcan, hoct⟩ := ih
    refine ⟨c :: t, ?_, Canon.raw hc hcan, ?_⟩
    · unfold slow; simp [hc, ht, Outcome.map]
    · simp [hc, hoct]
  | @esc a b s ha hb _ ih =>
    obtain ⟨t, ht, hcan, hoct⟩ := ih
    obtain ⟨ha1, ha2, ha3⟩ := byte_facts a ha
    obtain ⟨hb1, hb2, hb3⟩ := byte_facts b hb
    by_cases hs : shouldEscape (val a b) = true
    · refine ⟨0x25 :: up a :: up b :: t, ?_, ?_, ?_⟩
      · unfold slow; simp [ht, Outcome.map, hs]
      · refine Canon.esc ha1 hb1 ?_ hcan
        simp [needs, ha2, hb2, val, ha3, hb3]; simpa [val] using hs
      · simp [val, ha3, hb3, hoct]
    · have hs' : shouldEscape (val a b) = false := by simpa using hs
      refine ⟨val a b :: t, ?_, Canon.raw (raw_not_pct _ hs') hcan, ?_⟩
      · unfold slow; simp [ht, Outcome.map, hs']
      · simp [raw_not_pct _ hs', hoct]

theorem normalize_ok_spec {s t : Bytes} (h : normalize s = .ok t) :
    Valid s ∧ Canon t ∧ octets t = octets s := by
  unfold normalize at h
  split at h
  · cases h
  · rename_i hs
    cases h
    exact ⟨(scan_some_iff_valid _).mp (by simp [hs]), (scan_false_iff_canon _).mp hs, rfl⟩
  · rename_i hs
    have hv := (scan_some_iff_valid s).mp (by simp [hs])
    obtain ⟨t', ht', hc, ho⟩ := slow_spec s hv
    rw [ht'] at h; cases h
    exact ⟨hv, hc, ho⟩

theorem normalize_idem {s t : Bytes} (h : normalize s = .ok t) : normalize t = .ok t := by
  have hc := (normalize_ok_spec h).2.1
  unfold normalize
  simp [(scan_false_iff_canon t).mpr hc]


/-! ### equivalence classes: hex case and needless escaping are exactly what is forgotten -/
inductive Tok where
  | raw (b : UInt8)
  | esc (v : UInt8)
deriving DecidableEq, Repr

def tokens : Bytes → Option (List Tok)
  | [] => some []
  | c :: cs =>
    if c = 0x25 then
      match cs with
      | a :: b :: rest => if ishex a && ishex b then (tokens rest).map (Tok.esc (val a b) :: ·) else none
      | _ => none
    else (tokens cs).map (Tok.raw c :: ·)

def hexU (n : UInt8) : UInt8 := if n < 10 then 0x30 + n else 0x41 + (n - 10)

/-- the canonical spelling of a token: an escape of an unreserved byte becomes the byte itself -/
def canonTok : Tok → Tok
  | .raw b => .raw b
  | .esc v => if shouldEscape v then .esc v else .raw v

def render : List Tok → Bytes
  | [] => []
  | .raw b :: ts => b :: render ts
  | .esc v :: ts => 0x25 :: hexU (v >>> 4) :: hexU (v &&& 15) :: render ts

theorem up_eq_hexU : ∀ a : UInt8, ishex a = true → ∀ b : UInt8, ishex b = true →
    up a = hexU (val a b >>> 4) ∧ up b = hexU (val a b &&& 15) := by
  -- nibble-wise: 22 hex digits on each side
  have key : ∀ a : UInt8, ishex a = true → unhex a < 16 ∧ hexU (unhex a) = up a := by
    apply forall_byte; decide +kernel
  have nib : ∀ x y : Fin 16, ((UInt8.ofNat x.val <<< 4 ||| UInt8.ofNat y.val) >>> 4 = UInt8.ofNat x.val) ∧
      ((UInt8.ofNat x.val <<< 4 ||| UInt8.ofNat y.val) &&& 15 = UInt8.ofNat y.val) := by decide +kernel
  intro a ha b hb
  obtain ⟨ha1, ha2⟩ := key a ha
  obtain ⟨hb1, hb2⟩ := key b hb
  have hx : unhex a = UInt8.ofNat (unhex a).toNat := by simp
  have hy : unhex b = UInt8.ofNat (unhex b).toNat := by simp
  have hxl : (unhex a).toNat < 16 := by have := UInt8.lt_iff_toNat_lt.mp ha1; simpa using this
  have hyl : (unhex b).toNat < 16 := by have := UInt8.lt_iff_toNat_lt.mp hb1; simpa using this
  have := nib ⟨(unhex a).toNat, hxl⟩ ⟨(unhex b).toNat, hyl⟩
  simp only at this
  rw [← hx, ← hy] at this
  unfold val
  rw [this.1, this.2, ha2, hb2]
  exact ⟨rfl, rfl⟩

theorem slow_eq_render (s : Bytes) (h : Valid s) :
    ∃ ts, tokens s = some ts ∧ slow s = .ok (render (ts.map canonTok)) := by
  induction h with
  | nil => exact ⟨[], rfl, rfl⟩
  | @raw c s hc _ ih =>
    obtain ⟨ts, ht, hs⟩ := ih
    refine ⟨Tok.raw c :: ts, ?_, ?_⟩
    · conv => lhs; unfold tokens
      simp [hc, ht]
    · conv => lhs; unfold slow
      simp [hc, hs, Outcome.map, canonTok, render]
  | @esc a b s ha hb _ ih =>
    obtain ⟨ts, ht, hs⟩ := ih
    refine ⟨Tok.esc (val a b) :: ts, ?_, ?_⟩
    · conv => lhs; unfold tokens
      simp [ha, hb, ht]
    · conv => lhs; unfold slow
      obtain ⟨h1, h2⟩ := up_eq_hexU a ha b hb
      by_cases hse : shouldEscape (val a b) = true
      · simp [hs, Outcome.map, canonTok, render, hse, h1, h2]
      · have : shouldEscape (val a b) = false := by simpa using hse
        simp [hs, Outcome.map, canonTok, render, this]

theorem up_id : ∀ a : UInt8, ishex a = true → isLower a = false → up a = a := by
  apply forall_byte; decide +kernel

theorem canon_eq_render (s : Bytes) (h : Canon s) :
    ∃ ts, tokens s = some ts ∧ render (ts.map canonTok) = s := by
  induction h with
  | nil => exact ⟨[], rfl, rfl⟩
  | @raw c s hc _ ih =>
    obtain ⟨ts, ht, hs⟩ := ih
    refine ⟨Tok.raw c :: ts, ?_, ?_⟩
    · conv => lhs; unfold tokens
      simp [hc, ht]
    · simp [canonTok, render, hs]
  | @esc a b s ha hb hn _ ih =>
    obtain ⟨ts, ht, hs⟩ := ih
    refine ⟨Tok.esc (val a b) :: ts, ?_, ?_⟩
    · conv => lhs; unfold tokens
      simp [ha, hb, ht]
    · simp only [needs, Bool.or_eq_false_iff, Bool.not_eq_false'] at hn
      obtain ⟨⟨hla, hlb⟩, hse⟩ := hn
      obtain ⟨h1, h2⟩ := up_eq_hexU a ha b hb
      rw [up_id a ha hla] at h1
      rw [up_id b hb hlb] at h2
      simp [canonTok, render, hse, hs, ← h1, ← h2]

theorem valid_of_tokens (s : Bytes) : ∀ ts, tokens s = some ts → Valid s := by
  fun_induction tokens s with
  | case1 => intro _ _; exact Valid.nil
  | case2 a b rest hh ih =>
    intro ts h
    simp only [Bool.and_eq_true] at hh
    cases hr : tokens rest with
    | none => simp [hr] at h
    | some tr => exact Valid.esc hh.1 hh.2 (ih tr hr)
  | case3 a b rest hh => intro ts h; simp at h
  | case4 cs hcs => intro ts h; simp at h
  | case5 c cs hc ih =>
    intro ts h
    cases hr : tokens cs with
    | none => simp [hr] at h
    | some tr => exact Valid.raw hc (ih tr hr)

/-- the normal form is a function of the canonical token list alone -/
theorem normalize_eq_render {s : Bytes} {ts : List Tok} (ht : tokens s = some ts) :
    normalize s = .ok (render (ts.map canonTok)) := by
  have hv : Valid s := valid_of_tokens s ts ht
  obtain ⟨ts', ht', hslow⟩ := slow_eq_render s hv
  have hts : ts' = ts := by rw [ht] at ht'; cases ht'; rfl
  subst hts
  unfold normalize
  cases hsc : scan s with
  | none =>
    have := (scan_some_iff_valid s).mpr hv
    simp [hsc] at this
  | some b =>
    cases b with
    | false =>
      simp only
      obtain ⟨ts'', ht'', hr⟩ := canon_eq_render s ((scan_false_iff_canon s).mp hsc)
      rw [ht] at ht''; cases ht''
      rw [hr]
    | true => simpa using hslow

/-- **C12, last clause**: two escaped paths with the same canonical tokens — i.e. differing only in hex case or
    in needless escaping of unreserved bytes — have the same normal form (and hence reach the same route with
    the same arguments, since the router only ever sees the normal form). -/
theorem normalize_equiv {s s' : Bytes} {ts ts' : List Tok} (h : tokens s = some ts) (h' : tokens s' = some ts')
    (heq : ts.map canonTok = ts'.map canonTok) : normalize s = normalize s' := by
  rw [normalize_eq_render h, normalize_eq_render h', heq]

example : normalize [0x2f, 0x25, 0x33, 0x66, 0x25, 0x36, 0x31] = normalize [0x2f, 0x25, 0x33, 0x46, 0x61] := by decide

#print axioms normalize_equiv
end Norm

/-! line-protocol driver: one hex-encoded byte string per line -/
namespace Norm
def hexVal (c : Char) : UInt8 :=
  if c.isDigit then (c.toNat - 48).toUInt8 else if 'a' ≤ c ∧ c ≤ 'f' then (c.toNat - 87).toUInt8 else (c.toNat - 55).toUInt8
def parseHex : List Char → List UInt8
  | a :: b :: rest => (hexVal a * 16 + hexVal b) :: parseHex rest
  | _ => []
def hexDigit (n : UInt8) : Char := if n < 10 then Char.ofNat (48 + n.toNat) else Char.ofNat (87 + n.toNat)
def toHex (bs : List UInt8) : String := String.ofList (bs.flatMap fun b => [hexDigit (b / 16), hexDigit (b % 16)])
def hex2 (b : UInt8) : String := toHex [b]
/-- T-exh: one byte predicate per line, `<name> <hex byte>` -/
def byteLine (line : String) : String :=
  match line.splitOn " " with
  | [name, h] =>
    match parseHex h.toList with
    | [c] =>
      match name with
      | "ishex" => if ishex c then "1" else "0"
      | "unhex" => hex2 (unhex c)
      | "up" => hex2 (up c)
      | "isLower" => if isLower c then "1" else "0"
      | "shouldEscape" => if shouldEscape c then "1" else "0"
      | _ => "bad-pred"
    | _ => "bad-byte"
  | _ => "bad-line"
def runLine (line : String) : String :=
  match normalize (parseHex line.toList) with
  | .ok t => "ok:" ++ toHex t
  | .err => "err"
  | .panic => "panic"
end Norm
