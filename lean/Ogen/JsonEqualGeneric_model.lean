/-! C18 model, generic in the number representation `N` and its comparison `ne` (the feasibility model
    `JsonEqual_feasibility.lean` is the instance N = raw text; the proofs use N = `Spell`). -/
namespace JEqG

inductive J (N : Type) where
  | null
  | bool (b : Bool)
  | str (s : String)
  | num (n : N)
  | arr (items : List (J N))
  | obj (members : List (String × J N))

variable {N : Type}

def lastWins (ms : List (String × J N)) : List (String × J N) :=
  ms.foldl (fun acc (k, v) => (acc.filter (·.1 != k)) ++ [(k, v)]) []

mutual
def equal (ne : N → N → Bool) : J N → J N → Bool
  | .null, .null => true
  | .bool a, .bool b => a == b
  | .str a, .str b => a == b
  | .num a, .num b => ne a b
  | .arr a, .arr b => equalList ne a b
  | .obj a, .obj b => equalObj ne (lastWins a) b (lastWins a).length 0
  | _, _ => false
def equalList (ne : N → N → Bool) : List (J N) → List (J N) → Bool
  | [], [] => true
  | x :: xs, y :: ys => equal ne x y && equalList ne xs ys
  | _, _ => false
def equalObj (ne : N → N → Bool) (lmap : List (String × J N)) : List (String × J N) → Nat → Nat → Bool
  | [], n, i => n == i
  | (k, v) :: rest, n, i =>
    match lookupJ lmap k with
    | none => false
    | some lv => equal ne lv v && equalObj ne lmap rest n (i + 1)
def lookupJ : List (String × J N) → String → Option (J N)
  | [], _ => none
  | (k, v) :: rest, key => if k == key then some v else lookupJ rest key
end
end JEqG
