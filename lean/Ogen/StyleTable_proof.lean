import Ogen.FlatQueryCoreDelivered_proof
/-! C06, the style table for header, cookie and query parameters, stated independently of the encoders: the
    serializations of the OpenAPI 3.0.3 "Style Examples" table written with `join` over lists of texts (`a,b,c`,
    `k,v,k,v`, `k=v,k=v`), and the theorem that the encoders write exactly these for every core value. -/
namespace Codec

/-- `R=100,G=200`-style pairs -/
def pairs (kv : UInt8) (fields : List (Bytes × Bytes)) : List Bytes := fields.map fun f => f.1 ++ kv :: f.2
/-- `R,100,G,200`-style flattening -/
def flat (fields : List (Bytes × Bytes)) : List Bytes := fields.flatMap fun f => [f.1, f.2]

theorem encodeObject_pairs (kv fs : UInt8) (fields : List (Bytes × Bytes)) :
    encodeObject kv fs fields = join fs (pairs kv fields) := by
  induction fields with
  | nil => rfl
  | cons f rest ih =>
    obtain ⟨k, v⟩ := f
    cases rest with
    | nil => simp [encodeObject, pairs, join]
    | cons g rest' =>
      have : encodeObject kv fs ((k, v) :: g :: rest') = k ++ kv :: v ++ fs :: encodeObject kv fs (g :: rest') := by
        obtain ⟨k', v'⟩ := g
        rfl
      rw [this, ih]
      simp [pairs, join]

theorem join_flat (fields : List (Bytes × Bytes)) :
    join 0x2c (pairs 0x2c fields) = join 0x2c (flat fields) := by
  induction fields with
  | nil => rfl
  | cons f rest ih =>
    obtain ⟨k, v⟩ := f
    cases rest with
    | nil => simp [pairs, flat, join]
    | cons g rest' =>
      have h1 : join 0x2c (pairs 0x2c ((k, v) :: g :: rest')) = (k ++ 0x2c :: v) ++ 0x2c :: join 0x2c (pairs 0x2c (g :: rest')) := by
        simp [pairs, join]
      have h2 : join 0x2c (flat ((k, v) :: g :: rest')) = k ++ 0x2c :: (v ++ 0x2c :: join 0x2c (flat (g :: rest'))) := by
        obtain ⟨k', v'⟩ := g
        simp [flat, join]
      rw [h1, h2, ih]
      simp

/-- the table for `in: header` (style simple) -/
def headerTable (explode : Bool) : Val → Bytes
  | .prim s => s
  | .arr items => join 0x2c items
  | .obj fields => if explode then join 0x2c (pairs 0x3d fields) else join 0x2c (flat fields)

/-- **header parameters are written as the style table prescribes**, for every core value -/
theorem header_style_table (c : Cfg) (v : Val) (hcore : CoreFlat (if c.explode then 0x3d else 0x2c) v) :
    headerEnc c v = .ok (some (headerTable c.explode v)) := by
  cases v with
  | prim s => rfl
  | arr items =>
    simp only [CoreFlat] at hcore
    have : (items.any fun it => contains it 0x2c) = false := any_false_of hcore.2
    simp [headerEnc, this, headerTable]
  | obj fields =>
    simp only [CoreFlat] at hcore
    have hE : fields.isEmpty = false := by simpa using hcore.1
    have hany : (fields.any fun (x : Bytes × Bytes) => contains x.1 (if c.explode then 0x3d else 0x2c) || contains x.2 0x2c) = false :=
      any_false_of (fun f hf => by simp [(hcore.2 f hf).2.1, (hcore.2 f hf).2.2])
    simp only [headerEnc, hE, Bool.false_eq_true, if_false]
    rw [if_neg (by rw [hany]; simp)]
    cases hex : c.explode
    · simp [headerTable, encodeObject_pairs, join_flat]
    · simp [headerTable, encodeObject_pairs]

/-- the table for `in: cookie` (style form, not exploded for arrays and objects), before cookie escaping -/
def cookieTable : Val → Bytes
  | .prim s => s
  | .arr items => join 0x2c items
  | .obj fields => join 0x2c (flat fields)

/-- **cookie parameters**: the table's text, cookie-escaped -/
theorem cookie_style_table (c : Cfg) (v : Val) (hex : (∀ s, v ≠ .prim s) → c.explode = false) (hcore : CoreFlat 0x2c v) :
    cookieEnc c v = .ok (some (escapeCookie (cookieTable v))) := by
  cases v with
  | prim s => rfl
  | arr items =>
    simp only [CoreFlat] at hcore
    have he : c.explode = false := hex (fun s h => by cases h)
    have : (items.any fun it => contains it 0x2c) = false := any_false_of hcore.2
    simp [cookieEnc, he, this, cookieTable]
  | obj fields =>
    simp only [CoreFlat] at hcore
    have he : c.explode = false := hex (fun s h => by cases h)
    have hE : fields.isEmpty = false := by simpa using hcore.1
    have hany : (fields.any fun (x : Bytes × Bytes) => contains x.1 0x2c || contains x.2 0x2c) = false :=
      any_false_of (fun f hf => by simp [(hcore.2 f hf).2.1, (hcore.2 f hf).2.2])
    simp only [cookieEnc, hE, he, Bool.false_eq_true, if_false]
    rw [if_neg (by rw [hany]; simp)]
    simp [cookieTable, encodeObject_pairs, join_flat]

/-- the table for `in: query` as the multimap handed to `url.Values.Encode`: form (exploded or not),
    pipeDelimited, deepObject -/
def queryTable (c : Cfg) : Val → Values
  | .prim s => [(c.name, [s])]
  | .arr items =>
    if c.explode then [(c.name, items)]
    else [(c.name, [join (if c.style == .form then 0x2c else 0x7c) items])]
  | .obj fields =>
    if c.style == .deep then fields.foldl (fun vs f => Values.set vs (c.name ++ 0x5b :: f.1 ++ [0x5d]) [f.2]) []
    else if c.explode then fields.foldl (fun vs f => Values.set vs f.1 [f.2]) []
    else [(c.name, [join 0x2c (flat fields)])]

/-- **query parameters are written as the style table prescribes**, for every core value -/
theorem query_style_table (c : Cfg) (v : Val) (hcore : CoreQuery c v) : queryEnc c v = .ok (queryTable c v) := by
  cases v with
  | prim s =>
    simp only [CoreQuery] at hcore
    simp [queryEnc, queryTable, hcore]
  | arr items =>
    simp only [CoreQuery] at hcore
    obtain ⟨_, hc⟩ := hcore
    rcases hc with ⟨hst, hx | hf⟩ | ⟨hst, hx | hf⟩
    · simp [queryEnc, queryTable, hst, hx]
    · cases hex : c.explode
      · have : (items.any fun it => contains it 0x2c) = false := any_false_of (fun it hit => (hf it hit).2)
        simp [queryEnc, queryTable, hst, hex, this]
      · simp [queryEnc, queryTable, hst, hex]
    · simp [queryEnc, queryTable, hst, hx]
    · cases hex : c.explode
      · have : (items.any fun it => contains it 0x7c) = false := any_false_of (fun it hit => (hf it hit).2)
        simp [queryEnc, queryTable, hst, hex, this]
      · simp [queryEnc, queryTable, hst, hex]
  | obj fields =>
    simp only [CoreQuery] at hcore
    obtain ⟨hne, _, hc⟩ := hcore
    have hE : fields.isEmpty = false := by simpa using hne
    rcases hc with ⟨hst, hex⟩ | ⟨hst, hex⟩ | ⟨hst, hex, hf⟩
    · simp [queryEnc, queryTable, hE, hst, hex]
    · simp [queryEnc, queryTable, hE, hst, hex]
    · have hany : (fields.any fun (x : Bytes × Bytes) => contains x.1 0x2c || contains x.2 0x2c) = false :=
        any_false_of (fun f hf' => by simp [(hf f hf').2.1, (hf f hf').2.2])
      simp only [queryEnc, hE, hst, hex, Bool.false_eq_true, if_false]
      rw [if_neg (by rw [hany]; simp)]
      simp [queryTable, hst, hex, encodeObject_pairs, join_flat]

/-! non-vacuity: the rows of the specification's table (R=100, G=200, B=150; id = 3,4,5) -/
example : headerTable false (.obj [([0x52], [0x31]), ([0x47], [0x32])]) = [0x52, 0x2c, 0x31, 0x2c, 0x47, 0x2c, 0x32] := by decide
example : headerTable true (.obj [([0x52], [0x31]), ([0x47], [0x32])]) = [0x52, 0x3d, 0x31, 0x2c, 0x47, 0x3d, 0x32] := by decide
example : headerTable false (.arr [[0x33], [0x34], [0x35]]) = [0x33, 0x2c, 0x34, 0x2c, 0x35] := by decide
end Codec
