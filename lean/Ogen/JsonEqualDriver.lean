import Ogen.JsonEqualModel
/-! Line-protocol driver for C18 on top of the *proved* model `JEqFinal.jsonEqual` / `EnumDup.scan`.
    Values arrive as prefix tokens: `n | t | f | s<hex utf8> | #<hex number text> | [k | {k` (members as
    `k<hex>` followed by the value). Number texts are lexed into `Spell` here (trusted glue). -/
namespace JEqDrv
open JEqG JEqNum JEqFinal
instance : Inhabited Json := ⟨.null⟩

def hexVal (c : Char) : Nat := if c.isDigit then c.toNat - 48 else c.toNat - 87
def unhexStr (s : String) : String :=
  let rec go : List Char → List UInt8
    | a :: b :: rest => (hexVal a * 16 + hexVal b).toUInt8 :: go rest
    | _ => []
  match String.fromUTF8? (ByteArray.mk (go s.toList).toArray) with
  | some r => r
  | none => "<bad utf8>"

def digs (cs : List Char) : List Nat := cs.map (fun c => c.toNat - 48)

/-- lexer for the JSON number grammar: -? int (. frac)? ((e|E) (+|-)? digits)? -/
def lexNum (raw : String) : Spell :=
  let cs := raw.toList
  let (neg, cs) := match cs with | '-' :: r => (true, r) | r => (false, r)
  let mantP := cs.takeWhile (fun c => c != 'e' && c != 'E')
  let expP := cs.dropWhile (fun c => c != 'e' && c != 'E')
  let intP := mantP.takeWhile (· != '.')
  let fracP := mantP.dropWhile (· != '.')
  let frac : Option (List Nat) := match fracP with | _ :: f => some (digs f) | [] => none
  let exp : Option (Bool × Option Bool × List Nat) :=
    match expP with
    | e :: r =>
      let up := e == 'E'
      (match r with
       | '-' :: ds => some (up, some true, digs ds)
       | '+' :: ds => some (up, some false, digs ds)
       | ds => some (up, none, digs ds))
    | [] => none
  ⟨neg, digs intP, frac, exp⟩

partial def readJ (toks : List String) : Json × List String :=
  match toks with
  | [] => (.null, [])
  | t :: rest =>
    if t == "n" then (.null, rest)
    else if t == "t" then (.bool true, rest)
    else if t == "f" then (.bool false, rest)
    else if t.startsWith "s" then (.str (unhexStr (t.drop 1).toString), rest)
    else if t.startsWith "#" then (.num (lexNum (unhexStr (t.drop 1).toString)), rest)
    else if t.startsWith "[" then
      let k := (t.drop 1).toString.toNat!
      let rec items (k : Nat) (toks : List String) (acc : List Json) : List Json × List String :=
        match k with
        | 0 => (acc.reverse, toks)
        | k + 1 => let (j, r) := readJ toks; items k r (j :: acc)
      let (xs, r) := items k rest []
      (.arr xs, r)
    else
      let k := (t.drop 1).toString.toNat!
      let rec members (k : Nat) (toks : List String) (acc : List (String × Json)) : List (String × Json) × List String :=
        match k with
        | 0 => (acc.reverse, toks)
        | k + 1 =>
          match toks with
          | key :: r =>
            let (j, r') := readJ r
            members k r' ((unhexStr (key.drop 1).toString, j) :: acc)
          | [] => (acc.reverse, [])
      let (ms, r) := members k rest []
      (.obj ms, r)

/-- `jeq <a> <b>`: one comparison -/
def runLine (line : String) : String :=
  let toks := (line.splitOn " ").filter (· ≠ "")
  let (a, rest) := readJ toks
  let (b, _) := readJ rest
  if jsonEqual a b then "true" else "false"

/-- `enum <k> <v1> … <vk>`: the duplicate scan of `parse1` -/
def enumLine (line : String) : String :=
  match (line.splitOn " ").filter (· ≠ "") with
  | [] => "bad"
  | k :: toks =>
    let rec go (k : Nat) (toks : List String) (acc : List Json) : List Json :=
      match k with
      | 0 => acc.reverse
      | k + 1 => let (j, r) := readJ toks; go k r (j :: acc)
    if EnumDup.scan jsonEqual (go k.toNat! toks []) then "dup" else "nodup"
end JEqDrv
