/-! Proof probe for C07: the reference cache of `resolveComponent` for one component kind whose resolved form carries
    context of the *referrer* (a header's name, a path item's path). Components are `$ref` chains ending in a payload.
    `fix = false` is the code as it stands (a cache hit returns the object built for the first referrer, D9);
    `fix = true` re-stamps the referrer's context on a hit (the planned repair). -/
namespace RefChain

inductive Err where
  | missing (k : Nat) | depth | cycle (k : Nat)
deriving Repr, DecidableEq

/-- a raw component: another reference, or a payload -/
abbrev Raw := Sum Nat Nat
/-- a resolved header: (name given by the referrer, payload) -/
abbrev Hdr := Nat × Nat
abbrev Cache := List (Nat × Hdr)

def lookup (c : Cache) (k : Nat) : Option Hdr := (c.find? (·.1 == k)).map (·.2)

/-- `resolveHeader(name, ref)`: cache, raw lookup, `AddKey` (depth, then in-progress), parse (which follows a nested
    `$ref` with the same name), store -/
def resolve (fix : Bool) (env : Nat → Option Raw) : Nat → List Nat → Cache → Nat → Nat → Except Err (Hdr × Cache)
  | d, seen, cache, name, k =>
    match lookup cache k with
    | some h => .ok (if fix then (name, h.2) else h, cache)
    | none =>
      match env k with
      | none => .error (.missing k)
      | some raw =>
        match d with
        | 0 => .error .depth
        | d + 1 =>
          if k ∈ seen then .error (.cycle k) else
          match raw with
          | .inr p => .ok ((name, p), (k, (name, p)) :: cache)
          | .inl k' =>
            match resolve fix env d (k :: seen) cache name k' with
            | .error e => .error e
            | .ok (h, cache') => .ok (h, (k, h) :: cache')

/-- what inlining gives: follow the references to the payload -/
inductive Reaches (env : Nat → Option Raw) : Nat → Nat → Prop
  | here {k p} : env k = some (.inr p) → Reaches env k p
  | step {k k' p} : env k = some (.inl k') → Reaches env k' p → Reaches env k p

theorem reaches_det {env k p p'} (h : Reaches env k p) (h' : Reaches env k p') : p = p' := by
  induction h with
  | here e =>
    cases h' with
    | here e' => rw [e] at e'; cases e'; rfl
    | step e' _ => rw [e] at e'; cases e'
  | step e _ ih =>
    cases h' with
    | here e' => rw [e] at e'; cases e'
    | step e' r' => rw [e] at e'; cases e'; exact ih r'

/-- every cached object holds the payload inlining gives -/
def Inv (env : Nat → Option Raw) (c : Cache) : Prop := ∀ k h, lookup c k = some h → Reaches env k h.2

theorem lookup_cons (c : Cache) (k k0 : Nat) (h0 : Hdr) :
    lookup ((k0, h0) :: c) k = if k0 = k then some h0 else lookup c k := by
  unfold lookup
  by_cases h : k0 = k
  · simp [h]
  · simp [h]

theorem inv_cons {env c k h} (hi : Inv env c) (hr : Reaches env k h.2) : Inv env ((k, h) :: c) := by
  intro k1 h1 hl
  rw [lookup_cons] at hl
  split at hl
  · rename_i e; cases hl; rw [← e]; exact hr
  · exact hi k1 h1 hl

/-- **soundness of the repaired cache**: whatever the cache already holds (whoever filled it, in whatever order),
    a successful resolution gives the referrer its own name and the payload inlining gives -/
theorem resolve_sound (env : Nat → Option Raw) : ∀ d seen cache name k h cache',
    Inv env cache → resolve true env d seen cache name k = .ok (h, cache') →
    h.1 = name ∧ Reaches env k h.2 ∧ Inv env cache' := by
  intro d
  induction d with
  | zero =>
    intro seen cache name k h cache' hi hr
    unfold resolve at hr
    cases hl : lookup cache k with
    | some h0 =>
      simp only [hl, if_true] at hr
      cases hr
      exact ⟨rfl, hi k h0 hl, hi⟩
    | none =>
      simp only [hl] at hr
      cases he : env k with
      | none => simp [he] at hr
      | some raw => simp [he] at hr
  | succ d ih =>
    intro seen cache name k h cache' hi hr
    unfold resolve at hr
    cases hl : lookup cache k with
    | some h0 =>
      simp only [hl, if_true] at hr
      cases hr
      exact ⟨rfl, hi k h0 hl, hi⟩
    | none =>
      simp only [hl] at hr
      cases he : env k with
      | none => simp [he] at hr
      | some raw =>
        simp only [he] at hr
        split at hr
        · cases hr
        · cases raw with
          | inr p =>
            simp only at hr
            cases hr
            exact ⟨rfl, Reaches.here he, inv_cons hi (Reaches.here he)⟩
          | inl k' =>
            simp only at hr
            cases hrec : resolve true env d (k :: seen) cache name k' with
            | error e => simp [hrec] at hr
            | ok r =>
              obtain ⟨h1, c1⟩ := r
              simp only [hrec] at hr
              cases hr
              obtain ⟨hn, hreach, hi1⟩ := ih (k :: seen) cache name k' h c1 hi hrec
              exact ⟨hn, Reaches.step he hreach, inv_cons hi1 (Reaches.step he hreach)⟩

#print axioms resolve_sound

/-- so: where inlining finds no payload (dangling reference, reference cycle) resolution reports an error — it is a
    total function, so it cannot loop -/
theorem no_payload_error (env : Nat → Option Raw) (d : Nat) (seen : List Nat) (name k : Nat)
    (hno : ∀ p, ¬ Reaches env k p) : ∃ e, resolve true env d seen [] name k = .error e := by
  cases hr : resolve true env d seen [] name k with
  | error e => exact ⟨e, rfl⟩
  | ok r =>
    obtain ⟨h, c⟩ := r
    have := resolve_sound env d seen [] name k h c (by intro k h hl; simp [lookup] at hl) hr
    exact absurd this.2.1 (hno h.2)

/-! ### completeness: an acyclic chain within the depth limit always resolves -/
inductive Path (env : Nat → Option Raw) : Nat → List Nat → Nat → Prop
  | here {k p} : env k = some (.inr p) → Path env k [k] p
  | step {k k' ks p} : env k = some (.inl k') → Path env k' ks p → Path env k (k :: ks) p

theorem path_reaches {env k ks p} (h : Path env k ks p) : Reaches env k p := by
  induction h with
  | here e => exact Reaches.here e
  | step e _ ih => exact Reaches.step e ih

theorem resolve_complete (env : Nat → Option Raw) {k ks p} (hp : Path env k ks p) :
    ks.Nodup → ∀ d seen cache name, ks.length ≤ d → (∀ x ∈ ks, x ∉ seen) → Inv env cache →
      ∃ cache', resolve true env d seen cache name k = .ok ((name, p), cache') ∧ Inv env cache' := by
  induction hp with
  | @here k p e =>
    intro _ d seen cache name hd hs hi
    unfold resolve
    cases hl : lookup cache k with
    | some h0 =>
      have : h0.2 = p := reaches_det (hi k h0 hl) (Reaches.here e)
      exact ⟨cache, by simp [this], hi⟩
    | none =>
      cases d with
      | zero => simp at hd
      | succ d =>
        have hk : k ∉ seen := hs k (by simp)
        simp only [e, hk, if_false]
        exact ⟨_, rfl, inv_cons hi (Reaches.here e)⟩
  | @step k k' ks p e hp' ih =>
    intro hnd d seen cache name hd hs hi
    have hreach : Reaches env k p := Reaches.step e (path_reaches hp')
    unfold resolve
    cases hl : lookup cache k with
    | some h0 =>
      have : h0.2 = p := reaches_det (hi k h0 hl) hreach
      exact ⟨cache, by simp [this], hi⟩
    | none =>
      cases d with
      | zero => simp at hd
      | succ d =>
        have hk : k ∉ seen := hs k (by simp)
        rw [List.nodup_cons] at hnd
        obtain ⟨c1, hrec, hi1⟩ := ih hnd.2 d (k :: seen) cache name (by simp at hd; omega)
          (by
            intro x hx hmem
            rcases List.mem_cons.mp hmem with rfl | hmem
            · exact hnd.1 hx
            · exact hs x (List.mem_cons_of_mem _ hx) hmem) hi
        simp only [e, hk, if_false, hrec]
        exact ⟨_, rfl, inv_cons hi1 hreach⟩

#print axioms resolve_complete

/-! ### a whole list of referrers: the result does not depend on who came first -/
def resolveAll (fix : Bool) (env : Nat → Option Raw) (d : Nat) : Cache → List (Nat × Nat) → Except Err (List Hdr)
  | _, [] => .ok []
  | cache, (name, k) :: rest =>
    match resolve fix env d [] cache name k with
    | .error e => .error e
    | .ok (h, cache') =>
      match resolveAll fix env d cache' rest with
      | .error e => .error e
      | .ok hs => .ok (h :: hs)

/-- pointwise: own name, target's payload -/
def Transparent (env : Nat → Option Raw) : List (Nat × Nat) → List Hdr → Prop
  | [], [] => True
  | r :: rs, h :: hs => (h.1 = r.1 ∧ Reaches env r.2 h.2) ∧ Transparent env rs hs
  | _, _ => False

/-- **`$ref` transparency for the repaired cache**: every referrer gets its own name and the payload of its target,
    so the outcome is the referrer list mapped through inlining — in particular independent of the visiting order -/
theorem resolveAll_transparent (env : Nat → Option Raw) (d : Nat) : ∀ (refs : List (Nat × Nat)) (cache : Cache) (out : List Hdr),
    Inv env cache → resolveAll true env d cache refs = .ok out →
    Transparent env refs out := by
  intro refs
  induction refs with
  | nil => intro cache out _ h; simp [resolveAll] at h; subst h; trivial
  | cons r rest ih =>
    intro cache out hi h
    obtain ⟨name, k⟩ := r
    simp only [resolveAll] at h
    cases h1 : resolve true env d [] cache name k with
    | error e => simp [h1] at h
    | ok r1 =>
      obtain ⟨hd, c1⟩ := r1
      simp only [h1] at h
      cases h2 : resolveAll true env d c1 rest with
      | error e => simp [h2] at h
      | ok hs =>
        simp only [h2] at h
        cases h
        obtain ⟨hn, hr, hi1⟩ := resolve_sound env d [] cache name k hd c1 hi h1
        exact ⟨⟨hn, hr⟩, ih c1 hs hi1 h2⟩

#print axioms resolveAll_transparent

/-! ### D9 on the code as it stands: two referrers, one component -/
def envD9 : Nat → Option Raw := fun k => if k = 7 then some (.inr 42) else none
/-- referrers `X-First` (1) and `X-Second` (2) of component 7, resolved one after the other -/
def twoReferrers (fix : Bool) : Except Err (Hdr × Hdr) :=
  match resolve fix envD9 10 [] [] 1 7 with
  | .error e => .error e
  | .ok (h1, c) =>
    match resolve fix envD9 10 [] c 2 7 with
    | .error e => .error e
    | .ok (h2, _) => .ok (h1, h2)

/-- unchanged code: the second referrer receives the header named after the first -/
theorem d9_witness : twoReferrers false = .ok ((1, 42), (1, 42)) := by rfl
/-- repaired: each referrer keeps its own name -/
theorem d9_repaired : twoReferrers true = .ok ((1, 42), (2, 42)) := by rfl
/-- a reference cycle 3 → 4 → 3 is reported, with the re-entered key -/
example : resolve true (fun k => if k = 3 then some (.inl 4) else if k = 4 then some (.inl 3) else none) 10 [] [] 1 3
    = .error (.cycle 3) := by rfl
example : resolve true (fun k => some (.inl (k + 1))) 5 [] [] 1 0 = .error .depth := by rfl
/-! line protocol: `refs <depth> <env: k=r<k'> | k=p<payload>, …> <referrers: name:k, …>` — the repaired resolver
    threaded over the referrers in the given order, each with a fresh depth counter and in-progress set -/
def parseEnv (s : String) : Nat → Option Raw :=
  let entries := if s == "-" then [] else (s.splitOn ",").filterMap fun e =>
    match e.splitOn "=" with
    | [k, v] => if v.startsWith "r" then some (k.toNat!, (Sum.inl (v.drop 1).toString.toNat! : Raw))
                else some (k.toNat!, (Sum.inr (v.drop 1).toString.toNat! : Raw))
    | _ => none
  fun k => (entries.find? (·.1 == k)).map (·.2)
def showErr : Err → String
  | .missing _ => "err:missing" | .depth => "err:depth" | .cycle _ => "err:cycle"
def refsLine (line : String) : String :=
  match (line.splitOn " ").filter (· ≠ "") with
  | [d, env, refs] =>
    let rs := (refs.splitOn ",").filterMap fun e => match e.splitOn ":" with | [n, k] => some (n.toNat!, k.toNat!) | _ => none
    match resolveAll true (parseEnv env) d.toNat! [] rs with
    | .error e => showErr e
    | .ok hs => "ok " ++ ",".intercalate (hs.map fun h => s!"{h.1}:{h.2}")
  | _ => "bad"
end RefChain
