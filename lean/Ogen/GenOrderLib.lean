/-!
# Executable model of the order-sensitive logic of `gen.WriteSource` (C10) — core-only

What the generator does that could make its output depend on something other than the document:

* it **ranges over Go maps** (`TemplateConfig.Types`, `Interfaces`, the type store …); Go yields the entries in an
  order that is re-randomised at every `range` statement.  Wherever a map feeds output the code goes through
  `xmaps.SortedKeys` (`gen/write.go collectStrings`, `gen/generator.go`, `gen/gen_responses.go`,
  `gen/schema_gen_sum.go`).  `sortedKeys` below is `xmaps.SortedKeys` applied to the set a loop filled in the
  order `l`; `collect` is `collectStrings`: a depth-first walk with a `seen` set over the type graph, started from
  the roots *in whatever order the map yields them*, the strings found put in a set, the set's sorted keys returned;
* it **renders the templates in parallel** (`errgroup`, limit `GOMAXPROCS`), each task writing one file through
  `FileSystem.WriteFile`: `runWrites` applies the writes in the order the tasks happen to finish;
* it **re-uses buffers** through a `sync.Pool` (`getBuffer` resets what it gets): `generate`.

`writeSource` composes the three: a `World` is everything the Go runtime chooses (map order, schedule, pool
content, which pooled buffer a task gets).  The theorems of `Ogen/GenOrder_proof.lean` say the result does not
depend on the world.
-/
namespace GenOrder

abbrev Key := List UInt8

/-- bytewise lexicographic `<` — Go's `<` on strings -/
def klt : Key → Key → Bool
  | [], [] => false
  | [], _ :: _ => true
  | _ :: _, [] => false
  | a :: as, b :: bs => if a < b then true else if b < a then false else klt as bs

/-- insertion into a strictly sorted list; an equal key is already there -/
def insertKey (k : Key) : List Key → List Key
  | [] => [k]
  | x :: xs => if klt k x then k :: x :: xs else if k = x then x :: xs else x :: insertKey k xs

/-- `xmaps.SortedKeys(m)` where `m` is a set that received the keys `l` (in any order, with repetitions) -/
def sortedKeys (l : List Key) : List Key := l.foldr insertKey []

/-- one `*ir.Type`: the strings the callback reports for it, and the types it refers to
    (fields, sum members, alias / pointer / generic targets, item) as node numbers; a number that is not a
    node stands for `nil` -/
structure Node where
  strs : List Key
  kids : List Nat

structure Graph where
  nodes : Array Node

def Graph.size (g : Graph) : Nat := g.nodes.size
def Graph.kids (g : Graph) (n : Nat) : List Nat := match g.nodes[n]? with | some x => x.kids | none => []
def Graph.strs (g : Graph) (n : Nat) : List Key := match g.nodes[n]? with | some x => x.strs | none => []

theorem filter_length_le {α} (p q : α → Bool) (hpq : ∀ x, q x = true → p x = true) (l : List α) :
    (l.filter q).length ≤ (l.filter p).length := by
  induction l with
  | nil => simp
  | cons a l ih =>
    simp only [List.filter_cons]
    cases hq : q a
    · cases hp : p a <;> simp <;> omega
    · simp [hpq a hq]; omega

theorem filter_length_lt {α} (p q : α → Bool) (hpq : ∀ x, q x = true → p x = true) (l : List α) (n : α)
    (hn : n ∈ l) (hp : p n = true) (hq : q n = false) : (l.filter q).length < (l.filter p).length := by
  induction l with
  | nil => cases hn
  | cons a l ih =>
    simp only [List.filter_cons]
    cases hn with
    | head =>
      have := filter_length_le p q hpq l
      simp [hp, hq]; omega
    | tail _ h =>
      have := ih h
      cases hqa : q a
      · cases hpa : p a <;> simp <;> omega
      · simp [hpq a hqa]; omega

/-- how many nodes are not yet in `seen` (termination measure of the walk) -/
def unseen (g : Graph) (seen : List Nat) : Nat :=
  ((List.range g.size).filter (fun i => decide (¬ i ∈ seen))).length

theorem unseen_lt (g : Graph) (seen : List Nat) (n : Nat) (hn : n < g.size) (hs : ¬ n ∈ seen) :
    unseen g (n :: seen) < unseen g seen := by
  unfold unseen
  apply filter_length_lt _ _ _ _ n (List.mem_range.mpr hn)
  · simpa using hs
  · simp
  · intro x hx
    simp at hx ⊢
    exact hx.2

/-- the walk of `collectStrings`: `add` on every pending type; `nil` and types already seen are skipped, a new
    type is marked and its references are walked first (depth-first, as the recursive closure does) -/
def visit (g : Graph) : List Nat → List Nat → List Nat
  | [], seen => seen
  | n :: w, seen =>
    if h : n < g.size ∧ ¬ n ∈ seen then visit g (g.kids n ++ w) (n :: seen)
    else visit g w seen
termination_by w seen => (unseen g seen, w.length)
decreasing_by
  · exact Prod.Lex.left _ _ (unseen_lt g seen n h.1 h.2)
  · exact Prod.Lex.right _ (by simp)

/-- `collectStrings(cb)` with the roots handed over in the order `roots` -/
def collect (g : Graph) (roots : List Nat) : List Key :=
  sortedKeys ((visit g roots []).flatMap g.strs)

/-! ### parallel writers -/

/-- a file system: the latest write of a name is the one that counts -/
abbrev FS := List (Key × Key)

def lookup (fs : FS) (name : Key) : Option Key :=
  match fs with
  | [] => none
  | (n, c) :: rest => if n = name then some c else lookup rest name

/-- `WriteFile` -/
def write (fs : FS) (f : Key × Key) : FS := f :: fs

/-- the writes applied in the order the tasks finish -/
def runWrites (ws : List (Key × Key)) : FS := ws.foldl write []

/-- canonical listing of a file system whose writes were `ws` (name `=` content, sorted) -/
def listing (fs : FS) (names : List Key) : List Key :=
  sortedKeys (names.filterMap (fun n => (lookup fs n).map (fun c => n ++ [61] ++ c)))

/-! ### buffer pool -/

/-- `getBuffer`: whatever the pool hands out (`pick`-th left-over buffer, or a fresh one) is reset -/
def getBuffer (pool : List Key) (pick : Nat) : Key :=
  let b := (pool[pick]?).getD []
  b.take 0

/-- `writer.Generate`: render into the buffer that `getBuffer` returned -/
def generate (render : α → Key) (pool : List Key) (pick : Nat) (cfg : α) : Key :=
  getBuffer pool pick ++ render cfg

/-! ### composition -/

/-- everything the runtime chooses -/
structure World where
  rootOrder : List Nat      -- order in which the type maps are ranged over in this run
  sched : List Nat          -- the order in which the template tasks finish (indices into the task list)
  pool : List Key           -- buffers left by earlier generations in this process
  pick : Nat → Nat          -- which pooled buffer task i gets

/-- a template: its file name and what it renders from the sorted string table -/
structure Tmpl where
  file : Key
  render : List Key → Key

def writeSource (g : Graph) (ts : Array Tmpl) (w : World) : FS :=
  runWrites (w.sched.filterMap (fun i => (ts[i]?).map (fun t =>
    (t.file, generate t.render w.pool (w.pick i) (collect g w.rootOrder)))))

end GenOrder
