import Ogen.RouterBuildNoJunk_proof
import Ogen.RouterLookupComplete_proof
/-! Proof probe for C05, construction half of completeness: `insert` keeps heads distinct and keeps every
    route present; the new route is present afterwards. -/
namespace Tree

/-! ### heads stay pairwise distinct -/
def DistinctHere (n : Node) : Prop := n.children.Pairwise (fun a b => a.head ≠ b.head)

inductive Distinct : Node → Prop
  | mk {p h pn cs rs} : cs.Pairwise (fun a b => a.head ≠ b.head) → (∀ c ∈ cs, Distinct c) → Distinct (.mk p h pn cs rs)

theorem Distinct.here {n : Node} (h : Distinct n) : n.children.Pairwise (fun a b => a.head ≠ b.head) := by
  cases h with | mk h1 _ => exact h1
theorem Distinct.kids {n : Node} (h : Distinct n) : ∀ c ∈ n.children, Distinct c := by
  cases h with | mk _ h2 => exact h2

theorem pairwise_perm {l l' : List Node} (hp : l.Perm l') (h : l.Pairwise (fun a b => a.head ≠ b.head)) :
    l'.Pairwise (fun a b => a.head ≠ b.head) :=
  hp.pairwise h (fun {a b} hab => fun heq => hab heq.symm)

theorem pairwise_sort {l : List Node} (h : l.Pairwise (fun a b => a.head ≠ b.head)) :
    (sortChildren l).Pairwise (fun a b => a.head ≠ b.head) :=
  pairwise_perm (List.mergeSort_perm l _).symm h

theorem pairwise_replace {cs : List Node} {hd : UInt8} {c' : Node} (h : cs.Pairwise (fun a b => a.head ≠ b.head))
    (hc' : c'.head = hd) : (replaceFirst cs hd c').Pairwise (fun a b => a.head ≠ b.head) := by
  induction cs with
  | nil => simp [replaceFirst]
  | cons d ds ih =>
    rw [List.pairwise_cons] at h
    simp only [replaceFirst]
    split
    · rename_i hdh
      rw [List.pairwise_cons]
      exact ⟨fun x hx => by rw [hc', ← hdh]; exact h.1 x hx, h.2⟩
    · rename_i hdh
      rw [List.pairwise_cons]
      refine ⟨?_, ih h.2⟩
      intro x hx
      rcases mem_replaceFirst hx with rfl | hm
      · rw [hc']; exact hdh
      · exact h.1 x hm

theorem mkChain_head {fuel path selfPfx selfParam m ch} (h : mkChain fuel path selfPfx selfParam m = .ok ch) :
    ch.head = path.headD 0 := by
  cases fuel with
  | zero => simp [mkChain] at h
  | succ fuel =>
    unfold mkChain at h
    split at h
    · cases h
    · cases h; rfl
    · simp only at h
      split at h
      · split at h
        · cases h; rfl
        · obtain ⟨_, _, hf⟩ := bind_ok h
          cases hf; rfl
      · obtain ⟨_, _, hf⟩ := bind_ok h
        cases hf; rfl

theorem find_none_head {cs : List Node} {hd : UInt8} (h : cs.find? (fun c => c.head = hd) = none) :
    ∀ c ∈ cs, c.head ≠ hd := by
  intro c hc heq
  have := List.find?_eq_none.mp h c hc
  simp [heq] at this

/-- chains built by `addChild` have a single child per node -/
theorem mkChain_distinct (fuel : Nat) : ∀ (path selfPfx : Bytes) (selfParam : Option Bytes) (m : Route) (ch : Node),
    mkChain fuel path selfPfx selfParam m = .ok ch → Distinct ch := by
  induction fuel with
  | zero => intro _ _ _ _ _ h; simp [mkChain] at h
  | succ fuel ih =>
    intro path selfPfx selfParam m ch h
    unfold mkChain at h
    split at h
    · cases h
    · cases h; exact Distinct.mk (by simp) (by simp)
    · simp only at h
      split at h
      · split at h
        · cases h; exact Distinct.mk (by simp) (by simp)
        · obtain ⟨child, hc, hf⟩ := bind_ok h
          cases hf
          exact Distinct.mk (by simp) (by
            intro c hc'; simp only [List.mem_singleton] at hc'; subst hc'; exact ih _ _ _ _ _ hc)
      · obtain ⟨child, hc, hf⟩ := bind_ok h
        cases hf
        exact Distinct.mk (by simp) (by
          intro c hc'; simp only [List.mem_singleton] at hc'; subst hc'; exact ih _ _ _ _ _ hc)

theorem lcp_mismatch (p q : Bytes) (h1 : lcp p q < p.length) (h2 : lcp p q < q.length) :
    (p.drop (lcp p q)).headD 0 ≠ (q.drop (lcp p q)).headD 0 := by
  induction p generalizing q with
  | nil => simp at h1
  | cons a as ih =>
    cases q with
    | nil => simp at h2
    | cons b bs =>
      simp only [lcp] at h1 h2 ⊢
      split
      · rename_i hab
        simp only [hab, if_true] at h1 h2
        have h1' : lcp as bs < as.length := by simp at h1; omega
        have h2' : lcp as bs < bs.length := by simp at h2; omega
        have := ih bs h1' h2'
        rw [Nat.add_comm]
        simpa [List.drop_succ_cons] using this
      · rename_i hab
        simpa using hab


theorem distinct_replace {p h pn cs rs hd c'} (hd' : Distinct (.mk p h pn cs rs)) (h1 : c'.head = hd) (h2 : Distinct c') :
    Distinct (.mk p h pn (replaceFirst cs hd c') rs) := by
  refine Distinct.mk (pairwise_replace hd'.here h1) ?_
  intro c hc
  rcases mem_replaceFirst hc with rfl | hmem
  · exact h2
  · exact hd'.kids c hmem

theorem insert_distinct (fuel : Nat) : ∀ (n : Node) (path : Bytes) (m : Route) (n' : Node) (sp : List Sym),
    WF n → Distinct n → Syms path sp → insert fuel n path m = .ok n' → Distinct n' := by
  induction fuel with
  | zero => intro _ _ _ _ _ _ _ _ h; simp [insert] at h
  | succ fuel ih =>
    intro n path m n' sp hwf hdis hs h
    cases n with
    | mk p hd0 pn cs rs =>
    have hch := hwf.children
    unfold insert at h
    simp only at h
    by_cases hpe : path.isEmpty = true
    · simp only [hpe, if_true] at h
      obtain ⟨rs', _, hf⟩ := bind_ok h
      cases hf
      exact Distinct.mk hdis.here hdis.kids
    · simp only [hpe, Bool.false_eq_true, if_false] at h
      have hpne : path ≠ [] := by intro h'; apply hpe; simp [h']
      split at h
      · cases h
      · split at h
        · rename_i hfind
          obtain ⟨ch, hchn, hf⟩ := bind_ok h
          cases hf
          have hhead := mkChain_head hchn
          have hnone := find_none_head hfind
          refine Distinct.mk (pairwise_sort ?_) ?_
          · rw [List.pairwise_append]
            refine ⟨hdis.here, by simp, ?_⟩
            intro a ha b hb
            simp only [List.mem_singleton] at hb
            subst hb
            rw [hhead]
            exact hnone a ha
          · intro c hc
            rcases List.mem_append.mp (mem_sortChildren.mp hc) with hmem | hmem
            · exact hdis.kids c hmem
            · simp only [List.mem_singleton] at hmem; subst hmem
              exact mkChain_distinct _ _ _ _ _ _ hchn
        · rename_i c hfind
          have hcmem : c ∈ cs := List.mem_of_find?_eq_some hfind
          have hchead : c.head = path.headD 0 := by
            have := List.find?_some hfind
            simpa using this
          have hcwf := hch c hcmem
          have hcdis := hdis.kids c hcmem
          split at h
          · rename_i hcp
            obtain ⟨c', hc', hf⟩ := bind_ok h
            cases hf
            have hh : path.head? = some 0x7b := by
              rw [path_head_of_ne hpne, ← hchead, hcwf.1.1 hcp]
            obtain ⟨name, rest, t, hpath, hn, hrest, hspt⟩ := syms_param_head hs hh
            subst hpath
            have hnpp := npp_param (a := []) (rest := rest) (by intro c hc; cases hc) hn
            simp only [List.nil_append, List.length_nil, Nat.zero_add] at hnpp
            rw [hnpp] at hc'
            simp only at hc'
            have hdrop : List.drop (name.length + 2) (0x7b :: (name ++ 0x7d :: rest)) = rest := by
              have : name.length + 2 = (0x7b :: (name ++ [0x7d])).length := by simp
              rw [this]
              have h' : (0x7b : UInt8) :: (name ++ 0x7d :: rest) = (0x7b :: (name ++ [0x7d])) ++ rest := by simp
              rw [h', List.drop_left]
            rw [hdrop] at hc'
            have hf' := insert_fields hc'
            exact distinct_replace hdis (by rw [hf'.2.1, hchead]) (ih c rest m c' t hcwf.2 hcdis hrest hc')
          · rename_i hcp
            have hcs : c.isParam = false := by simpa using hcp
            obtain ⟨hpfx_ne, hpfx_head, hpfx_nb⟩ := hcwf.1.2 hcs
            split at h
            · rename_i hfull
              obtain ⟨c', hc', hf⟩ := bind_ok h
              cases hf
              have hpath := lcp_full hfull
              obtain ⟨t', hst', _⟩ := syms_strip' hs hpath hpfx_nb
              rw [hfull] at hc'
              have hf' := insert_fields hc'
              exact distinct_replace hdis (by rw [hf'.2.1, hchead]) (ih c _ m c' t' hcwf.2 hcdis hst' hc')
            · rename_i hnotfull
              have hcp_lt : lcp path c.pfx < c.pfx.length := by
                have := lcp_le_right path c.pfx
                omega
              have hpn : c.paramName = none := by
                simp [Node.isParam] at hcs; exact hcs
              rw [hpn] at h
              have hold_dis : Distinct (Node.mk (c.pfx.drop (lcp path c.pfx)) ((c.pfx.drop (lcp path c.pfx)).headD 0) none c.children c.routes) :=
                Distinct.mk hcdis.here hcdis.kids
              split at h
              · cases h
                refine distinct_replace hdis rfl (Distinct.mk (by simp) ?_)
                intro d hd; simp only [List.mem_singleton] at hd; subst hd; exact hold_dis
              · rename_i hrest
                obtain ⟨ch, hchn, hf⟩ := bind_ok h
                cases hf
                have hrne : path.drop (lcp path c.pfx) ≠ [] := by intro h'; apply hrest; simp [h']
                have hcp_ltp : lcp path c.pfx < path.length := by
                  have hl : (path.drop (lcp path c.pfx)).length ≠ 0 := by
                    intro h0; exact hrne (List.eq_nil_of_length_eq_zero h0)
                  simp at hl; omega
                have hmis := lcp_mismatch path c.pfx hcp_ltp hcp_lt
                refine distinct_replace hdis rfl (Distinct.mk (pairwise_sort ?_) ?_)
                · rw [List.pairwise_cons]
                  refine ⟨?_, by simp⟩
                  intro x hx
                  simp only [List.mem_singleton] at hx
                  subst hx
                  rw [mkChain_head hchn]
                  exact fun heq => hmis heq.symm
                · intro d hd
                  rcases List.mem_cons.mp (mem_sortChildren.mp hd) with rfl | hd'
                  · exact hold_dis
                  · simp only [List.mem_singleton] at hd'; subst hd'
                    exact mkChain_distinct _ _ _ _ _ _ hchn

#print axioms insert_distinct

/-! ### presence -/
inductive Present : Node → List Sym → Route → Prop
  | here {n r} : r ∈ n.routes → Present n [] r
  | static {n c sp r} : c ∈ n.children → c.isParam = false → Present c sp r → Present n (c.pfx.map some ++ sp) r
  | param {n c sp r} : c ∈ n.children → c.isParam = true → Present c sp r → Present n (none :: sp) r

/-- presence seen from the parent: which symbols the child itself contributes -/
def PresentVia (c : Node) (sp : List Sym) (r : Route) : Prop :=
  (c.isParam = false ∧ ∃ sp', sp = c.pfx.map some ++ sp' ∧ Present c sp' r) ∨
  (c.isParam = true ∧ ∃ sp', sp = none :: sp' ∧ Present c sp' r)

theorem present_of_via {n c : Node} {sp r} (hc : c ∈ n.children) (h : PresentVia c sp r) : Present n sp r := by
  rcases h with ⟨hs, sp', rfl, hp⟩ | ⟨hp', sp', rfl, hp⟩
  · exact Present.static hc hs hp
  · exact Present.param hc hp' hp

theorem via_of_present {n : Node} {sp r} (h : Present n sp r) :
    (sp = [] ∧ r ∈ n.routes) ∨ ∃ c ∈ n.children, PresentVia c sp r := by
  cases h with
  | here hr => exact Or.inl ⟨rfl, hr⟩
  | static hc hs hp => exact Or.inr ⟨_, hc, Or.inl ⟨hs, _, rfl, hp⟩⟩
  | param hc hp' hp => exact Or.inr ⟨_, hc, Or.inr ⟨hp', _, rfl, hp⟩⟩

theorem present_mk {p h pn cs rs sp r} (hr : (sp = [] ∧ r ∈ rs) ∨ ∃ c ∈ cs, PresentVia c sp r) :
    Present (.mk p h pn cs rs) sp r := by
  rcases hr with ⟨rfl, hr⟩ | ⟨c, hc, hv⟩
  · exact Present.here hr
  · exact present_of_via hc hv

/-- presence below a node only depends on its children and routes -/
theorem present_congr {p p' : Bytes} {h h' : UInt8} {pn pn' : Option Bytes} {cs rs sp r}
    (hp : Present (.mk p h pn cs rs) sp r) : Present (.mk p' h' pn' cs rs) sp r :=
  present_mk (via_of_present hp)

theorem mem_addMethod_old {rs m rs'} (h : addMethod rs m = .ok rs') {r} (hr : r ∈ rs) : r ∈ rs' := by
  unfold addMethod at h
  split at h
  · cases h
  · cases h
    exact (List.mergeSort_perm (rs ++ [m]) _).mem_iff.mpr (List.mem_append_left _ hr)

theorem mem_addMethod_new {rs m rs'} (h : addMethod rs m = .ok rs') : m ∈ rs' := by
  unfold addMethod at h
  split at h
  · cases h
  · cases h
    exact (List.mergeSort_perm (rs ++ [m]) _).mem_iff.mpr (by simp)

theorem mem_replaceFirst_new {cs : List Node} {hd : UInt8} {c' : Node} (h : ∃ c ∈ cs, c.head = hd) :
    c' ∈ replaceFirst cs hd c' := by
  induction cs with
  | nil => obtain ⟨c, hc, _⟩ := h; cases hc
  | cons d ds ih =>
    simp only [replaceFirst]
    split
    · exact List.mem_cons_self ..
    · rename_i hdh
      obtain ⟨c, hc, hch⟩ := h
      rcases List.mem_cons.mp hc with rfl | hm
      · exact absurd hch hdh
      · exact List.mem_cons_of_mem _ (ih ⟨c, hm, hch⟩)

theorem mem_replaceFirst_ne {cs : List Node} {hd : UInt8} {c' d : Node} (hd' : d ∈ cs) (hne : d.head ≠ hd) :
    d ∈ replaceFirst cs hd c' := by
  induction cs with
  | nil => cases hd'
  | cons e es ih =>
    simp only [replaceFirst]
    split
    · rename_i heh
      rcases List.mem_cons.mp hd' with rfl | hm
      · exact absurd heh hne
      · exact List.mem_cons_of_mem _ hm
    · rcases List.mem_cons.mp hd' with rfl | hm
      · exact List.mem_cons_self ..
      · exact List.mem_cons_of_mem _ (ih hm)

theorem eq_of_head_eq {cs : List Node} {c d : Node} (hp : cs.Pairwise (fun a b => a.head ≠ b.head))
    (hc : c ∈ cs) (hd : d ∈ cs) (h : c.head = d.head) : c = d := by
  induction cs with
  | nil => cases hc
  | cons e es ih =>
    rw [List.pairwise_cons] at hp
    rcases List.mem_cons.mp hc with rfl | hc'
    · rcases List.mem_cons.mp hd with rfl | hd'
      · rfl
      · exact absurd h (hp.1 d hd')
    · rcases List.mem_cons.mp hd with rfl | hd'
      · exact absurd h.symm (hp.1 c hc')
      · exact ih hp.2 hc' hd'

/-- the chain `addChild` builds for a new route carries that route -/
theorem mkChain_present (fuel : Nat) : ∀ (path selfPfx : Bytes) (selfParam : Option Bytes) (m : Route) (ch : Node)
    (sp : List Sym), Syms path sp → (selfParam = none → selfPfx = path) →
    (selfParam.isSome = true → path.head? = some 0x7b) →
    mkChain fuel path selfPfx selfParam m = .ok ch → PresentVia ch sp m := by
  induction fuel with
  | zero => intro _ _ _ _ _ _ _ _ _ h; simp [mkChain] at h
  | succ fuel ih =>
    intro path selfPfx selfParam m ch sp hs h1 h2 h
    unfold mkChain at h
    cases hs with
    | @static a ha =>
      rw [npp_static ha] at h
      simp only at h
      cases h
      cases hsp : selfParam with
      | none =>
        have := h1 hsp
        subst this
        left
        refine ⟨by simp [Node.isParam, Node.paramName], [], by simp [Node.pfx], Present.here (by simp [Node.routes])⟩
      | some nm =>
        have hh := h2 (by simp [hsp])
        by_cases hne : path = []
        · simp [hne] at hh
        · exact absurd hh (noBrace_head_ne ha hne)
    | @param a name rest t ha hn hrest =>
      rw [npp_param ha hn] at h
      simp only at h
      by_cases ha0 : a.length = 0
      · have ha' : a = [] := List.eq_nil_of_length_eq_zero ha0
        subst ha'
        simp only [List.length_nil, Nat.zero_add, List.nil_append, if_true] at h
        have hdrop : List.drop (name.length + 2) (0x7b :: (name ++ 0x7d :: rest)) = rest := by
          have : name.length + 2 = (0x7b :: (name ++ [0x7d])).length := by simp
          rw [this]
          have h' : (0x7b : UInt8) :: (name ++ 0x7d :: rest) = (0x7b :: (name ++ [0x7d])) ++ rest := by simp
          rw [h', List.drop_left]
        rw [hdrop] at h
        by_cases hr0 : rest.isEmpty = true
        · simp only [hr0, if_true] at h
          cases h
          have : rest = [] := by simpa using hr0
          subst this
          have ht := syms_nil hrest
          subst ht
          right
          exact ⟨by simp [Node.isParam, Node.paramName], [], by simp, Present.here (by simp [Node.routes])⟩
        · simp only [hr0, Bool.false_eq_true, if_false] at h
          obtain ⟨child, hc, hf⟩ := bind_ok h
          cases hf
          have ihc := ih rest rest none m child t hrest (fun _ => rfl) (by simp) hc
          right
          refine ⟨by simp [Node.isParam, Node.paramName], t, by simp, ?_⟩
          exact present_of_via (by simp [Node.children]) ihc
      · simp only [ha0, if_false] at h
        have hdrop : List.drop a.length (a ++ 0x7b :: (name ++ 0x7d :: rest)) = 0x7b :: (name ++ 0x7d :: rest) := List.drop_left
        have htake : List.take a.length (a ++ 0x7b :: (name ++ 0x7d :: rest)) = a := List.take_left
        rw [hdrop, htake] at h
        obtain ⟨child, hc, hf⟩ := bind_ok h
        cases hf
        have hs' : Syms (0x7b :: (name ++ 0x7d :: rest)) (none :: t) := by
          have := Syms.param (a := []) (by intro c hc; cases hc) hn hrest
          simpa using this
        have ihc := ih _ [] _ m child (none :: t) hs' (by intro h; cases h) (by simp) hc
        have hane : a ≠ [] := by intro h; apply ha0; simp [h]
        have hsn : selfParam = none := by
          cases hsp : selfParam with
          | none => rfl
          | some nm =>
            have hh := h2 (by simp [hsp])
            have : (a ++ 0x7b :: (name ++ 0x7d :: rest)).head? = a.head? := by
              cases a with
              | nil => exact absurd rfl hane
              | cons c cs => simp
            rw [this] at hh
            exact absurd hh (noBrace_head_ne ha hane)
        subst hsn
        left
        refine ⟨by simp [Node.isParam, Node.paramName], none :: t, by simp [Node.pfx], ?_⟩
        exact present_of_via (by simp [Node.children]) ihc

#print axioms mkChain_present

/-- after a successful insertion the new route is present under its own template -/
theorem insert_present_new (fuel : Nat) : ∀ (n : Node) (path : Bytes) (m : Route) (n' : Node) (sp : List Sym),
    WF n → Syms path sp → insert fuel n path m = .ok n' → Present n' sp m := by
  induction fuel with
  | zero => intro _ _ _ _ _ _ _ h; simp [insert] at h
  | succ fuel ih =>
    intro n path m n' sp hwf hs h
    cases n with
    | mk p hd0 pn cs rs =>
    have hch := hwf.children
    unfold insert at h
    simp only at h
    by_cases hpe : path.isEmpty = true
    · simp only [hpe, if_true] at h
      obtain ⟨rs', hrs', hf⟩ := bind_ok h
      cases hf
      have hp : path = [] := by simpa using hpe
      subst hp
      have hsp := syms_nil hs
      subst hsp
      exact Present.here (mem_addMethod_new hrs')
    · simp only [hpe, Bool.false_eq_true, if_false] at h
      have hpne : path ≠ [] := by intro h'; apply hpe; simp [h']
      split at h
      · cases h
      · split at h
        · obtain ⟨ch, hchn, hf⟩ := bind_ok h
          cases hf
          have hv := mkChain_present _ path path none m ch sp hs (fun _ => rfl) (by simp) hchn
          exact present_of_via (mem_sortChildren.mpr (by simp)) hv
        · rename_i c hfind
          have hcmem : c ∈ cs := List.mem_of_find?_eq_some hfind
          have hchead : c.head = path.headD 0 := by
            have := List.find?_some hfind
            simpa using this
          have hcwf := hch c hcmem
          have hex : ∃ d ∈ cs, d.head = path.headD 0 := ⟨c, hcmem, hchead⟩
          split at h
          · rename_i hcp
            obtain ⟨c', hc', hf⟩ := bind_ok h
            cases hf
            have hh : path.head? = some 0x7b := by
              rw [path_head_of_ne hpne, ← hchead, hcwf.1.1 hcp]
            obtain ⟨name, rest, t, hpath, hn, hrest, hspt⟩ := syms_param_head hs hh
            subst hpath; subst hspt
            have hnpp := npp_param (a := []) (rest := rest) (by intro c hc; cases hc) hn
            simp only [List.nil_append, List.length_nil, Nat.zero_add] at hnpp
            rw [hnpp] at hc'
            simp only at hc'
            have hdrop : List.drop (name.length + 2) (0x7b :: (name ++ 0x7d :: rest)) = rest := by
              have : name.length + 2 = (0x7b :: (name ++ [0x7d])).length := by simp
              rw [this]
              have h' : (0x7b : UInt8) :: (name ++ 0x7d :: rest) = (0x7b :: (name ++ [0x7d])) ++ rest := by simp
              rw [h', List.drop_left]
            rw [hdrop] at hc'
            have hf' := insert_fields hc'
            have hp' : c'.isParam = true := by
              unfold Node.isParam at hcp ⊢; rw [hf'.2.2]; exact hcp
            exact Present.param (mem_replaceFirst_new hex) hp' (ih c rest m c' t hcwf.2 hrest hc')
          · rename_i hcp
            have hcs : c.isParam = false := by simpa using hcp
            obtain ⟨hpfx_ne, hpfx_head, hpfx_nb⟩ := hcwf.1.2 hcs
            split at h
            · rename_i hfull
              obtain ⟨c', hc', hf⟩ := bind_ok h
              cases hf
              have hpath := lcp_full hfull
              obtain ⟨t', hst', hspt⟩ := syms_strip' hs hpath hpfx_nb
              rw [hfull] at hc'
              have hf' := insert_fields hc'
              have hs' : c'.isParam = false := by
                unfold Node.isParam at hcs ⊢; rw [hf'.2.2]; exact hcs
              have := Present.static (n := Node.mk p hd0 pn (replaceFirst cs (path.headD 0) c') rs)
                (mem_replaceFirst_new (c' := c') hex) hs' (ih c _ m c' t' hcwf.2 hst' hc')
              rw [hf'.1] at this
              rw [hspt]; exact this
            · rename_i hnotfull
              have htake : path.take (lcp path c.pfx) = c.pfx.take (lcp path c.pfx) := lcp_take _ _
              have hnb_take : noBrace (path.take (lcp path c.pfx)) := by
                rw [htake]
                intro x hx
                exact hpfx_nb x (List.mem_of_mem_take hx)
              have hpath : path = path.take (lcp path c.pfx) ++ path.drop (lcp path c.pfx) := (List.take_append_drop _ _).symm
              obtain ⟨t', hst', hspt⟩ := syms_strip' hs hpath hnb_take
              split at h
              · rename_i hrest
                cases h
                have hrest' : path.drop (lcp path c.pfx) = [] := by simpa using hrest
                rw [hrest'] at hst'
                have ht' := syms_nil hst'
                subst ht'
                have := Present.static (n := Node.mk p hd0 pn (replaceFirst cs (path.headD 0) (Node.mk (path.take (lcp path c.pfx)) (path.headD 0) none [Node.mk (c.pfx.drop (lcp path c.pfx)) ((c.pfx.drop (lcp path c.pfx)).headD 0) c.paramName c.children c.routes] [m])) rs)
                  (mem_replaceFirst_new hex) (by simp [Node.isParam, Node.paramName])
                  (Present.here (r := m) (by simp [Node.routes]))
                rw [hspt]
                simpa [Node.pfx] using this
              · obtain ⟨ch, hchn, hf⟩ := bind_ok h
                cases hf
                have hv := mkChain_present _ _ _ none m ch t' hst' (fun _ => rfl) (by simp) hchn
                have hN : Present (Node.mk (path.take (lcp path c.pfx)) (path.headD 0) none
                    (sortChildren [Node.mk (c.pfx.drop (lcp path c.pfx)) ((c.pfx.drop (lcp path c.pfx)).headD 0) c.paramName c.children c.routes, ch]) []) t' m :=
                  present_of_via (mem_sortChildren.mpr (by simp)) hv
                have := Present.static (n := Node.mk p hd0 pn (replaceFirst cs (path.headD 0) _) rs)
                  (mem_replaceFirst_new hex) (by simp [Node.isParam, Node.paramName]) hN
                rw [hspt]
                simpa [Node.pfx] using this

#print axioms insert_present_new

theorem node_eta (c : Node) : c = .mk c.pfx c.head c.paramName c.children c.routes := by cases c; rfl

/-- … and every route that was present stays present under the same template, through every branch of `addRoute`,
    including the common-prefix split that re-roots an existing child -/
theorem insert_present_old (fuel : Nat) : ∀ (n : Node) (path : Bytes) (m : Route) (n' : Node) (sp sp0 : List Sym)
    (r : Route), WF n → Distinct n → Syms path sp → Present n sp0 r →
    insert fuel n path m = .ok n' → Present n' sp0 r := by
  induction fuel with
  | zero => intro _ _ _ _ _ _ _ _ _ _ _ h; simp [insert] at h
  | succ fuel ih =>
    intro n path m n' sp sp0 r hwf hdis hs hpres h
    cases n with
    | mk p hd0 pn cs rs =>
    have hch := hwf.children
    have hvia := via_of_present hpres
    simp only [Node.routes, Node.children] at hvia
    unfold insert at h
    simp only at h
    by_cases hpe : path.isEmpty = true
    · simp only [hpe, if_true] at h
      obtain ⟨rs', hrs', hf⟩ := bind_ok h
      cases hf
      apply present_mk
      rcases hvia with ⟨h0, hr⟩ | hc
      · exact Or.inl ⟨h0, mem_addMethod_old hrs' hr⟩
      · exact Or.inr hc
    · simp only [hpe, Bool.false_eq_true, if_false] at h
      have hpne : path ≠ [] := by intro h'; apply hpe; simp [h']
      split at h
      · cases h
      · split at h
        · obtain ⟨ch, hchn, hf⟩ := bind_ok h
          cases hf
          apply present_mk
          rcases hvia with h0 | ⟨d, hd, hv⟩
          · exact Or.inl h0
          · exact Or.inr ⟨d, mem_sortChildren.mpr (List.mem_append_left _ hd), hv⟩
        · rename_i c hfind
          have hcmem : c ∈ cs := List.mem_of_find?_eq_some hfind
          have hchead : c.head = path.headD 0 := by
            have := List.find?_some hfind
            simpa using this
          have hcwf := hch c hcmem
          have hcdis := hdis.kids c hcmem
          have hex : ∃ d ∈ cs, d.head = path.headD 0 := ⟨c, hcmem, hchead⟩
          -- a step through another child is untouched; a step through `c` is handled per branch
          have other : ∀ c' d, d ∈ cs → d ≠ c → d ∈ replaceFirst cs (path.headD 0) c' := by
            intro c' d hd hne
            apply mem_replaceFirst_ne hd
            intro heq
            exact hne (eq_of_head_eq hdis.here hd hcmem (by rw [heq, hchead]))
          split at h
          · rename_i hcp
            obtain ⟨c', hc', hf⟩ := bind_ok h
            cases hf
            apply present_mk
            rcases hvia with h0 | ⟨d, hd, hv⟩
            · exact Or.inl h0
            · right
              by_cases hdc : d = c
              · subst hdc
                have hh : path.head? = some 0x7b := by
                  rw [path_head_of_ne hpne, ← hchead, hcwf.1.1 hcp]
                obtain ⟨name, rest, t, hpath, hn, hrest, hspt⟩ := syms_param_head hs hh
                subst hpath
                have hnpp := npp_param (a := []) (rest := rest) (by intro c hc; cases hc) hn
                simp only [List.nil_append, List.length_nil, Nat.zero_add] at hnpp
                rw [hnpp] at hc'
                simp only at hc'
                have hdrop : List.drop (name.length + 2) (0x7b :: (name ++ 0x7d :: rest)) = rest := by
                  have : name.length + 2 = (0x7b :: (name ++ [0x7d])).length := by simp
                  rw [this]
                  have h' : (0x7b : UInt8) :: (name ++ 0x7d :: rest) = (0x7b :: (name ++ [0x7d])) ++ rest := by simp
                  rw [h', List.drop_left]
                rw [hdrop] at hc'
                have hf' := insert_fields hc'
                have hp' : c'.isParam = true := by
                  unfold Node.isParam at hcp ⊢; rw [hf'.2.2]; exact hcp
                rcases hv with ⟨hs0, _⟩ | ⟨_, sp', hsp0, hp0⟩
                · rw [hcp] at hs0; cases hs0
                · refine ⟨c', mem_replaceFirst_new hex, Or.inr ⟨hp', sp', hsp0, ?_⟩⟩
                  exact ih d rest m c' t sp' r hcwf.2 hcdis hrest hp0 hc'
              · exact ⟨d, other c' d hd hdc, hv⟩
          · rename_i hcp
            have hcs : c.isParam = false := by simpa using hcp
            obtain ⟨hpfx_ne, hpfx_head, hpfx_nb⟩ := hcwf.1.2 hcs
            split at h
            · rename_i hfull
              obtain ⟨c', hc', hf⟩ := bind_ok h
              cases hf
              apply present_mk
              rcases hvia with h0 | ⟨d, hd, hv⟩
              · exact Or.inl h0
              · right
                by_cases hdc : d = c
                · subst hdc
                  have hpath := lcp_full hfull
                  obtain ⟨t', hst', _⟩ := syms_strip' hs hpath hpfx_nb
                  rw [hfull] at hc'
                  have hf' := insert_fields hc'
                  have hs' : c'.isParam = false := by
                    unfold Node.isParam at hcs ⊢; rw [hf'.2.2]; exact hcs
                  rcases hv with ⟨_, sp', hsp0, hp0⟩ | ⟨hp1, _⟩
                  · refine ⟨c', mem_replaceFirst_new hex, Or.inl ⟨hs', sp', by rw [hf'.1]; exact hsp0, ?_⟩⟩
                    exact ih d _ m c' t' sp' r hcwf.2 hcdis hst' hp0 hc'
                  · rw [hcs] at hp1; cases hp1
                · exact ⟨d, other c' d hd hdc, hv⟩
            · rename_i hnotfull
              have htake : path.take (lcp path c.pfx) = c.pfx.take (lcp path c.pfx) := lcp_take _ _
              have hpn : c.paramName = none := by
                simp [Node.isParam] at hcs; exact hcs
              -- presence below the re-rooted old child
              have hold : ∀ sp' , Present c sp' r →
                  PresentVia (Node.mk (c.pfx.drop (lcp path c.pfx)) ((c.pfx.drop (lcp path c.pfx)).headD 0) c.paramName c.children c.routes)
                    ((c.pfx.drop (lcp path c.pfx)).map some ++ sp') r := by
                intro sp' hp0
                left
                refine ⟨by show c.paramName.isSome = false; rw [hpn]; rfl, sp', by simp [Node.pfx], ?_⟩
                rw [node_eta c] at hp0
                exact present_congr hp0
              have hsplit : ∀ sp', c.pfx.map some ++ sp' =
                  (path.take (lcp path c.pfx)).map some ++ ((c.pfx.drop (lcp path c.pfx)).map some ++ sp') := by
                intro sp'
                rw [htake, ← List.append_assoc, ← List.map_append, List.take_append_drop]
              split at h
              · cases h
                apply present_mk
                rcases hvia with h0 | ⟨d, hd, hv⟩
                · exact Or.inl h0
                · right
                  by_cases hdc : d = c
                  · rw [hdc] at hv
                    rcases hv with ⟨_, sp', hsp0, hp0⟩ | ⟨hp1, _⟩
                    · refine ⟨_, mem_replaceFirst_new hex, Or.inl ⟨by simp [Node.isParam, Node.paramName],
                        ((c.pfx.drop (lcp path c.pfx)).map some ++ sp'), ?_, ?_⟩⟩
                      · rw [hsp0, hsplit sp']; simp [Node.pfx]
                      · exact present_of_via (by simp [Node.children]) (hold sp' hp0)
                    · rw [hcs] at hp1; cases hp1
                  · exact ⟨d, other _ d hd hdc, hv⟩
              · obtain ⟨ch, hchn, hf⟩ := bind_ok h
                cases hf
                apply present_mk
                rcases hvia with h0 | ⟨d, hd, hv⟩
                · exact Or.inl h0
                · right
                  by_cases hdc : d = c
                  · rw [hdc] at hv
                    rcases hv with ⟨_, sp', hsp0, hp0⟩ | ⟨hp1, _⟩
                    · refine ⟨_, mem_replaceFirst_new hex, Or.inl ⟨by simp [Node.isParam, Node.paramName],
                        ((c.pfx.drop (lcp path c.pfx)).map some ++ sp'), ?_, ?_⟩⟩
                      · rw [hsp0, hsplit sp']; simp [Node.pfx]
                      · exact present_of_via (mem_sortChildren.mpr (by simp)) (hold sp' hp0)
                    · rw [hcs] at hp1; cases hp1
                  · exact ⟨d, other _ d hd hdc, hv⟩

#print axioms insert_present_old

/-! ### the whole route set: everything that was inserted is there, under its own template -/
theorem buildFrom_present (fuel : Nat) :
    ∀ (routes : List (Bytes × Route)) (n n' : Node),
    (∀ pm ∈ routes, ∃ sp, Syms pm.1 sp) → WF n → Distinct n →
    buildFrom fuel n routes = .ok n' →
    WF n' ∧ Distinct n' ∧
    (∀ sp0 r, Present n sp0 r → Present n' sp0 r) ∧
    (∀ pm ∈ routes, ∀ sp, Syms pm.1 sp → Present n' sp pm.2) := by
  intro routes
  induction routes with
  | nil =>
    intro n n' _ hwf hdis h
    simp [buildFrom] at h
    subst h
    exact ⟨hwf, hdis, fun _ _ h => h, by simp⟩
  | cons pm rest ih =>
    intro n n' hr hwf hdis h
    obtain ⟨p, m⟩ := pm
    simp only [buildFrom] at h
    obtain ⟨n1, h1, h2⟩ := bind_ok h
    obtain ⟨sp, hs⟩ := hr (p, m) (List.mem_cons_self ..)
    have hwf1 := insert_wf fuel n p m n1 sp hwf hs h1
    have hdis1 := insert_distinct fuel n p m n1 sp hwf hdis hs h1
    obtain ⟨hwf', hdis', hold, hnew⟩ := ih n1 n' (fun pm hpm => hr pm (List.mem_cons_of_mem _ hpm)) hwf1 hdis1 h2
    refine ⟨hwf', hdis', ?_, ?_⟩
    · intro sp0 r hp
      exact hold sp0 r (insert_present_old fuel n p m n1 sp sp0 r hwf hdis hs hp h1)
    · intro pm hpm sp' hs'
      rcases List.mem_cons.mp hpm with rfl | hmem
      · exact hold sp' m (insert_present_new fuel n p m n1 sp' hwf hs' h1)
      · exact hnew pm hmem sp' hs'

/-- **Every route ogen inserts is present in the router it builds**, under its own template, whatever the route
    set, the insertion order and the prefix splits on the way. -/
theorem build_present (fuel : Nat) (routes : List (Bytes × Route)) (n : Node)
    (hr : ∀ pm ∈ routes, ∃ sp, Syms pm.1 sp) (h : buildFrom fuel emptyRoot routes = .ok n) :
    WF n ∧ Distinct n ∧ ∀ pm ∈ routes, ∀ sp, Syms pm.1 sp → Present n sp pm.2 := by
  obtain ⟨h1, h2, _, h4⟩ := buildFrom_present fuel routes emptyRoot n hr
    (WF.mk (by simp) (by simp)) (Distinct.mk (by simp) (by simp)) h
  exact ⟨h1, h2, h4⟩

#print axioms build_present
end Tree
