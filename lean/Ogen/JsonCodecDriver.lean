import Ogen.JsonCodecModel
import Ogen.JsonEqualDriver
/-! Line protocol for the C04 codec model (trusted glue): `jcodec <type> <document>` ↦ `none` when the model's
    decoder refuses the document, else the model's re-encoding of the decoded value.
    Type tokens (prefix form): `I` `S` `B`, `A<nul>` item, `O<k>` followed by k fields `F<req><nul><hex name>` type.
    Document tokens as for C18 (`n t f s<hex> #<hex of the number text> [k {k k<hex>`), numbers are integers. -/
namespace JCodecDrv
open JEqG JCodec JEqDrv
instance : Inhabited Json := ⟨.null⟩
instance : Inhabited Ty := ⟨.int⟩

partial def readTy (toks : List String) : Ty × List String :=
  match toks with
  | [] => (.int, [])
  | t :: rest =>
    if t == "I" then (.int, rest)
    else if t == "S" then (.str, rest)
    else if t == "B" then (.bool, rest)
    else if t.startsWith "A" then
      let (it, r) := readTy rest
      (.arr (t == "A1") it, r)
    else
      let k := (t.drop 1).toString.toNat!
      let rec fields (k : Nat) (toks : List String) (acc : List Field) : List Field × List String :=
        match k with
        | 0 => (acc.reverse, toks)
        | k + 1 =>
          match toks with
          | f :: r =>
            let cs := f.toList
            let req := cs.getD 1 '0' == '1'
            let nul := cs.getD 2 '0' == '1'
            let (ft, r') := readTy r
            fields k r' ((unhexStr (String.ofList (cs.drop 3)), req, nul, ft) :: acc)
          | [] => (acc.reverse, [])
      let (fs, r) := fields k rest []
      (.obj fs, r)

def parseInt (s : String) : Int :=
  if s.startsWith "-" then -((s.drop 1).toString.toNat!) else s.toNat!

partial def readJI (toks : List String) : Json × List String :=
  match toks with
  | [] => (.null, [])
  | t :: rest =>
    if t == "n" then (.null, rest)
    else if t == "t" then (.bool true, rest)
    else if t == "f" then (.bool false, rest)
    else if t.startsWith "s" then (.str (unhexStr (t.drop 1).toString), rest)
    else if t.startsWith "#" then (.num (parseInt (unhexStr (t.drop 1).toString)), rest)
    else if t.startsWith "[" then
      let k := (t.drop 1).toString.toNat!
      let rec items (k : Nat) (toks : List String) (acc : List Json) : List Json × List String :=
        match k with
        | 0 => (acc.reverse, toks)
        | k + 1 => let (j, r) := readJI toks; items k r (j :: acc)
      let (xs, r) := items k rest []
      (.arr xs, r)
    else
      let k := (t.drop 1).toString.toNat!
      let rec members (k : Nat) (toks : List String) (acc : List (String × Json)) : List (String × Json) × List String :=
        match k with
        | 0 => (acc.reverse, toks)
        | k + 1 =>
          match toks with
          | key :: r =>
            let (j, r') := readJI r
            members k r' ((unhexStr (key.drop 1).toString, j) :: acc)
          | [] => (acc.reverse, [])
      let (ms, r) := members k rest []
      (.obj ms, r)

def hexDigit (n : Nat) : Char := if n < 10 then Char.ofNat (48 + n) else Char.ofNat (87 + n)
def hexStr (s : String) : String :=
  String.ofList (s.toUTF8.toList.flatMap fun b => [hexDigit (b.toNat / 16), hexDigit (b.toNat % 16)])

partial def showJ : Json → List String
  | .null => ["n"]
  | .bool true => ["t"]
  | .bool false => ["f"]
  | .str s => ["s" ++ hexStr s]
  | .num n => ["#" ++ hexStr (toString n)]
  | .arr xs => s!"[{xs.length}" :: xs.flatMap showJ
  | .obj ms => s!"\{{ms.length}" :: ms.flatMap fun (k, v) => ("k" ++ hexStr k) :: showJ v

def codecLine (line : String) : String :=
  let toks := (line.splitOn " ").filter (· ≠ "")
  let (ty, rest) := readTy toks
  let (j, _) := readJI rest
  match decode ty j with
  | none => "none"
  | some v => " ".intercalate (showJ (encode ty v))
end JCodecDrv
