import Ogen.JsonCodecModel
import Ogen.JsonEqualDriver
/-! Line protocol for the C04 codec model (trusted glue): `jcodec <type> <document>` ↦ `none` when the model's
    decoder refuses the document, else the model's re-encoding of the decoded value.
    `jaccept <type> <document>` ↦ `accept` / `refuse`: the model's verdict decode-then-validate (C03).
    Type tokens (prefix form): `I` `S` `B`, `A<nul>` item, `O<k>` (or `O<k>:1` for a closed object) followed by k fields `F<presence><nul><hex name>` [default] type (presence 0 optional, 1 required, 2 default: a document token follows);
    keywords ride on the token after colons, `-` for none: `I:min:max:exMin:exMax:multipleOf`, `S:min:max`,
    `A<nul>:min:max`.
    Document tokens as for C18 (`n t f s<hex> #<hex of the number text> [k {k k<hex>`), numbers are integers. -/
namespace JCodecDrv
open JEqG JCodec JEqDrv
instance : Inhabited Json := ⟨.null⟩
instance : Inhabited Ty := ⟨.int {}⟩

def parseInt (s : String) : Int :=
  if s.startsWith "-" then -((s.drop 1).toString.toNat!) else s.toNat!

partial def readJI (toks : List String) : Json × List String :=
  match toks with
  | [] => (.null, [])
  | t :: rest =>
    if t == "n" then (.null, rest)
    else if t == "t" then (.bool true, rest)
    else if t == "f" then (.bool false, rest)
    else if t.startsWith "s" then (.str (unhexStr (t.drop 1).toString), rest)
    else if t.startsWith "#" then
      let raw := unhexStr (t.drop 1).toString
      if raw.any (fun c => c == '.' || c == 'e' || c == 'E') then (.num .frac, rest)
      else (.num (.int (parseInt raw)), rest)
    else if t.startsWith "[" then
      let k := (t.drop 1).toString.toNat!
      let rec items (k : Nat) (toks : List String) (acc : List Json) : List Json × List String :=
        match k with
        | 0 => (acc.reverse, toks)
        | k + 1 => let (j, r) := readJI toks; items k r (j :: acc)
      let (xs, r) := items k rest []
      (.arr xs, r)
    else
      let k := (t.drop 1).toString.toNat!
      let rec members (k : Nat) (toks : List String) (acc : List (String × Json)) : List (String × Json) × List String :=
        match k with
        | 0 => (acc.reverse, toks)
        | k + 1 =>
          match toks with
          | key :: r =>
            let (j, r') := readJI r
            members k r' ((unhexStr (key.drop 1).toString, j) :: acc)
          | [] => (acc.reverse, [])
      let (ms, r) := members k rest []
      (.obj ms, r)

def parseIntO (s : String) : Option Int :=
  if s == "-" || s == "" then none
  else if s.startsWith "-" then some (-((s.drop 1).toString.toNat!)) else some s.toNat!
def parseNatO (s : String) : Option Nat := if s == "-" || s == "" then none else some s.toNat!
def lenC (parts : List String) : LenC :=
  { min := (parseNatO (parts.getD 1 "-")).getD 0, max := parseNatO (parts.getD 2 "-") }

partial def readTy (toks : List String) : Ty × List String :=
  match toks with
  | [] => (.int {}, [])
  | t :: rest =>
    let parts := t.splitOn ":"
    let head := parts.getD 0 ""
    if head == "I" then
      (.int { min := parseIntO (parts.getD 1 "-"), max := parseIntO (parts.getD 2 "-"), exMin := parts.getD 3 "0" == "1",
              exMax := parts.getD 4 "0" == "1", mult := parseNatO (parts.getD 5 "-") }, rest)
    else if head == "S" then (.str (lenC parts), rest)
    else if head == "B" then (.bool, rest)
    else if head.startsWith "A" then
      let (it, r) := readTy rest
      (.arr (lenC parts) (head == "A1") it, r)
    else
      let k := (head.drop 1).toString.toNat!
      let rec fields (k : Nat) (toks : List String) (acc : List Field) : List Field × List String :=
        match k with
        | 0 => (acc.reverse, toks)
        | k + 1 =>
          match toks with
          | f :: r =>
            let cs := f.toList
            let nul := cs.getD 2 '0' == '1'
            let name := unhexStr (String.ofList (cs.drop 3))
            -- presence digit: 0 optional, 1 required, 2 optional with a default (the default follows as a document token)
            if cs.getD 1 '0' == '2' then
              let (dj, r1) := readJI r
              let d : Val := match dj with
                | .num (.int n) => .int n
                | .str s => .str s
                | .bool b => .bool b
                | _ => .null
              let (ft, r') := readTy r1
              fields k r' ((name, .dflt d, nul, ft) :: acc)
            else
              let (ft, r') := readTy r
              fields k r' ((name, if cs.getD 1 '0' == '1' then .req else .opt, nul, ft) :: acc)
          | [] => (acc.reverse, [])
      let (fs, r) := fields k rest []
      (.obj (parts.getD 1 "0" == "1") fs, r)

def hexDigit (n : Nat) : Char := if n < 10 then Char.ofNat (48 + n) else Char.ofNat (87 + n)
def hexStr (s : String) : String :=
  String.ofList (s.toUTF8.toList.flatMap fun b => [hexDigit (b.toNat / 16), hexDigit (b.toNat % 16)])

partial def showJ : Json → List String
  | .null => ["n"]
  | .bool true => ["t"]
  | .bool false => ["f"]
  | .str s => ["s" ++ hexStr s]
  | .num (.int n) => ["#" ++ hexStr (toString n)]
  | .num .frac => ["#" ++ hexStr "frac"]
  | .arr xs => s!"[{xs.length}" :: xs.flatMap showJ
  | .obj ms => s!"\{{ms.length}" :: ms.flatMap fun (k, v) => ("k" ++ hexStr k) :: showJ v

def codecLine (line : String) : String :=
  let toks := (line.splitOn " ").filter (· ≠ "")
  let (ty, rest) := readTy toks
  let (j, _) := readJI rest
  match decode ty j with
  | none => "none"
  | some v => " ".intercalate (showJ (encode ty v))
def acceptLine (line : String) : String :=
  let toks := (line.splitOn " ").filter (· ≠ "")
  let (ty, rest) := readTy toks
  let (j, _) := readJI rest
  if accept ty j then "accept" else "refuse"
end JCodecDrv
