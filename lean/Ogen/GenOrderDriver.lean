import Ogen.GenOrderLib
/-! line-protocol printers of the C10 model (core-only) -/
namespace GenOrderDrv
open GenOrder

def hexVal (c : Char) : UInt8 := if c.isDigit then (c.toNat - 48).toUInt8 else (c.toNat - 87).toUInt8
def unhex : List Char → Key
  | a :: b :: rest => (hexVal a * 16 + hexVal b) :: unhex rest
  | _ => []
def hexDigit (n : UInt8) : Char := if n < 10 then Char.ofNat (48 + n.toNat) else Char.ofNat (87 + n.toNat)
def toHex (bs : Key) : String := String.ofList (bs.flatMap fun b => [hexDigit (b / 16), hexDigit (b % 16)])

def keyOf (s : String) : Key := if s == "-" then [] else unhex s.toList
def showKey (k : Key) : String := if k.isEmpty then "-" else toHex k
def keysOf (sep : String) (s : String) : List Key := if s.isEmpty || s == "_" then [] else (s.splitOn sep).map keyOf
def showKeys (ks : List Key) : String := if ks.isEmpty then "_" else ",".intercalate (ks.map showKey)
def natsOf (sep : String) (s : String) : List Nat := if s.isEmpty || s == "_" then [] else (s.splitOn sep).filterMap String.toNat?

/-- `sortkeys k,k,…` -/
def sortkeysLine (p : String) : String := showKeys (sortedKeys (keysOf "," p))

def nodeOf (s : String) : Node :=
  match s.splitOn ":" with
  | [a, b] => { strs := keysOf "." a, kids := natsOf "." b }
  | _ => { strs := [], kids := [] }

/-- `collect <roots> <node> <node> …` -/
def collectLine (p : String) : String :=
  match p.splitOn " " with
  | roots :: nodes =>
    let g : Graph := { nodes := (nodes.filter (· ≠ "")).toArray.map nodeOf }
    showKeys (collect g (natsOf "," roots))
  | [] => "bad"

def pairOf (s : String) : Option (Key × Key) :=
  match s.splitOn "=" with
  | [a, b] => some (keyOf a, keyOf b)
  | _ => none

/-- `writers n=c,n=c,…` in the order the writes happened → the listing of what is on disk afterwards -/
def writersLine (p : String) : String :=
  let ws := if p.isEmpty || p == "_" then [] else (p.splitOn ",").filterMap pairOf
  let fs := runWrites ws
  let names := sortedKeys (ws.map (·.1))
  let out := names.filterMap (fun n => (lookup fs n).map (fun c => showKey n ++ "=" ++ showKey c))
  if out.isEmpty then "_" else ",".intercalate out

end GenOrderDrv
