import Ogen.JsonEqualGeneric_model
import Ogen.JsonNumberModel
/-! C18 model assembled (core-only): `json.Equal` (after D2/D12) on ASTs whose numbers are spellings. -/
namespace JEqFinal
open JEqG JEqNum
abbrev Json := J Spell
def jsonEqual (a b : Json) : Bool := equal numEqS a b
end JEqFinal

namespace EnumDup
/-- the double loop over `enum` -/
def scan {α} (eq : α → α → Bool) (l : List α) : Bool :=
  l.zipIdx.any (fun ai => l.zipIdx.any (fun bj => ai.2 != bj.2 && eq ai.1 bj.1))

end EnumDup
