import Ogen.UriCodecLib
/-! Proof probe for C06: header and cookie parameters never deliver a different value
    (every style/explode/shape the codecs accept for these locations, every byte string),
    except the one known class: an empty array comes back as `[""]` (W3/W4). -/
namespace Codec

theorem forall_byte' {P : UInt8 → Prop} (h : ∀ n : Fin 256, P (UInt8.ofFin n)) : ∀ c : UInt8, P c := by
  intro c; simpa using h c.toFin

/-! split/join (as in SplitJoin_proof) -/
theorem splitAux_append_free' (sep : UInt8) (x : Bytes) (hx : contains x sep = false) (rest cur : Bytes) :
    splitAux sep (x ++ sep :: rest) cur = (cur.reverse ++ x) :: splitAux sep rest [] := by
  induction x generalizing cur with
  | nil => simp [splitAux]
  | cons c cs ih =>
    have hc : (c == sep) = false := by simp [contains] at hx; simpa using hx.1
    have hcs : contains cs sep = false := by simp [contains] at hx ⊢; exact hx.2
    show splitAux sep (c :: (cs ++ sep :: rest)) cur = _
    rw [splitAux]
    simp only [hc, Bool.false_eq_true, if_false]
    rw [ih hcs]; simp

theorem splitAux_free' (sep : UInt8) (x : Bytes) (hx : contains x sep = false) (cur : Bytes) :
    splitAux sep x cur = [cur.reverse ++ x] := by
  induction x generalizing cur with
  | nil => simp [splitAux]
  | cons c cs ih =>
    have hc : (c == sep) = false := by simp [contains] at hx; simpa using hx.1
    have hcs : contains cs sep = false := by simp [contains] at hx ⊢; exact hx.2
    rw [splitAux]
    simp only [hc, Bool.false_eq_true, if_false]
    rw [ih hcs]; simp

theorem split_join' (sep : UInt8) (items : List Bytes) (hne : items ≠ [])
    (hfree : ∀ it ∈ items, contains it sep = false) : split sep (join sep items) = items := by
  induction items with
  | nil => exact absurd rfl hne
  | cons x xs ih =>
    cases xs with
    | nil =>
      simp only [join, split]
      rw [splitAux_free' sep x (hfree x (List.mem_cons_self ..))]; simp
    | cons y ys =>
      simp only [join, split]
      rw [splitAux_append_free' sep x (hfree x (List.mem_cons_self ..))]
      have := ih (by simp) (fun it hit => hfree it (List.mem_cons_of_mem _ hit))
      simp only [split] at this
      rw [this]; simp

/-! cut on delimiter-free prefixes -/
theorem cut_free_append' (sep : UInt8) (x rest : Bytes) (hx : contains x sep = false) :
    cut sep (x ++ sep :: rest) = (x, some rest) := by
  induction x with
  | nil => simp [cut]
  | cons c cs ih =>
    have hc : (c == sep) = false := by simp [contains] at hx; simpa using hx.1
    have hcs : contains cs sep = false := by simp [contains] at hx ⊢; exact hx.2
    simp only [List.cons_append]
    rw [cut]
    simp only [hc, Bool.false_eq_true, if_false]
    rw [ih hcs]

theorem cut_free' (sep : UInt8) (x : Bytes) (hx : contains x sep = false) : cut sep x = (x, none) := by
  induction x with
  | nil => simp [cut]
  | cons c cs ih =>
    have hc : (c == sep) = false := by simp [contains] at hx; simpa using hx.1
    have hcs : contains cs sep = false := by simp [contains] at hx ⊢; exact hx.2
    rw [cut]
    simp only [hc, Bool.false_eq_true, if_false]
    rw [ih hcs]

/-- whatever `decodeObject` returns for an encoded field list IS that field list: names free of the key/value
    separator, values free of the field separator; it refuses (EOF) exactly when the last value is empty -/
theorem decodeObject_encodeObject (kv fs : UInt8) (fields : List (Bytes × Bytes)) (hne : fields ≠ [])
    (hk : ∀ f ∈ fields, contains f.1 kv = false) (hv : ∀ f ∈ fields, contains f.2 fs = false) :
    ∀ fuel l, decodeObject fuel kv fs (encodeObject kv fs fields) = some l → l = fields := by
  induction fields with
  | nil => exact absurd rfl hne
  | cons f rest ih =>
    obtain ⟨k, v⟩ := f
    intro fuel l h
    cases fuel with
    | zero => simp [decodeObject] at h
    | succ fuel =>
      have hkf := hk (k, v) (List.mem_cons_self ..)
      have hvf := hv (k, v) (List.mem_cons_self ..)
      cases rest with
      | nil =>
        simp only [encodeObject, decodeObject, readValue, List.append_assoc, List.cons_append] at h
        rw [cut_free_append' kv k v hkf] at h
        simp only at h
        rw [cut_free' fs v hvf] at h
        by_cases hve : v.isEmpty = true
        · simp [hve] at h
        · simp [hve] at h
          exact h.symm
      | cons g gs =>
        simp only [encodeObject, decodeObject, readValue, List.append_assoc, List.cons_append] at h
        rw [cut_free_append' kv k _ hkf] at h
        simp only at h
        rw [cut_free_append' fs v _ hvf] at h
        simp only [if_true] at h
        cases hrec : decodeObject fuel kv fs (encodeObject kv fs (g :: gs)) with
        | none => simp [hrec] at h
        | some l' =>
          simp [hrec] at h
          have := ih (by simp) (fun f hf => hk f (List.mem_cons_of_mem _ hf))
            (fun f hf => hv f (List.mem_cons_of_mem _ hf)) fuel l' hrec
          rw [← h, this]

/-! cookie escaping is an exact inverse pair -/
theorem hex_rt' : ∀ c : UInt8, isHex (hexU (c >>> 4)) = true ∧ isHex (hexU (c &&& 15)) = true ∧
    (unhex (hexU (c >>> 4)) <<< 4 ||| unhex (hexU (c &&& 15))) = c := by
  apply forall_byte'; decide +kernel
theorem cookie_raw_not_pct : ∀ c : UInt8, cookieMustEscape c = false → (c == 0x25) = false := by
  apply forall_byte'; decide +kernel

theorem cookie_inverse (s : Bytes) : pctUnescape false (escapeCookie s) = some s := by
  induction s with
  | nil => rfl
  | cons c cs ih =>
    by_cases h : cookieMustEscape c = true
    · have hx := hex_rt' c
      simp only [escapeCookie, h, if_true]
      conv => lhs; unfold pctUnescape
      simp [hx.1, hx.2.1, hx.2.2, ih]
    · have h' : cookieMustEscape c = false := by simpa using h
      have hp := cookie_raw_not_pct c h'
      simp only [escapeCookie, h', Bool.false_eq_true, if_false]
      conv => lhs; unfold pctUnescape
      simp [hp, ih]

/-- **header parameters never deliver a different value**, apart from the empty array (W3) -/
theorem header_never_wrong (c : Cfg) (v v' : Val) (hloc : c.loc = .header)
    (hshape : match v with | .prim _ => c.shape = .prim | .arr _ => c.shape = .arr | .obj _ => c.shape = .obj)
    (h : roundTrip c v = .ok v') : v' = v ∨ v = .arr [] := by
  unfold roundTrip at h
  simp only [hloc] at h
  cases v with
  | prim s =>
    simp only at hshape
    have henc : headerEnc c (.prim s) = .ok (some s) := rfl
    rw [henc] at h
    simp only [flatDec, hshape] at h
    cases h; exact Or.inl rfl
  | arr items =>
    simp only at hshape
    by_cases hne : items = []
    · exact Or.inr (by rw [hne])
    · left
      by_cases hany : (items.any fun it => contains it 0x2c) = true
      · have henc : headerEnc c (.arr items) = .error .encErr := by simp [headerEnc, hany]
        rw [henc] at h; cases h
      · have henc : headerEnc c (.arr items) = .ok (some (join 0x2c items)) := by simp [headerEnc, hany]
        rw [henc] at h
        simp only [flatDec, hshape] at h
        have hf : ∀ it ∈ items, contains it 0x2c = false := by
          intro it hit
          simp only [List.any_eq_true, not_exists, not_and, Bool.not_eq_true] at hany
          exact hany it hit
        rw [split_join' 0x2c items hne hf] at h
        cases h; rfl
  | obj fields =>
    simp only at hshape
    left
    by_cases hemp : fields.isEmpty = true
    · have henc : headerEnc c (.obj fields) = .ok none := by simp [headerEnc, hemp]
      rw [henc] at h
      simp [flatDec] at h
    · have hne' : fields ≠ [] := by intro h'; apply hemp; simp [h']
      by_cases hany : (fields.any fun (k, v) => contains k (if c.explode then 0x3d else 0x2c) || contains v 0x2c) = true
      · have henc : headerEnc c (.obj fields) = .error .encErr := by
          simp only [headerEnc, hemp, Bool.false_eq_true, if_false]
          simp only [hany, if_true]
        rw [henc] at h; cases h
      · have henc : headerEnc c (.obj fields) =
            .ok (some (encodeObject (if c.explode then 0x3d else 0x2c) 0x2c fields)) := by
          simp only [headerEnc, hemp, Bool.false_eq_true, if_false]
          simp [hany]
        rw [henc] at h
        simp only [flatDec, hshape] at h
        have hk : ∀ f ∈ fields, contains f.1 (if c.explode then 0x3d else 0x2c) = false := by
          intro f hf
          simp only [List.any_eq_true, not_exists, not_and, Bool.not_eq_true, Bool.or_eq_false_iff] at hany
          exact (hany f hf).1
        have hvv : ∀ f ∈ fields, contains f.2 0x2c = false := by
          intro f hf
          simp only [List.any_eq_true, not_exists, not_and, Bool.not_eq_true, Bool.or_eq_false_iff] at hany
          exact (hany f hf).2
        cases hdec : decodeObject ((encodeObject (if c.explode then 0x3d else 0x2c) 0x2c fields).length + 2)
            (if c.explode then 0x3d else 0x2c) 0x2c (encodeObject (if c.explode then 0x3d else 0x2c) 0x2c fields) with
        | none => simp [hdec] at h
        | some l =>
          simp only [hdec] at h
          cases h
          rw [decodeObject_encodeObject _ 0x2c fields hne' hk hvv _ l hdec]

#print axioms header_never_wrong
#print axioms cookie_inverse
#print axioms decodeObject_encodeObject

/-! ### cookies: the same, behind the escape pair -/

theorem cookie_never_wrong (c : Cfg) (v v' : Val) (hloc : c.loc = .cookie)
    (hshape : match v with | .prim _ => c.shape = .prim | .arr _ => c.shape = .arr | .obj _ => c.shape = .obj)
    (h : roundTrip c v = .ok v') : v' = v ∨ v = .arr [] := by
  unfold roundTrip at h
  simp only [hloc] at h
  cases v with
  | prim s =>
    simp only at hshape
    have henc : cookieEnc c (.prim s) = .ok (some (escapeCookie s)) := rfl
    rw [henc] at h
    simp only [cookie_inverse, flatDec, hshape] at h
    cases h; exact Or.inl rfl
  | arr items =>
    simp only at hshape
    by_cases hne : items = []
    · exact Or.inr (by rw [hne])
    · left
      by_cases hex : c.explode = true
      · have henc : cookieEnc c (.arr items) = .error .panic := by simp [cookieEnc, hex]
        rw [henc] at h; cases h
      · by_cases hany : (items.any fun it => contains it 0x2c) = true
        · have henc : cookieEnc c (.arr items) = .error .encErr := by simp [cookieEnc, hex, hany]
          rw [henc] at h; cases h
        · have henc : cookieEnc c (.arr items) = .ok (some (escapeCookie (join 0x2c items))) := by
            simp [cookieEnc, hex, hany]
          rw [henc] at h
          simp only [cookie_inverse, flatDec, hshape] at h
          have hf : ∀ it ∈ items, contains it 0x2c = false := by
            intro it hit
            simp only [List.any_eq_true, not_exists, not_and, Bool.not_eq_true] at hany
            exact hany it hit
          rw [split_join' 0x2c items hne hf] at h
          cases h; rfl
  | obj fields =>
    simp only at hshape
    left
    by_cases hemp : fields.isEmpty = true
    · have henc : cookieEnc c (.obj fields) = .ok none := by simp [cookieEnc, hemp]
      rw [henc] at h
      cases h
    · have hne' : fields ≠ [] := by intro h'; apply hemp; simp [h']
      by_cases hex : c.explode = true
      · have henc : cookieEnc c (.obj fields) = .error .panic := by simp [cookieEnc, hemp, hex]
        rw [henc] at h; cases h
      · by_cases hany : (fields.any fun (k, v) => contains k 0x2c || contains v 0x2c) = true
        · have henc : cookieEnc c (.obj fields) = .error .encErr := by
            simp only [cookieEnc, hemp, Bool.false_eq_true, if_false, hex]
            simp [hany]
          rw [henc] at h; cases h
        · have henc : cookieEnc c (.obj fields) = .ok (some (escapeCookie (encodeObject 0x2c 0x2c fields))) := by
            simp only [cookieEnc, hemp, Bool.false_eq_true, if_false, hex]
            simp [hany]
          rw [henc] at h
          simp only [cookie_inverse, flatDec, hshape] at h
          have hk : ∀ f ∈ fields, contains f.1 0x2c = false := by
            intro f hf
            simp only [List.any_eq_true, not_exists, not_and, Bool.not_eq_true, Bool.or_eq_false_iff] at hany
            exact (hany f hf).1
          have hvv : ∀ f ∈ fields, contains f.2 0x2c = false := by
            intro f hf
            simp only [List.any_eq_true, not_exists, not_and, Bool.not_eq_true, Bool.or_eq_false_iff] at hany
            exact (hany f hf).2
          cases hdec : decodeObject ((encodeObject 0x2c 0x2c fields).length + 2) 0x2c 0x2c (encodeObject 0x2c 0x2c fields) with
          | none => simp [hdec] at h
          | some l =>
            simp only [hdec] at h
            cases h
            rw [decodeObject_encodeObject 0x2c 0x2c fields hne' hk hvv _ l hdec]

#print axioms cookie_never_wrong
end Codec
