import Ogen.FloatValidateModel
import Mathlib.Data.Rat.Lemmas
import Mathlib.Tactic.FieldSimp
import Mathlib.Tactic.Linarith
/-! `validate.Float` accepts a finite value exactly when it satisfies the bounds and is an integer multiple of
    `multipleOf` — over the exact rational values of the doubles. -/
namespace FloatV

/-- a rational with denominator 1 is an integer, and conversely -/
theorem den_one_iff (q : Rat) : q.den = 1 ↔ ∃ k : Int, q = k := by
  constructor
  · intro h
    exact ⟨q.num, (Rat.den_eq_one_iff q).mp h |>.symm⟩
  · rintro ⟨k, rfl⟩
    simp

theorem multiple_iff (v m : Rat) (hm : m ≠ 0) : (v / m).den = 1 ↔ ∃ k : Int, v = k * m := by
  rw [den_one_iff]
  constructor
  · rintro ⟨k, hk⟩
    exact ⟨k, by field_simp at hk; linarith⟩
  · rintro ⟨k, hk⟩
    exact ⟨k, by rw [hk]; field_simp⟩

/-- the specification: bounds (exclusive or not) and divisibility -/
def Valid (c : Cfg) (v : Rat) : Prop :=
  (c.minSet = true → c.min < v ∨ (c.minExcl = false ∧ c.min = v)) ∧
  (c.maxSet = true → v < c.max ∨ (c.maxExcl = false ∧ c.max = v)) ∧
  (c.multSet = true → ∃ k : Int, v = k * c.mult)

/-- **`validate.Float` on finite values is the specification**, for every configuration with a non-zero
    `multipleOf` (the generator refuses `multipleOf: 0`) -/
theorem validateFin_iff (c : Cfg) (v : Rat) (hm : c.multSet = true → c.mult ≠ 0) :
    validateFin c v = true ↔ Valid c v := by
  unfold validateFin Valid
  simp only [Bool.and_eq_true, Bool.not_eq_true', Bool.and_eq_false_iff, Bool.or_eq_false_iff,
    decide_eq_false_iff_not, decide_eq_true_eq, beq_iff_eq, Bool.not_eq_false', beq_eq_false_iff_ne, ne_eq]
  constructor
  · rintro ⟨⟨h1, h2⟩, h3⟩
    refine ⟨?_, ?_, ?_⟩
    · intro hs
      rcases h1 with h1 | ⟨h1a, h1b⟩
      · rw [hs] at h1; cases h1
      · rcases h1b with h1b | h1b
        · rcases lt_or_eq_of_le (not_lt.mp h1a) with h | h
          · exact Or.inl h
          · exact Or.inr ⟨h1b, h⟩
        · rcases lt_or_eq_of_le (not_lt.mp h1a) with h | h
          · exact Or.inl h
          · exact absurd h.symm h1b
    · intro hs
      rcases h2 with h2 | ⟨h2a, h2b⟩
      · rw [hs] at h2; cases h2
      · rcases h2b with h2b | h2b
        · rcases lt_or_eq_of_le (not_lt.mp h2a) with h | h
          · exact Or.inl h
          · exact Or.inr ⟨h2b, h.symm⟩
        · rcases lt_or_eq_of_le (not_lt.mp h2a) with h | h
          · exact Or.inl h
          · exact absurd h h2b
    · intro hs
      rcases h3 with h3 | h3
      · rw [hs] at h3; cases h3
      · exact (multiple_iff v c.mult (hm hs)).mp h3
  · rintro ⟨h1, h2, h3⟩
    refine ⟨⟨?_, ?_⟩, ?_⟩
    · cases hs : c.minSet with
      | false => exact Or.inl rfl
      | true =>
        right
        rcases h1 hs with h | ⟨he, h⟩
        · exact ⟨not_lt.mpr (le_of_lt h), Or.inr (ne_of_gt h)⟩
        · exact ⟨not_lt.mpr (le_of_eq h), Or.inl he⟩
    · cases hs : c.maxSet with
      | false => exact Or.inl rfl
      | true =>
        right
        rcases h2 hs with h | ⟨he, h⟩
        · exact ⟨not_lt.mpr (le_of_lt h), Or.inr (ne_of_lt h)⟩
        · exact ⟨not_lt.mpr (le_of_eq h.symm), Or.inl he⟩
    · cases hs : c.multSet with
      | false => exact Or.inl rfl
      | true => exact Or.inr ((multiple_iff v c.mult (hm hs)).mpr (h3 hs))

/-- NaN and the infinities are always refused -/
theorem validate_nonfinite (c : Cfg) : validate c .nan = false ∧ validate c .inf = false := ⟨rfl, rfl⟩

theorem validate_iff (c : Cfg) (v : Rat) (hm : c.multSet = true → c.mult ≠ 0) :
    validate c (.fin v) = true ↔ Valid c v := validateFin_iff c v hm
end FloatV
