/-!
# allOf merge of numeric bounds (`gen.mergeSchemes`, the "Integer, Number validation" block) — C03

Two members of an `allOf` each carry at most one upper and one lower bound, inclusive or exclusive.  The merged
schema keeps the stronger bound of each side; the exclusive flag travels with its bound, and of two equal bounds
the exclusive one is the stronger.  A flag without a bound has no effect (OpenAPI 3.0: `exclusiveMaximum` modifies
`maximum`).  `merge_iff`: a number satisfies the merged bounds iff it satisfies both members'.
-/
namespace BoundM

structure Bnd where
  v : Option Int
  ex : Bool
deriving DecidableEq, Repr

def okUpper (b : Bnd) (x : Int) : Prop :=
  match b.v with
  | none => True
  | some m => if b.ex then x < m else x ≤ m

def okLower (b : Bnd) (x : Int) : Prop :=
  match b.v with
  | none => True
  | some m => if b.ex then m < x else m ≤ x

/-- `r.Maximum = someNum(…, minNum)` + `exclusiveOf` -/
def mergeUpper (a b : Bnd) : Bnd :=
  match a.v, b.v with
  | none, none => ⟨none, a.ex || b.ex⟩
  | some m, none => ⟨some m, a.ex⟩
  | none, some m => ⟨some m, b.ex⟩
  | some m₁, some m₂ =>
    if m₁ = m₂ then ⟨some m₁, a.ex || b.ex⟩ else if m₁ < m₂ then ⟨some m₁, a.ex⟩ else ⟨some m₂, b.ex⟩

/-- `r.Minimum = someNum(…, maxNum)` + `exclusiveOf` -/
def mergeLower (a b : Bnd) : Bnd :=
  match a.v, b.v with
  | none, none => ⟨none, a.ex || b.ex⟩
  | some m, none => ⟨some m, a.ex⟩
  | none, some m => ⟨some m, b.ex⟩
  | some m₁, some m₂ =>
    if m₁ = m₂ then ⟨some m₁, a.ex || b.ex⟩ else if m₁ > m₂ then ⟨some m₁, a.ex⟩ else ⟨some m₂, b.ex⟩

/-- **a number is below the merged upper bound iff it is below both members'** -/
theorem mergeUpper_iff (a b : Bnd) (x : Int) : okUpper (mergeUpper a b) x ↔ okUpper a x ∧ okUpper b x := by
  obtain ⟨av, ae⟩ := a
  obtain ⟨bv, be⟩ := b
  cases av with
  | none =>
    cases bv with
    | none => simp [mergeUpper, okUpper]
    | some m₂ => cases ae <;> cases be <;> simp [mergeUpper, okUpper]
  | some m₁ =>
    cases bv with
    | none => cases ae <;> cases be <;> simp [mergeUpper, okUpper]
    | some m₂ =>
      simp only [mergeUpper]
      by_cases h : m₁ = m₂
      · subst h
        simp only [if_true, okUpper]
        cases ae <;> cases be <;> simp <;> omega
      · simp only [h, if_false]
        by_cases hlt : m₁ < m₂
        · simp only [hlt, if_true, okUpper]
          cases ae <;> cases be <;> simp <;> omega
        · simp only [hlt, if_false, okUpper]
          cases ae <;> cases be <;> simp <;> omega

theorem mergeLower_iff (a b : Bnd) (x : Int) : okLower (mergeLower a b) x ↔ okLower a x ∧ okLower b x := by
  obtain ⟨av, ae⟩ := a
  obtain ⟨bv, be⟩ := b
  cases av with
  | none =>
    cases bv with
    | none => simp [mergeLower, okLower]
    | some m₂ => cases ae <;> cases be <;> simp [mergeLower, okLower]
  | some m₁ =>
    cases bv with
    | none => cases ae <;> cases be <;> simp [mergeLower, okLower]
    | some m₂ =>
      simp only [mergeLower]
      by_cases h : m₁ = m₂
      · subst h
        simp only [if_true, okLower]
        cases ae <;> cases be <;> simp <;> omega
      · simp only [h, if_false]
        by_cases hlt : m₁ > m₂
        · simp only [hlt, if_true, okLower]
          cases ae <;> cases be <;> simp <;> omega
        · simp only [hlt, if_false, okLower]
          cases ae <;> cases be <;> simp <;> omega

/-- **the merged schema accepts exactly the numbers both members accept** (bounds part) -/
theorem merge_iff (u₁ l₁ u₂ l₂ : Bnd) (x : Int) :
    (okUpper (mergeUpper u₁ u₂) x ∧ okLower (mergeLower l₁ l₂) x) ↔
      ((okUpper u₁ x ∧ okLower l₁ x) ∧ (okUpper u₂ x ∧ okLower l₂ x)) := by
  rw [mergeUpper_iff, mergeLower_iff]
  constructor
  · rintro ⟨⟨a, b⟩, c, d⟩; exact ⟨⟨a, c⟩, b, d⟩
  · rintro ⟨⟨a, c⟩, b, d⟩; exact ⟨⟨a, b⟩, c, d⟩

/-- the two shapes the unrepaired code got wrong (fixed edc48ced): the flag of the upper bound was dropped, and the
    weaker bound's flag was applied to the stronger bound -/
example : ¬ okUpper (mergeUpper ⟨some 10, true⟩ ⟨none, false⟩) 10 := by simp [okUpper, mergeUpper]
example : okLower (mergeLower ⟨some 5, true⟩ ⟨some 10, false⟩) 10 := by simp [okLower, mergeLower]

/-! ### count keywords (`minLength`/`maxLength`, `minItems`/`maxItems`, `minProperties`/`maxProperties`):
`someU64(…, selectMaxU64)` for the minimum, `someU64(…, selectMinU64)` for the maximum -/

def okCount (mn mx : Option Nat) (n : Nat) : Prop :=
  (match mn with | none => True | some m => m ≤ n) ∧ (match mx with | none => True | some m => n ≤ m)

def mergeMin : Option Nat → Option Nat → Option Nat
  | none, b => b
  | a, none => a
  | some a, some b => some (max a b)

def mergeMax : Option Nat → Option Nat → Option Nat
  | none, b => b
  | a, none => a
  | some a, some b => some (min a b)

/-- **a count satisfies the merged keywords iff it satisfies both members'** -/
theorem mergeCount_iff (mn₁ mx₁ mn₂ mx₂ : Option Nat) (n : Nat) :
    okCount (mergeMin mn₁ mn₂) (mergeMax mx₁ mx₂) n ↔ okCount mn₁ mx₁ n ∧ okCount mn₂ mx₂ n := by
  cases mn₁ <;> cases mn₂ <;> cases mx₁ <;> cases mx₂ <;> simp [okCount, mergeMin, mergeMax] <;> omega

def cOf (v : String) : Option Nat := if v == "-" then none else v.toNat?
def showC : Option Nat → String
  | none => "-"
  | some n => toString n
/-- `cmerge <min1> <max1> <min2> <max2>` -/
def countLine (p : String) : String :=
  match p.splitOn " " with
  | [a, b, c, d] => showC (mergeMin (cOf a) (cOf c)) ++ " " ++ showC (mergeMax (cOf b) (cOf d))
  | _ => "bad"

/-! line protocol: `bmerge <max1> <ex1> <min1> <exm1> <max2> <ex2> <min2> <exm2>` (`-` = no bound, flags 0/1) -/
def bOf (v e : String) : Bnd := ⟨if v == "-" then none else v.toInt?, e == "1"⟩
def showB (b : Bnd) : String :=
  match b.v with
  | none => "- " ++ (if b.ex then "1" else "0")
  | some m => toString m ++ " " ++ (if b.ex then "1" else "0")
def mergeLine (p : String) : String :=
  match p.splitOn " " with
  | [mx1, e1, mn1, f1, mx2, e2, mn2, f2] =>
    showB (mergeUpper (bOf mx1 e1) (bOf mx2 e2)) ++ " " ++ showB (mergeLower (bOf mn1 f1) (bOf mn2 f2))
  | _ => "bad"

end BoundM
