/-!
# allOf merge of numeric bounds (`gen.mergeSchemes`, the "Integer, Number validation" block) — C03

Two members of an `allOf` each carry at most one upper and one lower bound, inclusive or exclusive.  The merged
schema keeps the stronger bound of each side; the exclusive flag travels with its bound, and of two equal bounds
the exclusive one is the stronger.  A flag without a bound has no effect (OpenAPI 3.0: `exclusiveMaximum` modifies
`maximum`).  `merge_iff`: a number satisfies the merged bounds iff it satisfies both members'.
-/
namespace BoundM

structure Bnd where
  v : Option Int
  ex : Bool
deriving DecidableEq, Repr

def okUpper (b : Bnd) (x : Int) : Prop :=
  match b.v with
  | none => True
  | some m => if b.ex then x < m else x ≤ m

def okLower (b : Bnd) (x : Int) : Prop :=
  match b.v with
  | none => True
  | some m => if b.ex then m < x else m ≤ x

/-- `r.Maximum = someNum(…, minNum)` + `exclusiveOf` -/
def mergeUpper (a b : Bnd) : Bnd :=
  match a.v, b.v with
  | none, none => ⟨none, a.ex || b.ex⟩
  | some m, none => ⟨some m, a.ex⟩
  | none, some m => ⟨some m, b.ex⟩
  | some m₁, some m₂ =>
    if m₁ = m₂ then ⟨some m₁, a.ex || b.ex⟩ else if m₁ < m₂ then ⟨some m₁, a.ex⟩ else ⟨some m₂, b.ex⟩

/-- `r.Minimum = someNum(…, maxNum)` + `exclusiveOf` -/
def mergeLower (a b : Bnd) : Bnd :=
  match a.v, b.v with
  | none, none => ⟨none, a.ex || b.ex⟩
  | some m, none => ⟨some m, a.ex⟩
  | none, some m => ⟨some m, b.ex⟩
  | some m₁, some m₂ =>
    if m₁ = m₂ then ⟨some m₁, a.ex || b.ex⟩ else if m₁ > m₂ then ⟨some m₁, a.ex⟩ else ⟨some m₂, b.ex⟩

/-- **a number is below the merged upper bound iff it is below both members'** -/
theorem mergeUpper_iff (a b : Bnd) (x : Int) : okUpper (mergeUpper a b) x ↔ okUpper a x ∧ okUpper b x := by
  obtain ⟨av, ae⟩ := a
  obtain ⟨bv, be⟩ := b
  cases av with
  | none =>
    cases bv with
    | none => simp [mergeUpper, okUpper]
    | some m₂ => cases ae <;> cases be <;> simp [mergeUpper, okUpper]
  | some m₁ =>
    cases bv with
    | none => cases ae <;> cases be <;> simp [mergeUpper, okUpper]
    | some m₂ =>
      simp only [mergeUpper]
      by_cases h : m₁ = m₂
      · subst h
        simp only [if_true, okUpper]
        cases ae <;> cases be <;> simp <;> omega
      · simp only [h, if_false]
        by_cases hlt : m₁ < m₂
        · simp only [hlt, if_true, okUpper]
          cases ae <;> cases be <;> simp <;> omega
        · simp only [hlt, if_false, okUpper]
          cases ae <;> cases be <;> simp <;> omega

theorem mergeLower_iff (a b : Bnd) (x : Int) : okLower (mergeLower a b) x ↔ okLower a x ∧ okLower b x := by
  obtain ⟨av, ae⟩ := a
  obtain ⟨bv, be⟩ := b
  cases av with
  | none =>
    cases bv with
    | none => simp [mergeLower, okLower]
    | some m₂ => cases ae <;> cases be <;> simp [mergeLower, okLower]
  | some m₁ =>
    cases bv with
    | none => cases ae <;> cases be <;> simp [mergeLower, okLower]
    | some m₂ =>
      simp only [mergeLower]
      by_cases h : m₁ = m₂
      · subst h
        simp only [if_true, okLower]
        cases ae <;> cases be <;> simp <;> omega
      · simp only [h, if_false]
        by_cases hlt : m₁ > m₂
        · simp only [hlt, if_true, okLower]
          cases ae <;> cases be <;> simp <;> omega
        · simp only [hlt, if_false, okLower]
          cases ae <;> cases be <;> simp <;> omega

/-- **the merged schema accepts exactly the numbers both members accept** (bounds part) -/
theorem merge_iff (u₁ l₁ u₂ l₂ : Bnd) (x : Int) :
    (okUpper (mergeUpper u₁ u₂) x ∧ okLower (mergeLower l₁ l₂) x) ↔
      ((okUpper u₁ x ∧ okLower l₁ x) ∧ (okUpper u₂ x ∧ okLower l₂ x)) := by
  rw [mergeUpper_iff, mergeLower_iff]
  constructor
  · rintro ⟨⟨a, b⟩, c, d⟩; exact ⟨⟨a, c⟩, b, d⟩
  · rintro ⟨⟨a, c⟩, b, d⟩; exact ⟨⟨a, b⟩, c, d⟩

/-- the two shapes the unrepaired code got wrong (fixed edc48ced): the flag of the upper bound was dropped, and the
    weaker bound's flag was applied to the stronger bound -/
example : ¬ okUpper (mergeUpper ⟨some 10, true⟩ ⟨none, false⟩) 10 := by simp [okUpper, mergeUpper]
example : okLower (mergeLower ⟨some 5, true⟩ ⟨some 10, false⟩) 10 := by simp [okLower, mergeLower]

/-! ### count keywords (`minLength`/`maxLength`, `minItems`/`maxItems`, `minProperties`/`maxProperties`):
`someU64(…, selectMaxU64)` for the minimum, `someU64(…, selectMinU64)` for the maximum -/

def okCount (mn mx : Option Nat) (n : Nat) : Prop :=
  (match mn with | none => True | some m => m ≤ n) ∧ (match mx with | none => True | some m => n ≤ m)

def mergeMin : Option Nat → Option Nat → Option Nat
  | none, b => b
  | a, none => a
  | some a, some b => some (max a b)

def mergeMax : Option Nat → Option Nat → Option Nat
  | none, b => b
  | a, none => a
  | some a, some b => some (min a b)

/-- **a count satisfies the merged keywords iff it satisfies both members'** -/
theorem mergeCount_iff (mn₁ mx₁ mn₂ mx₂ : Option Nat) (n : Nat) :
    okCount (mergeMin mn₁ mn₂) (mergeMax mx₁ mx₂) n ↔ okCount mn₁ mx₁ n ∧ okCount mn₂ mx₂ n := by
  cases mn₁ <;> cases mn₂ <;> cases mx₁ <;> cases mx₂ <;> simp [okCount, mergeMin, mergeMax] <;> omega

def cOf (v : String) : Option Nat := if v == "-" then none else v.toNat?
def showC : Option Nat → String
  | none => "-"
  | some n => toString n
/-- `cmerge <min1> <max1> <min2> <max2>` -/
def countLine (p : String) : String :=
  match p.splitOn " " with
  | [a, b, c, d] => showC (mergeMin (cOf a) (cOf c)) ++ " " ++ showC (mergeMax (cOf b) (cOf d))
  | _ => "bad"

/-! ### `enum` (`mergeEnums`): no list = no constraint; two lists: the values of the shorter one that occur in the
longer one (ties: the first member's), an empty intersection is refused (`allOf enum merging` not implemented) -/

def okEnum (e : List Nat) (v : Nat) : Prop := e = [] ∨ v ∈ e

def mergeEnums (e₁ e₂ : List Nat) : Option (List Nat) :=
  if e₁ = [] then some e₂
  else if e₂ = [] then some e₁
  else
    let r := if e₁.length > e₂.length then e₂.filter (fun v => e₁.contains v) else e₁.filter (fun v => e₂.contains v)
    if r = [] then none else some r

/-- **a value is admitted by the merged enum iff both members admit it** -/
theorem mergeEnums_iff (e₁ e₂ r : List Nat) (v : Nat) (h : mergeEnums e₁ e₂ = some r) :
    okEnum r v ↔ okEnum e₁ v ∧ okEnum e₂ v := by
  unfold mergeEnums at h
  by_cases h1 : e₁ = []
  · simp [h1] at h; subst h; simp [okEnum, h1]
  · by_cases h2 : e₂ = []
    · simp [h1, h2] at h; subst h; simp [okEnum, h2]
    · simp only [h1, h2, if_false] at h
      by_cases hl : e₁.length > e₂.length
      · simp only [hl, if_true] at h
        split at h
        · cases h
        · rename_i hr
          cases h
          simp only [okEnum, hr, h1, h2, false_or, List.mem_filter, List.contains_iff_mem]
          exact And.comm
      · simp only [hl, if_false] at h
        split at h
        · cases h
        · rename_i hr
          cases h
          simp only [okEnum, hr, h1, h2, false_or, List.mem_filter, List.contains_iff_mem]

/-- **the merge is refused only when no value satisfies both members** (a refusal at generation time, never a
    wrong verdict at run time) -/
theorem mergeEnums_none_iff (e₁ e₂ : List Nat) :
    mergeEnums e₁ e₂ = none ↔ e₁ ≠ [] ∧ e₂ ≠ [] ∧ ∀ v, ¬ (v ∈ e₁ ∧ v ∈ e₂) := by
  unfold mergeEnums
  by_cases h1 : e₁ = []
  · simp [h1]
  · by_cases h2 : e₂ = []
    · simp [h1, h2]
    · simp only [h1, h2, if_false, ne_eq, not_false_eq_true, true_and]
      by_cases hl : e₁.length > e₂.length
      · simp only [hl, if_true]
        constructor
        · intro h v ⟨a, b⟩
          split at h
          · rename_i hr
            have : v ∈ e₂.filter (fun v => e₁.contains v) := by simp [List.mem_filter, a, b]
            rw [hr] at this; cases this
          · cases h
        · intro h
          have : e₂.filter (fun v => e₁.contains v) = [] := by
            rw [List.filter_eq_nil_iff]; intro a ha; simp; intro hb; exact h a ⟨hb, ha⟩
          rw [this]; simp
      · simp only [hl, if_false]
        constructor
        · intro h v ⟨a, b⟩
          split at h
          · rename_i hr
            have : v ∈ e₁.filter (fun v => e₂.contains v) := by simp [List.mem_filter, a, b]
            rw [hr] at this; cases this
          · cases h
        · intro h
          have : e₁.filter (fun v => e₂.contains v) = [] := by
            rw [List.filter_eq_nil_iff]; intro a ha; simp; intro hb; exact h a ⟨ha, hb⟩
          rw [this]; simp

example : mergeEnums [1, 2, 3] [3, 4, 2, 9] = some [2, 3] := by decide
example : mergeEnums [1, 2] [3] = none := by decide

/-! ### `properties` / `required` (`mergeProperties`): the first member's properties in their order, then the second
member's new ones; a property is required when either member flags it or either `required` list names it -/

abbrev Prp := Nat × Bool   -- name, required flag

def names (ps : List Prp) : List Nat := ps.map (·.1)

def mergeProps (p₁ p₂ : List Prp) (req : List Nat) : List Prp :=
  (p₁.map fun x => (x.1, x.2 || p₂.any (fun y => y.1 == x.1 && y.2) || req.contains x.1)) ++
  ((p₂.filter fun y => !(names p₁).contains y.1).map fun y => (y.1, y.2 || req.contains y.1))

/-- what the merged object demands of the key set `K` of a document -/
def demands (ps : List Prp) (K : Nat → Prop) : Prop := ∀ p ∈ ps, p.2 = true → K p.1

theorem mergeProps_names (p₁ p₂ : List Prp) (req : List Nat) :
    names (mergeProps p₁ p₂ req) = names p₁ ++ (names p₂).filter (fun n => !(names p₁).contains n) := by
  simp [names, mergeProps, List.map_append, List.filter_map, Function.comp_def]

/-- **`required` of an allOf**: when each member's flags are its `required` list restricted to its declared
    properties (what the parser builds) and every required name is declared by some member, a key set satisfies
    the merged object iff it contains every name either member requires -/
theorem mergeProps_required_iff (p₁ p₂ : List Prp) (r₁ r₂ : List Nat) (K : Nat → Prop)
    (hc₁ : ∀ p ∈ p₁, p.2 = true → p.1 ∈ r₁) (hc₂ : ∀ p ∈ p₂, p.2 = true → p.1 ∈ r₂)
    (hd : ∀ n, n ∈ r₁ ++ r₂ → n ∈ names p₁ ∨ n ∈ names p₂) :
    demands (mergeProps p₁ p₂ (r₁ ++ r₂)) K ↔ (∀ n ∈ r₁, K n) ∧ (∀ n ∈ r₂, K n) := by
  constructor
  · intro h
    have key : ∀ n, n ∈ r₁ ++ r₂ → K n := by
      intro n hn
      rcases hd n hn with h1 | h2
      · obtain ⟨x, hx, rfl⟩ := List.mem_map.1 h1
        have hm : (x.1, (x.2 || p₂.any (fun y => y.1 == x.1 && y.2) || (r₁ ++ r₂).contains x.1)) ∈
            mergeProps p₁ p₂ (r₁ ++ r₂) := List.mem_append_left _ (List.mem_map.2 ⟨x, hx, rfl⟩)
        have hk := h _ hm (by simp [List.mem_append.1 hn])
        exact hk
      · by_cases hin : n ∈ names p₁
        · obtain ⟨x, hx, rfl⟩ := List.mem_map.1 hin
          have hm : (x.1, (x.2 || p₂.any (fun y => y.1 == x.1 && y.2) || (r₁ ++ r₂).contains x.1)) ∈
              mergeProps p₁ p₂ (r₁ ++ r₂) := List.mem_append_left _ (List.mem_map.2 ⟨x, hx, rfl⟩)
          have hk := h _ hm (by simp [List.mem_append.1 hn])
          exact hk
        · obtain ⟨y, hy, rfl⟩ := List.mem_map.1 h2
          have hf : y ∈ p₂.filter fun y => !(names p₁).contains y.1 := by
            simp [List.mem_filter, hy, hin]
          have hm : (y.1, (y.2 || (r₁ ++ r₂).contains y.1)) ∈ mergeProps p₁ p₂ (r₁ ++ r₂) :=
            List.mem_append_right _ (List.mem_map.2 ⟨y, hf, rfl⟩)
          have hk := h _ hm (by simp [List.mem_append.1 hn])
          exact hk
    exact ⟨fun n hn => key n (List.mem_append_left _ hn), fun n hn => key n (List.mem_append_right _ hn)⟩
  · rintro ⟨h1, h2⟩ p hp hreq
    rcases List.mem_append.1 hp with ha | hb
    · obtain ⟨x, hx, rfl⟩ := List.mem_map.1 ha
      simp only [Bool.or_eq_true, List.any_eq_true, Bool.and_eq_true, beq_iff_eq, List.contains_iff_mem,
        List.mem_append] at hreq
      rcases hreq with (hf | ⟨y, hy, hyn, hyf⟩) | (hr | hr)
      · exact h1 _ (hc₁ x hx hf)
      · have := h2 _ (hc₂ y hy hyf); rw [hyn] at this; exact this
      · exact h1 _ hr
      · exact h2 _ hr
    · obtain ⟨y, hy, rfl⟩ := List.mem_map.1 hb
      simp only [Bool.or_eq_true, List.contains_iff_mem, List.mem_append] at hreq
      rcases hreq with hf | hr | hr
      · exact h2 _ (hc₂ y (List.mem_filter.1 hy).1 hf)
      · exact h1 _ hr
      · exact h2 _ hr

/-- K20 in the model: a required name that no member declares is demanded by nobody -/
theorem ghost_required_not_demanded :
    demands (mergeProps [(0, false)] [] ([1] ++ [])) (fun n => n = 0) ∧ ¬ (∀ n ∈ [1], (fun n => n = 0) n) := by
  constructor
  · intro p hp; simp [mergeProps] at hp; subst hp; simp
  · simp

example : mergeProps [(1, false), (2, true)] [(3, false), (1, true)] [3] = [(1, true), (2, true), (3, true)] := by decide

def natsOf (s : String) : List Nat := if s == "-" then [] else (s.splitOn ",").filterMap String.toNat?
def showNats (l : List Nat) : String := if l.isEmpty then "-" else ",".intercalate (l.map toString)
/-- `emerge <e1> <e2>` (comma-separated value ids, `-` = no enum) -/
def enumLine (p : String) : String :=
  match p.splitOn " " with
  | [a, b] => match mergeEnums (natsOf a) (natsOf b) with
    | none => "refused"
    | some r => showNats r
  | _ => "bad"
def prpsOf (s : String) : List Prp :=
  if s == "-" then [] else (s.splitOn ",").filterMap fun t =>
    match t.splitOn ":" with
    | [n, f] => n.toNat?.map fun k => (k, f == "1")
    | _ => none
/-- `pmerge <props1> <req1> <props2> <req2>` (`name:flag` lists) -/
def propsLine (p : String) : String :=
  match p.splitOn " " with
  | [a, ra, b, rb] =>
    let r := mergeProps (prpsOf a) (prpsOf b) (natsOf ra ++ natsOf rb)
    if r.isEmpty then "-" else ",".intercalate (r.map fun x => toString x.1 ++ ":" ++ (if x.2 then "1" else "0"))
  | _ => "bad"

/-! ### an allOf of any number of members: `mergeNSchemes` folds `mergeSchemes` from the left, and (fix 944cde35) the
merged schema keeps the union of the members' `required` lists, so that a name required by an early member reaches
the member that declares it -/

abbrev Member := List Prp × List Nat   -- properties, `required` list

def merge2 (a b : Member) : Member := (mergeProps a.1 b.1 (a.2 ++ b.2), a.2 ++ b.2)

def mergeN (first : Member) (rest : List Member) : Member := rest.foldl merge2 first

/-- what the parser builds: a declared property is flagged exactly when the member's `required` list names it -/
def FlagIff (m : Member) : Prop := ∀ p ∈ m.1, (p.2 = true ↔ p.1 ∈ m.2)

theorem mem_names_mergeProps (p₁ p₂ : List Prp) (req : List Nat) (n : Nat) :
    n ∈ names (mergeProps p₁ p₂ req) ↔ n ∈ names p₁ ∨ n ∈ names p₂ := by
  rw [mergeProps_names]
  simp only [List.mem_append, List.mem_filter, Bool.not_eq_true']
  constructor
  · rintro (h | ⟨h, _⟩)
    · exact Or.inl h
    · exact Or.inr h
  · rintro (h | h)
    · exact Or.inl h
    · by_cases h1 : n ∈ names p₁
      · exact Or.inl h1
      · exact Or.inr ⟨h, by simpa using h1⟩

theorem merge2_flagIff (a b : Member) (ha : FlagIff a) (hb : FlagIff b) : FlagIff (merge2 a b) := by
  intro p hp
  simp only [merge2] at hp ⊢
  rcases List.mem_append.1 hp with h | h
  · obtain ⟨x, hx, rfl⟩ := List.mem_map.1 h
    simp only [Bool.or_eq_true, List.any_eq_true, Bool.and_eq_true, beq_iff_eq, List.contains_iff_mem,
      List.mem_append]
    constructor
    · rintro ((hf | ⟨y, hy, hyn, hyf⟩) | hr)
      · exact Or.inl ((ha x hx).1 hf)
      · right; have := (hb y hy).1 hyf; rw [hyn] at this; exact this
      · exact hr
    · intro h; exact Or.inr h
  · obtain ⟨y, hy, rfl⟩ := List.mem_map.1 h
    simp only [Bool.or_eq_true, List.contains_iff_mem, List.mem_append]
    constructor
    · rintro (hf | hr)
      · exact Or.inr ((hb y (List.mem_filter.1 hy).1).1 hf)
      · exact hr
    · intro h; exact Or.inr h

theorem mergeN_spec : ∀ (rest : List Member) (acc : Member), FlagIff acc → (∀ m ∈ rest, FlagIff m) →
    FlagIff (mergeN acc rest) ∧
    (∀ n, n ∈ (mergeN acc rest).2 ↔ n ∈ acc.2 ∨ ∃ m ∈ rest, n ∈ m.2) ∧
    (∀ n, n ∈ names (mergeN acc rest).1 ↔ n ∈ names acc.1 ∨ ∃ m ∈ rest, n ∈ names m.1) := by
  intro rest
  induction rest with
  | nil => intro acc ha _; simp [mergeN, ha]
  | cons b rest ih =>
    intro acc ha hr
    have hb := hr b (List.mem_cons_self ..)
    have := ih (merge2 acc b) (merge2_flagIff acc b ha hb) (fun m hm => hr m (List.mem_cons_of_mem _ hm))
    obtain ⟨h1, h2, h3⟩ := this
    refine ⟨by simpa [mergeN] using h1, ?_, ?_⟩
    · intro n
      have := h2 n
      simp only [mergeN, List.foldl_cons] at this ⊢
      rw [this]; simp only [merge2, List.mem_append, List.mem_cons, exists_eq_or_imp]
      constructor
      · rintro ((h | h) | h)
        · exact Or.inl h
        · exact Or.inr (Or.inl h)
        · exact Or.inr (Or.inr h)
      · rintro (h | h | h)
        · exact Or.inl (Or.inl h)
        · exact Or.inl (Or.inr h)
        · exact Or.inr h
    · intro n
      have := h3 n
      simp only [mergeN, List.foldl_cons] at this ⊢
      rw [this]; simp only [merge2, mem_names_mergeProps, List.mem_cons, exists_eq_or_imp]
      constructor
      · rintro ((h | h) | h)
        · exact Or.inl h
        · exact Or.inr (Or.inl h)
        · exact Or.inr (Or.inr h)
      · rintro (h | h | h)
        · exact Or.inl (Or.inl h)
        · exact Or.inl (Or.inr h)
        · exact Or.inr h

/-- **`required` of an allOf with any number of members**: when every required name is declared by some member, a
    key set satisfies the merged object iff it holds every name any member requires — in whatever order the
    members are written -/
theorem mergeN_required_iff (first : Member) (rest : List Member) (K : Nat → Prop)
    (hf : ∀ m ∈ first :: rest, FlagIff m)
    (hd : ∀ m ∈ first :: rest, ∀ n ∈ m.2, ∃ m' ∈ first :: rest, n ∈ names m'.1) :
    demands (mergeN first rest).1 K ↔ ∀ m ∈ first :: rest, ∀ n ∈ m.2, K n := by
  obtain ⟨h1, h2, h3⟩ := mergeN_spec rest first (hf first (List.mem_cons_self ..))
    (fun m hm => hf m (List.mem_cons_of_mem _ hm))
  constructor
  · intro h m hm n hn
    have hreq : n ∈ (mergeN first rest).2 := by
      rw [h2]; rcases List.mem_cons.1 hm with rfl | hm'
      · exact Or.inl hn
      · exact Or.inr ⟨m, hm', hn⟩
    have hdecl : n ∈ names (mergeN first rest).1 := by
      obtain ⟨m', hm', hn'⟩ := hd m hm n hn
      rw [h3]; rcases List.mem_cons.1 hm' with rfl | hm''
      · exact Or.inl hn'
      · exact Or.inr ⟨m', hm'', hn'⟩
    obtain ⟨p, hp, rfl⟩ := List.mem_map.1 hdecl
    exact h p hp ((h1 p hp).2 hreq)
  · intro h p hp hflag
    have := (h1 p hp).1 hflag
    rw [h2] at this
    rcases this with h' | ⟨m, hm, h'⟩
    · exact h first (List.mem_cons_self ..) _ h'
    · exact h m (List.mem_cons_of_mem _ hm) _ h'

example : (mergeN ([], [2]) [([(1, false)], []), ([(2, false)], [])]).1 = [(1, false), (2, true)] := by decide

def membersOf (s : String) : List Member :=
  (s.splitOn ";").map fun t =>
    match t.splitOn "/" with
    | [a, r] => (prpsOf a, natsOf r)
    | _ => ([], [])
/-- `nmerge <props>/<req>;<props>/<req>;…` -/
def nmergeLine (p : String) : String :=
  match membersOf p with
  | [] => "bad"
  | first :: rest =>
    let r := (mergeN first rest).1
    if r.isEmpty then "-" else ",".intercalate (r.map fun x => toString x.1 ++ ":" ++ (if x.2 then "1" else "0"))

/-! line protocol: `bmerge <max1> <ex1> <min1> <exm1> <max2> <ex2> <min2> <exm2>` (`-` = no bound, flags 0/1) -/
def bOf (v e : String) : Bnd := ⟨if v == "-" then none else v.toInt?, e == "1"⟩
def showB (b : Bnd) : String :=
  match b.v with
  | none => "- " ++ (if b.ex then "1" else "0")
  | some m => toString m ++ " " ++ (if b.ex then "1" else "0")
def mergeLine (p : String) : String :=
  match p.splitOn " " with
  | [mx1, e1, mn1, f1, mx2, e2, mn2, f2] =>
    showB (mergeUpper (bOf mx1 e1) (bOf mx2 e2)) ++ " " ++ showB (mergeLower (bOf mn1 f1) (bOf mn2 f2))
  | _ => "bad"

end BoundM
