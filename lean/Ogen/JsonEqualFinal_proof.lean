import Ogen.JsonEqualEquiv_proof
import Ogen.JsonNumberLadder_proof
import Ogen.JsonEqualModel
/-! C18, assembled: the model of `json.Equal` (after D2/D12) on ASTs whose numbers are spellings. -/
namespace JEqFinal
open JEqG JEqNum

/-- the texts the theorem speaks about: unique member names, numbers in the JSON grammar (no leading zeros) -/
abbrev WFJ : Json → Prop := WF WFS
/-- "denote the same JSON value": arrays pointwise, objects as unordered maps, numbers by rational value -/
abbrev SameValue : Json → Json → Prop := Same (fun x y => valS x = valS y)

/-- **C18 `eq_iff`** -/
theorem eq_iff (a b : Json) (ha : WFJ a) (hb : WFJ b) : jsonEqual a b = true ↔ SameValue a b :=
  equal_iff (fun x y hx hy => numEqS_iff x y hx hy) a b ha hb

theorem sameValue_refl (a : Json) : SameValue a a :=
  same_refl (R := fun x y => valS x = valS y) (fun _ => rfl) a
theorem sameValue_symm (a b : Json) (ha : WFJ a) (hb : WFJ b) (h : SameValue a b) : SameValue b a :=
  same_symm (fun _ _ h => h.symm) a b (uk_of_wf a ha) (uk_of_wf b hb) h
theorem sameValue_trans (a b c : Json) (h1 : SameValue a b) (h2 : SameValue b c) : SameValue a c :=
  same_trans (fun _ _ _ h1 h2 => h1.trans h2) a b c h1 h2

/-- **the comparison is an equivalence relation on well-formed texts** -/
theorem eq_refl (a : Json) (ha : WFJ a) : jsonEqual a a = true := (eq_iff a a ha ha).mpr (sameValue_refl a)
theorem eq_symm (a b : Json) (ha : WFJ a) (hb : WFJ b) (h : jsonEqual a b = true) : jsonEqual b a = true :=
  (eq_iff b a hb ha).mpr (sameValue_symm a b ha hb ((eq_iff a b ha hb).mp h))
theorem eq_trans (a b c : Json) (ha : WFJ a) (hb : WFJ b) (hc : WFJ c)
    (h1 : jsonEqual a b = true) (h2 : jsonEqual b c = true) : jsonEqual a c = true :=
  (eq_iff a c ha hc).mpr (sameValue_trans a b c ((eq_iff a b ha hb).mp h1) ((eq_iff b c hb hc).mp h2))

#print axioms eq_iff
#print axioms eq_trans

/-- non-vacuity: `{"a":[1,2.0],"b":null}` and `{"b":null,"a":[10e-1,2]}` are well-formed and compare equal -/
def one : Spell := ⟨false, [1], none, none⟩
def tenEm1 : Spell := ⟨false, [1, 0], none, some (false, some true, [1])⟩
def two : Spell := ⟨false, [2], none, none⟩
def twoDot0 : Spell := ⟨false, [2], some [0], none⟩
def exA : Json := .obj [("a", .arr [.num one, .num twoDot0]), ("b", .null)]
def exB : Json := .obj [("b", .null), ("a", .arr [.num tenEm1, .num two])]
example : jsonEqual exA exB = true := by decide
example : WFJ exA ∧ WFJ exB := by
  refine ⟨⟨by decide, ⟨⟨⟨by decide, by decide, by decide⟩, ⟨by decide, by decide, by decide⟩, trivial⟩, trivial, trivial⟩⟩,
          ⟨by decide, ⟨trivial, ⟨⟨by decide, by decide, by decide⟩, ⟨by decide, by decide, by decide⟩, trivial⟩, trivial⟩⟩⟩
end JEqFinal
