/-
`location.PrintHighlights` (location/print.go): the width of the line-number column.

  padNum := clamp(log10(highestIdx+1), 2, MaxInt)            -- after fix 769cc43e; before: log10(highestIdx)
  lineNumberPad.Format: padding := pad - log10(line); buf[:padding] of a [32]byte

The slice expression panics when `padding < 0` or `padding > 32`. Lines `lowestIdx+1 … highestIdx+1` are printed.
-/
namespace Listing

/-- `log10` of print.go: the loop `for val >= 10 { r++; val /= 10 }` -/
def log10 (v : Nat) : Nat := if h : v ≥ 10 then log10 (v / 10) + 1 else 0
decreasing_by omega

theorem log10_small {v : Nat} (h : v < 10) : log10 v = 0 := by
  rw [log10]; simp; omega

theorem log10_step {v : Nat} (h : v ≥ 10) : log10 v = log10 (v / 10) + 1 := by
  rw [log10]; simp [h]

theorem log10_mono : ∀ (b a : Nat), a ≤ b → log10 a ≤ log10 b := by
  intro b
  induction b using Nat.strongRecOn with
  | _ b ih =>
    intro a hab
    by_cases ha : a ≥ 10
    · have hb : b ≥ 10 := by omega
      rw [log10_step ha, log10_step hb]
      have : a / 10 ≤ b / 10 := Nat.div_le_div_right hab
      have := ih (b / 10) (by omega) (a / 10) this
      omega
    · rw [log10_small (by omega)]; omega

/-- `v < 10^(k+1)` gives `log10 v ≤ k` -/
theorem log10_le_of_lt_pow : ∀ (k v : Nat), v < 10 ^ (k + 1) → log10 v ≤ k := by
  intro k
  induction k with
  | zero => intro v h; rw [log10_small (by simpa using h)]; omega
  | succ k ih =>
    intro v h
    by_cases hv : v ≥ 10
    · rw [log10_step hv]
      have : v / 10 < 10 ^ (k + 1) := by
        rw [Nat.div_lt_iff_lt_mul (by decide)]; rw [Nat.pow_succ] at h; exact h
      have := ih _ this; omega
    · rw [log10_small (by omega)]; omega

/-- the column width the fixed code uses, and the one it used before -/
def padNum (hi : Nat) : Nat := max 2 (log10 (hi + 1))
def padNumOld (hi : Nat) : Nat := max 2 (log10 hi)

/-- **no negative padding**: every printed line number fits the column -/
theorem padding_nonneg (hi idx : Nat) (h : idx ≤ hi) : log10 (idx + 1) ≤ padNum hi := by
  have := log10_mono (hi + 1) (idx + 1) (by omega)
  unfold padNum; omega

/-- **the 32-byte buffer suffices** for every line index of a 64-bit `int` -/
theorem padding_fits_buffer (hi idx : Nat) (hhi : hi + 1 < 2 ^ 63) : padNum hi - log10 (idx + 1) ≤ 32 := by
  have : log10 (hi + 1) ≤ 18 := log10_le_of_lt_pow 18 _ (by omega)
  unfold padNum; omega

/-- before the fix a listing that ends at line 1000 asked for `buf[:-1]` -/
theorem padding_negative_before_fix : padNumOld 999 < log10 (999 + 1) := by
  unfold padNumOld
  have h1 : log10 1000 = 3 := by
    rw [log10_step (by omega), log10_step (by omega), log10_step (by omega), log10_small (by omega)]
  have h2 : log10 999 = 2 := by
    rw [log10_step (by omega), log10_step (by omega), log10_small (by omega)]
  rw [h1, h2]; decide

/-- `lpad <highestIdx>` → the width of the padded number (`pad - log10(line)` blanks + the digits = `pad + 1`) -/
def padLine (p : String) : String :=
  match p.trimAscii.toString.toNat? with
  | some hi => toString (padNum hi + 1)
  | none => "bad"

end Listing
