import Ogen.IntValidate_proof
import Ogen.IntBounds_proof
import Ogen.ArrayValidate_proof
/-! C03: `validate.Int.Validate` assembled literally on int64 (`BitVec 64`): bound tests, the `v *= -1`
    wrap, the `uint64(v) % MultipleOf` test with Go's division-by-zero panic made explicit — and the
    theorem that it decides the JSON Schema keywords on the mathematical value. -/
namespace ValidateM
open IntVal IntBounds

inductive Res where | ok | err | panic
deriving DecidableEq, Repr

structure IntCfg where
  bounds : IntV
  mulSet : Bool
  mul : BitVec 64

def intValidate (t : IntCfg) (v : BitVec 64) : Res :=
  if !boundsOk t.bounds v.toInt then .err
  else if !t.mulSet then .ok
  else if t.mul = 0 then .panic            -- integer divide by zero
  else if (absU v) % t.mul = 0 then .ok else .err

/-- draft-4 reading of minimum/maximum/exclusive*/multipleOf on the integer `v` -/
def IntValid (t : IntCfg) (v : Int) : Prop :=
  IntBounds.Valid t.bounds v ∧ (t.mulSet = true → (t.mul.toNat : Int) ∣ v)

/-- **`validate.Int` accepts exactly the valid integers** — every int64 incl. `minInt64`, every
    configuration with `multipleOf > 0` (which the schema parser guarantees) -/
theorem int_validate_iff (t : IntCfg) (v : BitVec 64) (hm : t.mulSet = true → t.mul ≠ 0) :
    intValidate t v = .ok ↔ IntValid t v.toInt := by
  unfold intValidate IntValid
  by_cases hb : boundsOk t.bounds v.toInt = true
  · have hv := (boundsOk_iff t.bounds v.toInt).mp hb
    simp only [hb, Bool.not_true, Bool.false_eq_true, if_false]
    cases hms : t.mulSet with
    | false => simp [hv]
    | true =>
      have hne := hm hms
      simp only [Bool.not_true, Bool.false_eq_true, if_false, hne]
      constructor
      · intro h
        split at h
        · rename_i hz; exact ⟨hv, fun _ => (multipleOf_iff v t.mul hne).mp hz⟩
        · cases h
      · rintro ⟨_, hd⟩
        have := (multipleOf_iff v t.mul hne).mpr (hd trivial)
        simp [this]
  · have hb' : boundsOk t.bounds v.toInt = false := by simpa using hb
    simp only [hb', Bool.not_false, if_true]
    constructor
    · intro h; cases h
    · rintro ⟨hv, _⟩
      have := (boundsOk_iff t.bounds v.toInt).mpr hv
      rw [hb'] at this; cases this

/-- and never panics under the parser's guarantee -/
theorem int_validate_no_panic (t : IntCfg) (v : BitVec 64) (hm : t.mulSet = true → t.mul ≠ 0) :
    intValidate t v ≠ .panic := by
  unfold intValidate
  split
  · simp
  · split
    · simp
    · split
      · rename_i h1 h2 h3
        have : t.mulSet = true := by simpa using h2
        exact absurd h3 (hm this)
      · split <;> simp

example : intValidate ⟨⟨true, -10, false, false, 0, false⟩, true, 3⟩ (BitVec.ofInt 64 (-9)) = .ok := by decide
example : intValidate ⟨⟨true, -9, true, false, 0, false⟩, true, 3⟩ (BitVec.ofInt 64 (-9)) = .err := by decide
example : intValidate ⟨⟨false, 0, false, false, 0, false⟩, true, 2⟩ (BitVec.ofInt 64 (-9223372036854775808)) = .ok := by decide
#print axioms int_validate_iff

/-! line protocol -/
def b (s : String) : Bool := s == "1"
def showRes : Res → String | .ok => "ok" | .err => "err" | .panic => "panic"
/-- `vint minSet min minEx maxSet max maxEx mulSet mul v` (decimal; mul unsigned) -/
def vintLine (line : String) : String :=
  match (line.splitOn " ").filter (· ≠ "") with
  | [mns, mn, mne, mxs, mx, mxe, mls, ml, v] =>
    let cfg : IntCfg := ⟨⟨b mns, mn.toInt!, b mne, b mxs, mx.toInt!, b mxe⟩, b mls, BitVec.ofNat 64 ml.toNat!⟩
    showRes (intValidate cfg (BitVec.ofInt 64 v.toInt!))
  | _ => "bad"
/-- `vlen minSet min maxSet max n`: Array.ValidateLength / String length / Object.ValidateProperties -/
def vlenLine (line : String) : String :=
  match (line.splitOn " ").filter (· ≠ "") with
  | [mns, mn, mxs, mx, n] =>
    if ArrVal.validateLength ⟨mn.toInt!, b mns, mx.toInt!, b mxs⟩ n.toInt! then "ok" else "err"
  | _ => "bad"
def vpropsLine (line : String) : String :=
  match (line.splitOn " ").filter (· ≠ "") with
  | [mns, mn, mxs, mx, n] =>
    if propsOk ⟨b mns, mn.toInt!, b mxs, mx.toInt!⟩ n.toInt! then "ok" else "err"
  | _ => "bad"
/-- `vuniq i1 i2 …` (`-` for the empty array) -/
def vuniqLine (line : String) : String :=
  let xs := if line.trimAscii.toString == "-" then [] else ((line.splitOn " ").filter (· ≠ "")).map String.toInt!
  if ArrVal.uniqueItems xs then "ok" else "err"
end ValidateM
