import Ogen.RegexFlatCommute_proof
import Ogen.RegexSemantics_proof
/-! C08, syntax layer for whole expressions: for every expression `e` of the fragment of `ReSem.E`, printed fully
    parenthesised with non-capturing groups (`printE`), the model of `ogenregex.Convert` emits exactly the printed
    RE2 expression of `convAst e` (`printR`). Together with `ReSem.conv_preserves` (the denotations of `e` and
    `convAst e` agree on every subject) this closes the gap between the text-level converter and the
    AST-level translation, for expressions of any size and nesting. Trusted: that `printE e` is read as `e` by an
    ECMAScript parser and `printR r` as `r` by RE2's (both are fully parenthesised). -/
namespace Conv
open ReSem (E R convAst)

/-- characters that print as themselves and are copied by the scanner's default branch -/
def plain (c : Char) : Prop :=
  c ≠ '\\' ∧ c ≠ '(' ∧ c ≠ ')' ∧ c ≠ '[' ∧ c ≠ '.' ∧ 32 ≤ c.toNat

def grp (body : List Char) : List Char := ['(', '?', ':'] ++ body ++ [')']

def printE : E → List Char
  | .lit c => [c]
  | .dot => ['.']
  | .space neg => ['\\', if neg then 'S' else 's']
  | .digit neg => ['\\', if neg then 'D' else 'd']
  | .word neg => ['\\', if neg then 'W' else 'w']
  | .anyChar => ['[', '^', ']']
  | .noChar => ['[', ']']
  | .ctrl l => ['\\', 'c', l]
  | .bol => ['^']
  | .eol => ['$']
  | .wordb neg => ['\\', if neg then 'B' else 'b']
  | .cat a b => grp (printE a ++ printE b)
  | .alt a b => grp (printE a ++ ['|'] ++ printE b)
  | .star a => grp (printE a) ++ ['*']
  | .plus a => grp (printE a) ++ ['+']
  | .opt a => grp (printE a) ++ ['?']

def printR : R → List Char
  | .lit c => if c.toNat < 32 then xEscape c.toNat else [c]
  | .cls neg items => ['['] ++ (if neg then ['^'] else []) ++ items ++ [']']
  | .rng neg lo hi => ['['] ++ (if neg then ['^'] else []) ++ [lo, '-', hi, ']']
  | .digit neg => ['\\', if neg then 'D' else 'd']
  | .word neg => ['\\', if neg then 'W' else 'w']
  | .bol => ['^']
  | .eol => ['$']
  | .wordb neg => ['\\', if neg then 'B' else 'b']
  | .cat a b => grp (printR a ++ printR b)
  | .alt a b => grp (printR a ++ ['|'] ++ printR b)
  | .star a => grp (printR a) ++ ['*']
  | .plus a => grp (printR a) ++ ['+']
  | .opt a => grp (printR a) ++ ['?']

/-- literals are plain characters, control letters are letters -/
def Printable : E → Prop
  | .lit c => plain c
  | .ctrl l => ('a' ≤ l ∧ l ≤ 'z') ∨ ('A' ≤ l ∧ l ≤ 'Z')
  | .cat a b | .alt a b => Printable a ∧ Printable b
  | .star a | .plus a | .opt a => Printable a
  | _ => True

/-- scan steps at all levels (the fuel an expression needs) -/
def sz : E → Nat
  | .cat a b => sz a + sz b + 5
  | .alt a b => sz a + sz b + 6
  | .star a | .plus a | .opt a => sz a + 6
  | _ => 1

/-- scan steps at the top level -/
def steps : E → Nat
  | .star _ | .plus _ | .opt _ => 2
  | _ => 1

theorem scanBody_plain (fuel : Nat) (ig : Bool) (c : Char) (rest acc : List Char)
    (h : c ≠ '\\' ∧ c ≠ '(' ∧ c ≠ ')' ∧ c ≠ '[' ∧ c ≠ '.') :
    scanBody (fuel + 1) ig (c :: rest) acc = scanBody fuel ig rest (acc ++ [c]) := by
  obtain ⟨h1, h2, h3, h4, h5⟩ := h
  rw [scanBody] <;> intro h
  · exact h3 h
  · exact h1 h
  · exact h2 h
  · exact h4 h
  · exact h5 h

theorem scanBody_close (fuel : Nat) (rest acc : List Char) :
    scanBody (fuel + 1) true (')' :: rest) acc = .ok (acc ++ [')'], rest) := by
  rw [scanBody]; rfl

/-- a non-capturing group whose body is scanned chunk by chunk -/
theorem scanBody_grp (fuel : Nat) (ig : Bool) (body out rest acc : List Char) (k : Nat)
    (hbody : ∀ acc', scanBody (fuel - 3) true (body ++ ')' :: rest) acc' = scanBody (fuel - 3 - k) true (')' :: rest) (acc' ++ out))
    (hf : k + 4 ≤ fuel) :
    scanBody (fuel + 1) ig (grp body ++ rest) acc = scanBody fuel ig rest (acc ++ grp out) := by
  obtain ⟨f3, rfl⟩ : ∃ f3, fuel = f3 + 3 := ⟨fuel - 3, by omega⟩
  simp only [grp, List.cons_append, List.nil_append, List.append_assoc]
  rw [scanBody]
  -- scanGroup (f3+3) ('?' :: ':' :: …)
  have hg : scanGroup (f3 + 3) ('?' :: ':' :: (body ++ ')' :: rest)) = .ok (['?', ':'] ++ out ++ [')'], rest) := by
    rw [scanGroup]
    simp only [show ¬ ((':' : Char) = '=' ∨ (':' : Char) = '!' ∨ (':' : Char) = '<') by decide, if_false,
      show ¬ ((':' : Char) ≠ ':') by decide]
    rw [scanBody_plain (f3 + 1) true '?' _ [] (by decide), scanBody_plain f3 true ':' _ _ (by decide)]
    have := hbody ([] ++ ['?'] ++ [':'])
    simp only [Nat.add_sub_cancel] at this
    rw [this]
    obtain ⟨f4, hf4⟩ : ∃ f4, f3 - k = f4 + 1 := ⟨f3 - k - 1, by omega⟩
    rw [hf4, scanBody_close]
    simp
  simp only [List.append_assoc, List.cons_append, List.nil_append] at hg
  rw [hg]
  simp [List.append_assoc]

theorem steps_le_sz (e : E) : steps e ≤ sz e := by cases e <;> simp [steps, sz] <;> omega
theorem sz_pos (e : E) : 1 ≤ sz e := by cases e <;> simp [sz] <;> omega

theorem le_toNat {a b : Char} (h : a ≤ b) : a.toNat ≤ b.toNat :=
  UInt32.le_iff_toNat_le.mp (Char.le_def.mp h)

theorem scanBody_esc (f : Nat) (ig : Bool) (c : Char) (rest acc : List Char) (h : c ∈ simpleEsc) :
    scanBody (f + 1) ig ('\\' :: c :: rest) acc = scanBody f ig rest (acc ++ convEsc c) := by
  rw [scanBody]
  simp only [scanEscape_simple c h]

theorem ctrl_escape (l : Char) (h : ('a' ≤ l ∧ l ≤ 'z') ∨ ('A' ≤ l ∧ l ≤ 'Z')) (rest : List Char) :
    scanEscape false ('c' :: l :: rest) = .ok (printR (.lit (Char.ofNat (l.toNat % 32))), rest) := by
  have hlt : l.toNat % 32 < 32 := Nat.mod_lt _ (by decide)
  have hval : (Char.ofNat (l.toNat % 32)).toNat = l.toNat % 32 :=
    ReSem.toNat_ofNat _ (by simp [Nat.isValidChar]; omega)
  simp only [printR, hval, hlt, if_true]
  unfold scanEscape
  simp +decide only [if_false, if_true]
  rcases h with ⟨h1, h2⟩ | ⟨h1, h2⟩
  · have e1 : 97 ≤ l.toNat := le_toNat h1
    have e2 : l.toNat ≤ 122 := le_toNat h2
    simp only [h1, h2, and_self, if_true]
    congr 3; omega
  · have e1 : 65 ≤ l.toNat := le_toNat h1
    have e2 : l.toNat ≤ 90 := le_toNat h2
    have hn : ¬ ('a' ≤ l ∧ l ≤ 'z') := by
      intro ⟨h3, _⟩
      have : 97 ≤ l.toNat := le_toNat h3
      omega
    simp only [hn, if_false, h1, h2, and_self, if_true]
    congr 3; omega

theorem ws_same : Conv.whitespaceChars = ReSem.whitespaceChars := rfl

/-- **chunk lemma**: a printed expression in front of anything is scanned into its printed translation -/
theorem scanBody_expr : ∀ (e : E), Printable e → ∀ (fuel : Nat) (ig : Bool) (rest acc : List Char), sz e < fuel →
    scanBody fuel ig (printE e ++ rest) acc = scanBody (fuel - steps e) ig rest (acc ++ printR (convAst e)) := by
  intro e
  induction e with
  | lit c =>
    intro hp fuel ig rest acc hf
    obtain ⟨f, rfl⟩ : ∃ f, fuel = f + 1 := ⟨fuel - 1, by simp [sz] at hf; omega⟩
    simp only [Printable, plain] at hp
    have h32 : ¬ c.toNat < 32 := by omega
    simp only [printE, steps, convAst, printR, h32, if_false, List.cons_append, List.nil_append, Nat.add_sub_cancel]
    exact scanBody_plain f ig c rest acc ⟨hp.1, hp.2.1, hp.2.2.1, hp.2.2.2.1, hp.2.2.2.2.1⟩
  | dot =>
    intro _ fuel ig rest acc hf
    obtain ⟨f, rfl⟩ : ∃ f, fuel = f + 1 := ⟨fuel - 1, by simp [sz] at hf; omega⟩
    simp only [printE, steps, convAst, List.cons_append, List.nil_append, Nat.add_sub_cancel]
    rw [scanBody]
    rfl
  | space neg =>
    intro _ fuel ig rest acc hf
    obtain ⟨f, rfl⟩ : ∃ f, fuel = f + 1 := ⟨fuel - 1, by simp [sz] at hf; omega⟩
    simp only [steps, Nat.add_sub_cancel]
    cases neg
    · simp only [printE, convAst, Bool.false_eq_true, if_false, List.cons_append, List.nil_append]
      rw [scanBody_esc f ig _ rest acc (by simp [simpleEsc])]
      simp [convEsc, printR, ws_same]
    · simp only [printE, convAst, if_true, List.cons_append, List.nil_append]
      rw [scanBody_esc f ig _ rest acc (by simp [simpleEsc])]
      simp [convEsc, printR, ws_same]
  | digit neg =>
    intro _ fuel ig rest acc hf
    obtain ⟨f, rfl⟩ : ∃ f, fuel = f + 1 := ⟨fuel - 1, by simp [sz] at hf; omega⟩
    simp only [steps, Nat.add_sub_cancel]
    cases neg
    · simp only [printE, convAst, Bool.false_eq_true, if_false, List.cons_append, List.nil_append]
      rw [scanBody_esc f ig _ rest acc (by simp [simpleEsc])]
      simp [convEsc, printR, ws_same]
    · simp only [printE, convAst, if_true, List.cons_append, List.nil_append]
      rw [scanBody_esc f ig _ rest acc (by simp [simpleEsc])]
      simp [convEsc, printR, ws_same]
  | word neg =>
    intro _ fuel ig rest acc hf
    obtain ⟨f, rfl⟩ : ∃ f, fuel = f + 1 := ⟨fuel - 1, by simp [sz] at hf; omega⟩
    simp only [steps, Nat.add_sub_cancel]
    cases neg
    · simp only [printE, convAst, Bool.false_eq_true, if_false, List.cons_append, List.nil_append]
      rw [scanBody_esc f ig _ rest acc (by simp [simpleEsc])]
      simp [convEsc, printR, ws_same]
    · simp only [printE, convAst, if_true, List.cons_append, List.nil_append]
      rw [scanBody_esc f ig _ rest acc (by simp [simpleEsc])]
      simp [convEsc, printR, ws_same]
  | wordb neg =>
    intro _ fuel ig rest acc hf
    obtain ⟨f, rfl⟩ : ∃ f, fuel = f + 1 := ⟨fuel - 1, by simp [sz] at hf; omega⟩
    simp only [steps, Nat.add_sub_cancel]
    cases neg
    · simp only [printE, convAst, Bool.false_eq_true, if_false, List.cons_append, List.nil_append]
      rw [scanBody_esc f ig _ rest acc (by simp [simpleEsc])]
      simp [convEsc, printR, ws_same]
    · simp only [printE, convAst, if_true, List.cons_append, List.nil_append]
      rw [scanBody_esc f ig _ rest acc (by simp [simpleEsc])]
      simp [convEsc, printR, ws_same]
  | anyChar =>
    intro _ fuel ig rest acc hf
    obtain ⟨f, rfl⟩ : ∃ f, fuel = f + 1 := ⟨fuel - 1, by simp [sz] at hf; omega⟩
    simp only [printE, steps, convAst, List.cons_append, List.nil_append, Nat.add_sub_cancel]
    rw [scanBody]
    simp [scanBracket, printR, ReSem.anyHi]
  | noChar =>
    intro _ fuel ig rest acc hf
    obtain ⟨f, rfl⟩ : ∃ f, fuel = f + 1 := ⟨fuel - 1, by simp [sz] at hf; omega⟩
    simp only [printE, steps, convAst, List.cons_append, List.nil_append, Nat.add_sub_cancel]
    rw [scanBody]
    simp [scanBracket, printR, ReSem.anyHi]
  | ctrl l =>
    intro hp fuel ig rest acc hf
    obtain ⟨f, rfl⟩ : ∃ f, fuel = f + 1 := ⟨fuel - 1, by simp [sz] at hf; omega⟩
    simp only [Printable] at hp
    simp only [printE, steps, convAst, List.cons_append, List.nil_append, Nat.add_sub_cancel]
    rw [scanBody]
    simp only [ctrl_escape l hp]
  | bol =>
    intro _ fuel ig rest acc hf
    obtain ⟨f, rfl⟩ : ∃ f, fuel = f + 1 := ⟨fuel - 1, by simp [sz] at hf; omega⟩
    simp only [printE, steps, convAst, printR, List.cons_append, List.nil_append, Nat.add_sub_cancel]
    exact scanBody_plain f ig '^' rest acc (by decide)
  | eol =>
    intro _ fuel ig rest acc hf
    obtain ⟨f, rfl⟩ : ∃ f, fuel = f + 1 := ⟨fuel - 1, by simp [sz] at hf; omega⟩
    simp only [printE, steps, convAst, printR, List.cons_append, List.nil_append, Nat.add_sub_cancel]
    exact scanBody_plain f ig '$' rest acc (by decide)
  | cat a b iha ihb =>
    intro hp fuel ig rest acc hf
    obtain ⟨f, rfl⟩ : ∃ f, fuel = f + 1 := ⟨fuel - 1, by simp [sz] at hf; omega⟩
    simp only [Printable] at hp
    simp only [sz] at hf
    have ha := steps_le_sz a; have hb := steps_le_sz b; have pa := sz_pos a; have pb := sz_pos b
    simp only [printE, steps, convAst, printR, Nat.add_sub_cancel]
    apply scanBody_grp f ig _ _ rest acc (steps a + steps b) _ (by omega)
    intro acc'
    rw [List.append_assoc, iha hp.1 (f - 3) true _ acc' (by omega), ihb hp.2 _ true _ _ (by omega)]
    simp [List.append_assoc, Nat.sub_sub, Nat.add_assoc]
  | alt a b iha ihb =>
    intro hp fuel ig rest acc hf
    obtain ⟨f, rfl⟩ : ∃ f, fuel = f + 1 := ⟨fuel - 1, by simp [sz] at hf; omega⟩
    simp only [Printable] at hp
    simp only [sz] at hf
    have ha := steps_le_sz a; have hb := steps_le_sz b; have pa := sz_pos a; have pb := sz_pos b
    simp only [printE, steps, convAst, printR, Nat.add_sub_cancel]
    apply scanBody_grp f ig _ _ rest acc (steps a + 1 + steps b) _ (by omega)
    intro acc'
    simp only [List.append_assoc, List.cons_append, List.nil_append]
    rw [iha hp.1 (f - 3) true _ acc' (by omega)]
    obtain ⟨g, hg⟩ : ∃ g, f - 3 - steps a = g + 1 := ⟨f - 3 - steps a - 1, by omega⟩
    rw [hg, scanBody_plain g true '|' _ _ (by decide), ihb hp.2 g true _ _ (by omega)]
    have : g - steps b = f - 3 - (steps a + 1 + steps b) := by omega
    rw [this]
    simp [List.append_assoc]
  | star a iha =>
    intro hp fuel ig rest acc hf
    obtain ⟨f, rfl⟩ : ∃ f, fuel = f + 1 := ⟨fuel - 1, by simp [sz] at hf; omega⟩
    simp only [Printable] at hp
    simp only [sz] at hf
    have ha := steps_le_sz a; have pa := sz_pos a
    simp only [printE, steps, convAst, printR, List.append_assoc, List.cons_append, List.nil_append]
    rw [scanBody_grp f ig _ (printR (convAst a)) ('*' :: rest) acc (steps a) _ (by omega)]
    · obtain ⟨g, hg⟩ : ∃ g, f = g + 1 := ⟨f - 1, by omega⟩
      subst hg
      rw [scanBody_plain g ig '*' rest _ (by decide)]
      simp [List.append_assoc]
    · intro acc'
      rw [iha hp (f - 3) true _ acc' (by omega)]
  | plus a iha =>
    intro hp fuel ig rest acc hf
    obtain ⟨f, rfl⟩ : ∃ f, fuel = f + 1 := ⟨fuel - 1, by simp [sz] at hf; omega⟩
    simp only [Printable] at hp
    simp only [sz] at hf
    have ha := steps_le_sz a; have pa := sz_pos a
    simp only [printE, steps, convAst, printR, List.append_assoc, List.cons_append, List.nil_append]
    rw [scanBody_grp f ig _ (printR (convAst a)) ('+' :: rest) acc (steps a) _ (by omega)]
    · obtain ⟨g, hg⟩ : ∃ g, f = g + 1 := ⟨f - 1, by omega⟩
      subst hg
      rw [scanBody_plain g ig '+' rest _ (by decide)]
      simp [List.append_assoc]
    · intro acc'
      rw [iha hp (f - 3) true _ acc' (by omega)]
  | opt a iha =>
    intro hp fuel ig rest acc hf
    obtain ⟨f, rfl⟩ : ∃ f, fuel = f + 1 := ⟨fuel - 1, by simp [sz] at hf; omega⟩
    simp only [Printable] at hp
    simp only [sz] at hf
    have ha := steps_le_sz a; have pa := sz_pos a
    simp only [printE, steps, convAst, printR, List.append_assoc, List.cons_append, List.nil_append]
    rw [scanBody_grp f ig _ (printR (convAst a)) ('?' :: rest) acc (steps a) _ (by omega)]
    · obtain ⟨g, hg⟩ : ∃ g, f = g + 1 := ⟨f - 1, by omega⟩
      subst hg
      rw [scanBody_plain g ig '?' rest _ (by decide)]
      simp [List.append_assoc]
    · intro acc'
      rw [iha hp (f - 3) true _ acc' (by omega)]

theorem sz_le_print (e : E) : sz e ≤ 2 * (printE e).length := by
  induction e with
  | cat a b iha ihb => simp [sz, printE, grp]; omega
  | alt a b iha ihb => simp [sz, printE, grp]; omega
  | star a iha | plus a iha | opt a iha => simp [sz, printE, grp]; omega
  | _ => simp [sz, printE]

theorem printE_ne_nil (e : E) : printE e ≠ [] := by cases e <;> simp [printE, grp]

/-- **whole-expression commutation**: on the printed form of any expression of the fragment the converter emits the
    printed form of its translation -/
theorem convert_printed (e : E) (hp : Printable e) : convert (printE e) = .ok (printR (convAst e)) := by
  unfold convert
  have hne : (printE e).isEmpty = false := by
    cases h : printE e with
    | nil => exact absurd h (printE_ne_nil e)
    | cons _ _ => rfl
  simp only [hne, Bool.false_eq_true, if_false]
  have := scanBody_expr e hp (2 * (printE e).length + 2) false [] [] (by have := sz_le_print e; omega)
  simp only [List.append_nil, List.nil_append] at this
  rw [this]
  obtain ⟨g, hg⟩ : ∃ g, 2 * (printE e).length + 2 - steps e = g + 1 := by
    have h1 := steps_le_sz e; have h2 := sz_le_print e
    exact ⟨2 * (printE e).length + 2 - steps e - 1, by omega⟩
  rw [hg, scanBody]
  simp

/-- and the translation means what the original means: for every subject string -/
theorem convert_printed_preserves (e : E) (s : List Char) :
    ReSem.accepts (ReSem.re2Denote (convAst e)) s = ReSem.accepts (ReSem.ecmaDenote e) s := ReSem.conv_preserves e s

/-! non-vacuity: `(?:(?:a|\s)*$)` -/
example : convert (printE (.cat (.star (.alt (.lit 'a') (.space false))) .eol)) =
    .ok (printR (convAst (.cat (.star (.alt (.lit 'a') (.space false))) .eol))) :=
  convert_printed _ (by simp [Printable, plain])
example : printE (.cat (.star (.alt (.lit 'a') (.dot))) .eol) = "(?:(?:(?:a|.))*$)".toList := by rfl
end Conv
#print axioms Conv.convert_printed
