import Ogen.IntRoundTrip_proof
/-!
# Duration text (C13, C04): `json.formatDuration` — ogen's port of `time.Duration.String` (json/std_duration.go) —
and the value of a duration text

`format` is the Go function statement by statement on unbounded naturals (`u = |d|`; for an `int64` that is what
`u = -u` on the `uint64` gives, the minimum included): below one second the unit is ns / µs / ms with 0 / 3 / 6
fraction digits, from one second on `[h][m]s` with up to 9 fraction digits; `fracGo` is the loop of `fmtFrac`
(digits from the right, trailing zeros and then the point omitted).

`value` is what a duration text denotes — the reading `time.ParseDuration` documents: an optional sign, then terms
`digits [ "." digits ] unit` whose values add up (exact arithmetic: a fraction of k digits contributes
`digits · unit / 10^k`), or the single text `0`.

`value_format : value (format d) = some d` for every integer `d`.
-/
namespace DurT
open IntRT

abbrev Str := List UInt8

/-! ## the formatter -/

/-- `fmtFrac`'s loop: `n` rounds left, `v` what is left of the number, `acc` the digits written so far
    (`printFlag` is `acc ≠ []`) -/
def fracGo : Nat → Nat → Str → Str × Nat
  | 0, v, acc => (acc, v)
  | n + 1, v, acc =>
    if acc = [] ∧ v % 10 = 0 then fracGo n (v / 10) []
    else fracGo n (v / 10) (digitChar (v % 10) :: acc)

/-- `fmtFrac(buf, v, prec)`: the text of the fraction (with its point, or empty) and `v / 10^prec` -/
def fracDigits (v prec : Nat) : Str := (fracGo prec v []).1

/-- the fraction with its point, or nothing -/
def fracText (v prec : Nat) : Str := if fracDigits v prec = [] then [] else 46 :: fracDigits v prec

def fmtFrac (v prec : Nat) : Str × Nat := (fracText v prec, (fracGo prec v []).2)

def sfx (s : String) : Str := s.toUTF8.toList

/-- the text of the magnitude `u` (nanoseconds) -/
def body (u : Nat) : Str :=
  if u = 0 then [48, 115]
  else if u < 1000000000 then
    if u < 1000 then fmtNat u ++ [110, 115]
    else if u < 1000000 then fmtNat (fmtFrac u 3).2 ++ (fmtFrac u 3).1 ++ [0xC2, 0xB5, 115]
    else fmtNat (fmtFrac u 6).2 ++ (fmtFrac u 6).1 ++ [109, 115]
  else
    let sec := (fmtFrac u 9).2
    let s := fmtNat (sec % 60) ++ (fmtFrac u 9).1 ++ [115]
    let m := sec / 60
    if m = 0 then s
    else
      let ms := fmtNat (m % 60) ++ 109 :: s
      let h := m / 60
      if h = 0 then ms else fmtNat h ++ 104 :: ms

def format (d : Int) : Str := if d < 0 then 45 :: body d.natAbs else body d.natAbs

/-! ## what a duration text denotes -/

def takeDigits : Str → Str × Str
  | c :: cs => if isDigit c then let (a, b) := takeDigits cs; (c :: a, b) else ([], c :: cs)
  | [] => ([], [])

/-- the unit at the head of the text, in nanoseconds, and the rest -/
def unitOf : Str → Option (Nat × Str)
  | 110 :: 115 :: r => some (1, r)                       -- ns
  | 0xC2 :: 0xB5 :: 115 :: r => some (1000, r)           -- µs (U+00B5)
  | 0xCE :: 0xBC :: 115 :: r => some (1000, r)           -- μs (U+03BC)
  | 117 :: 115 :: r => some (1000, r)                    -- us
  | 109 :: 115 :: r => some (1000000, r)                 -- ms
  | 115 :: r => some (1000000000, r)                     -- s
  | 109 :: r => some (60000000000, r)                    -- m
  | 104 :: r => some (3600000000000, r)                  -- h
  | _ => none

/-- an optional `.` followed by digits -/
def fracPart : Str → Str × Str
  | 46 :: r => takeDigits r
  | s => ([], s)

/-- the terms one after the other; `fuel` bounds the number of terms (every term takes at least one byte) -/
def terms : Nat → Str → Nat → Option Nat
  | 0, _, _ => none
  | fuel + 1, s, acc =>
    if s.isEmpty then some acc
    else
      let ip := (takeDigits s).1
      let fr := fracPart (takeDigits s).2
      if ip = [] ∧ fr.1 = [] then none
      else
        match unitOf fr.2 with
        | none => none
        | some (u, s3) => terms fuel s3 (acc + digitsVal ip * u + digitsVal fr.1 * u / 10 ^ fr.1.length)

def magnitude (s : Str) : Option Nat :=
  if s = [48] then some 0 else if s.isEmpty then none else terms (s.length + 1) s 0

/-- does the magnitude, with that sign, fit an `int64` -/
def fits (neg : Bool) (n : Nat) : Bool :=
  if neg then decide (n ≤ 9223372036854775808) else decide (n ≤ 9223372036854775807)

/-- the sign applied; a magnitude that does not fit an `int64` is refused, as `time.ParseDuration` does -/
def signed (neg : Bool) : Option Nat → Option Int
  | some n => if fits neg n then some (if neg then -(n : Int) else (n : Int)) else none
  | none => none

/-- the value in nanoseconds -/
def value : Str → Option Int
  | 45 :: r => signed true (magnitude r)
  | 43 :: r => signed false (magnitude r)
  | s => signed false (magnitude s)

/-! ## the fraction loop -/

/-- `n` digits of `x`, zero-padded -/
def pad : Nat → Nat → Str
  | 0, _ => []
  | n + 1, x => pad n (x / 10) ++ [digitChar (x % 10)]

theorem pad_length (n x : Nat) : (pad n x).length = n := by
  induction n generalizing x with
  | zero => rfl
  | succ n ih => simp [pad, ih]

theorem pad_digits (n x : Nat) : (pad n x).all isDigit = true := by
  induction n generalizing x with
  | zero => rfl
  | succ n ih =>
    simp only [pad, List.all_append, ih, List.all_cons, List.all_nil, Bool.and_true, Bool.true_and]
    exact (digitChar_val (Nat.mod_lt _ (by omega))).2

theorem digitsVal_snoc (a : Str) (d : UInt8) : digitsVal (a ++ [d]) = digitsVal a * 10 + (d.toNat - 48) := by
  rw [digitsVal_append]; rfl

theorem digitsVal_pad (n x : Nat) : digitsVal (pad n x) = x % 10 ^ n := by
  induction n generalizing x with
  | zero => simp [pad, digitsVal, Nat.mod_one]
  | succ n ih =>
    rw [pad, digitsVal_snoc, ih, (digitChar_val (Nat.mod_lt x (by omega))).1]
    have h1 : x % 10 ^ (n + 1) = (x / 10 % 10 ^ n) * 10 + x % 10 := by
      rw [Nat.pow_succ, Nat.mul_comm (10 ^ n) 10, Nat.mod_mul]
      omega
    omega

/-- once a digit has been written every further digit is written -/
theorem fracGo_nonempty (n v : Nat) (acc : Str) (h : acc ≠ []) :
    fracGo n v acc = (pad n v ++ acc, v / 10 ^ n) := by
  induction n generalizing v acc with
  | zero => simp [fracGo, pad]
  | succ n ih =>
    rw [fracGo]
    have : ¬ (acc = [] ∧ v % 10 = 0) := fun hh => h hh.1
    rw [if_neg this, ih _ _ (by simp)]
    simp only [pad, List.append_assoc, List.singleton_append, Prod.mk.injEq, true_and]
    rw [Nat.pow_succ, Nat.mul_comm, Nat.div_div_eq_div_mul]

/-- the fraction digits: none iff the fraction is zero; otherwise `k ≤ n` digits whose value, scaled, is the
    fraction — and the quotient comes back -/
theorem fracGo_spec (n v : Nat) :
    (fracGo n v []).2 = v / 10 ^ n ∧ ((fracGo n v []).1).all isDigit = true ∧ ((fracGo n v []).1).length ≤ n ∧
      digitsVal (fracGo n v []).1 * 10 ^ (n - ((fracGo n v []).1).length) = v % 10 ^ n ∧
      ((fracGo n v []).1 = [] ↔ v % 10 ^ n = 0) := by
  induction n generalizing v with
  | zero => simp [fracGo, digitsVal, Nat.mod_one]
  | succ n ih =>
    rw [fracGo]
    by_cases hz : v % 10 = 0
    · have hc : (([] : Str) = [] ∧ v % 10 = 0) := ⟨rfl, hz⟩
      rw [if_pos hc]
      obtain ⟨h1, h2, h3, h4, h5⟩ := ih (v / 10)
      have hm : v % 10 ^ (n + 1) = (v / 10 % 10 ^ n) * 10 := by
        rw [Nat.pow_succ, Nat.mul_comm (10 ^ n) 10, Nat.mod_mul]; omega
      refine ⟨?_, h2, by omega, ?_, ?_⟩
      · rw [h1, Nat.pow_succ, Nat.mul_comm, Nat.div_div_eq_div_mul]
      · have : n + 1 - ((fracGo n (v / 10) []).1).length = (n - ((fracGo n (v / 10) []).1).length) + 1 := by omega
        rw [this, Nat.pow_succ, ← Nat.mul_assoc, h4, hm]
      · rw [h5, hm]; omega
    · have hc : ¬ (([] : Str) = [] ∧ v % 10 = 0) := fun hh => hz hh.2
      rw [if_neg hc, fracGo_nonempty n (v / 10) [digitChar (v % 10)] (by simp)]
      have hd := digitChar_val (Nat.mod_lt v (show 0 < 10 by omega))
      have hm : v % 10 ^ (n + 1) = (v / 10 % 10 ^ n) * 10 + v % 10 := by
        rw [Nat.pow_succ, Nat.mul_comm (10 ^ n) 10, Nat.mod_mul]; omega
      refine ⟨?_, ?_, ?_, ?_, ?_⟩
      · show v / 10 / 10 ^ n = v / 10 ^ (n + 1)
        rw [Nat.pow_succ, Nat.mul_comm, Nat.div_div_eq_div_mul]
      · show (pad n (v / 10) ++ [digitChar (v % 10)]).all isDigit = true
        simp only [List.all_append, pad_digits, List.all_cons, hd.2, List.all_nil, Bool.and_self]
      · show (pad n (v / 10) ++ [digitChar (v % 10)]).length ≤ n + 1
        simp [pad_length]
      · show digitsVal (pad n (v / 10) ++ [digitChar (v % 10)]) *
            10 ^ (n + 1 - (pad n (v / 10) ++ [digitChar (v % 10)]).length) = v % 10 ^ (n + 1)
        have hl : (pad n (v / 10) ++ [digitChar (v % 10)]).length = n + 1 := by simp [pad_length]
        rw [hl, Nat.sub_self, Nat.pow_zero, Nat.mul_one, digitsVal_snoc, digitsVal_pad, hd.1, hm]
      · show (pad n (v / 10) ++ [digitChar (v % 10)] = [] ↔ v % 10 ^ (n + 1) = 0)
        constructor
        · intro h; simp at h
        · intro h; rw [hm] at h; omega

/-! ## reading what was written -/

theorem takeDigits_append (a rest : Str) (ha : a.all isDigit = true)
    (hr : ∀ c, rest.head? = some c → isDigit c = false) : takeDigits (a ++ rest) = (a, rest) := by
  induction a with
  | nil =>
    cases rest with
    | nil => rfl
    | cons c cs => simp [takeDigits, hr c rfl]
  | cons c cs ih =>
    simp only [List.all_cons, Bool.and_eq_true] at ha
    simp [takeDigits, ha.1, ih ha.2]

theorem fmtNat_digits (n : Nat) : (fmtNat n).all isDigit = true := (fmtNat_spec n).1
theorem fmtNat_val (n : Nat) : digitsVal (fmtNat n) = n := (fmtNat_spec n).2.2
theorem fmtNat_ne (n : Nat) : fmtNat n ≠ [] := (fmtNat_spec n).2.1

/-- the fraction as written, followed by something that is neither a digit nor a point, is read back -/
theorem fracPart_fracText (v prec : Nat) (rest : Str)
    (hd : ∀ c, rest.head? = some c → isDigit c = false) (hdot : ∀ c, rest.head? = some c → c ≠ 46) :
    fracPart (fracText v prec ++ rest) = (fracDigits v prec, rest) := by
  unfold fracText
  by_cases h : fracDigits v prec = []
  · simp only [h, if_true, List.nil_append]
    cases hr : rest with
    | nil => rfl
    | cons c cs =>
      have : c ≠ 46 := hdot c (by rw [hr]; rfl)
      unfold fracPart
      split
      · rename_i r heq; cases heq; exact absurd rfl this
      · rfl
  · simp only [h, if_false, List.cons_append, fracPart]
    exact takeDigits_append _ _ (fracGo_spec prec v).2.1 hd

/-- one term `<q><frac><unit>` followed by `rest`: the reader takes it and adds its value -/
theorem terms_step (fuel q v prec : Nat) (unit rest : Str) (u acc : Nat)
    (hu : unitOf (unit ++ rest) = some (u, rest))
    (hd : ∀ c, (unit ++ rest).head? = some c → isDigit c = false)
    (hdot : ∀ c, (unit ++ rest).head? = some c → c ≠ 46) :
    terms (fuel + 1) (fmtNat q ++ fracText v prec ++ unit ++ rest) acc =
      terms fuel rest (acc + q * u + digitsVal (fracDigits v prec) * u / 10 ^ (fracDigits v prec).length) := by
  have hne : (fmtNat q ++ fracText v prec ++ unit ++ rest).isEmpty = false := by
    cases h : fmtNat q with
    | nil => exact absurd h (fmtNat_ne q)
    | cons a b => simp
  have hft : ∀ c, (fracText v prec ++ (unit ++ rest)).head? = some c → isDigit c = false := by
    intro c hc
    unfold fracText at hc
    by_cases h : fracDigits v prec = []
    · simp only [h, if_true, List.nil_append] at hc; exact hd c hc
    · simp only [h, if_false, List.cons_append, List.head?_cons, Option.some.injEq] at hc
      subst hc; decide
  have e1 : fmtNat q ++ fracText v prec ++ unit ++ rest = fmtNat q ++ (fracText v prec ++ (unit ++ rest)) := by
    simp [List.append_assoc]
  rw [terms]
  simp only [hne, Bool.false_eq_true, if_false]
  rw [e1, takeDigits_append _ _ (fmtNat_digits q) hft]
  simp only
  rw [fracPart_fracText v prec (unit ++ rest) hd hdot]
  have : ¬ (fmtNat q = [] ∧ fracDigits v prec = []) := fun hh => fmtNat_ne q hh.1
  simp only [this, if_false, hu, fmtNat_val]

/-- the value of a fraction of `prec` digits against a unit of `10^prec` nanoseconds is the remainder itself -/
theorem frac_value (v prec : Nat) :
    digitsVal (fracDigits v prec) * 10 ^ prec / 10 ^ (fracDigits v prec).length = v % 10 ^ prec := by
  unfold fracDigits
  obtain ⟨_, _, hl, hv, _⟩ := fracGo_spec prec v
  have hp : 10 ^ (prec - ((fracGo prec v []).1).length) * 10 ^ ((fracGo prec v []).1).length = 10 ^ prec := by
    rw [← Nat.pow_add]; congr 1; omega
  have key : digitsVal (fracGo prec v []).1 * 10 ^ prec = v % 10 ^ prec * 10 ^ ((fracGo prec v []).1).length := by
    rw [← hv, ← hp, Nat.mul_assoc]
  rw [key, Nat.mul_div_cancel _ (Nat.pow_pos (by omega))]

/-! ## the round trip -/

theorem terms_mono (f : Nat) (s : Str) (acc r : Nat) (h : terms f s acc = some r) : terms (f + 1) s acc = some r := by
  induction f generalizing s acc with
  | zero => simp [terms] at h
  | succ f ih =>
    rw [terms] at h ⊢
    by_cases he : s.isEmpty = true
    · simpa [he] using h
    · simp only [he, Bool.false_eq_true, if_false] at h ⊢
      split at h
      · cases h
      · rename_i hc
        simp only [hc, if_false]
        split at h
        · cases h
        · rename_i u s3 hu
          exact ih _ _ h

theorem terms_mono_le (f g : Nat) (hfg : f ≤ g) (s : Str) (acc r : Nat) (h : terms f s acc = some r) :
    terms g s acc = some r := by
  induction hfg with
  | refl => exact h
  | step _ ih => exact terms_mono _ _ _ _ ih

theorem terms_nil (f acc : Nat) : terms (f + 1) [] acc = some acc := by simp [terms]

theorem fracText_zero (v : Nat) : fracText v 0 = [] := by simp [fracText, fracDigits, fracGo]
theorem fracDigits_zero (v : Nat) : fracDigits v 0 = [] := by simp [fracDigits, fracGo]

/-- a term without a fraction -/
theorem terms_step0 (fuel q : Nat) (unit rest : Str) (u acc : Nat)
    (hu : unitOf (unit ++ rest) = some (u, rest))
    (hd : ∀ c, (unit ++ rest).head? = some c → isDigit c = false)
    (hdot : ∀ c, (unit ++ rest).head? = some c → c ≠ 46) :
    terms (fuel + 1) (fmtNat q ++ unit ++ rest) acc = terms fuel rest (acc + q * u) := by
  have := terms_step fuel q 0 0 unit rest u acc hu hd hdot
  rw [fracText_zero, fracDigits_zero] at this
  simpa [digitsVal] using this

theorem fmtNat_head_digit (n : Nat) : ∃ c cs, fmtNat n = c :: cs ∧ isDigit c = true := by
  have h1 := fmtNat_ne n
  have h2 := fmtNat_digits n
  cases h : fmtNat n with
  | nil => exact absurd h h1
  | cons c cs => rw [h] at h2; simp at h2; exact ⟨c, cs, rfl, h2.1⟩

theorem unitOf_m (rest : Str) (c : UInt8) (cs : Str) (hr : rest = c :: cs) (hc : isDigit c = true) :
    unitOf ([109] ++ rest) = some (60000000000, rest) := by
  subst hr
  have h115 : c ≠ 115 := by intro e; subst e; simp [isDigit] at hc
  simp only [List.singleton_append]
  unfold unitOf
  split <;> simp_all

/-- the seconds term with its fraction, at the end of the text -/
theorem terms_seconds (fuel u q acc : Nat) :
    terms (fuel + 2) (fmtNat q ++ fracText u 9 ++ [115]) acc = some (acc + q * 1000000000 + u % 1000000000) := by
  have h := terms_step (fuel + 1) q u 9 [115] [] 1000000000 acc (by rfl) (by intro c hc; simp at hc; subst hc; decide)
    (by intro c hc; simp at hc; subst hc; decide)
  simp only [List.append_nil] at h
  rw [h, terms_nil]
  have := frac_value u 9
  simp only [Nat.reducePow] at this
  rw [this]

theorem magnitude_body (u : Nat) : magnitude (body u) = some u := by
  unfold body
  by_cases h0 : u = 0
  · subst h0; simp [magnitude, terms, takeDigits, isDigit, fracPart, unitOf, digitsVal]
  simp only [h0, if_false]
  -- the texts below start with a digit and have at least two bytes: never "0" alone, never empty
  by_cases h9 : u < 1000000000
  · simp only [h9, if_true]
    by_cases h3 : u < 1000
    · simp only [h3, if_true]
      obtain ⟨c, cs, hc, _⟩ := fmtNat_head_digit u
      have hne : ¬ (fmtNat u ++ [110, 115] = [48]) := by rw [hc]; simp
      have hne2 : (fmtNat u ++ [110, 115]).isEmpty = false := by rw [hc]; rfl
      unfold magnitude
      simp only [hne, if_false, hne2, Bool.false_eq_true]
      have hs := terms_step0 1 u [110, 115] [] 1 0 (by rfl) (by intro c hc; simp at hc; subst hc; decide)
        (by intro c hc; simp at hc; subst hc; decide)
      simp only [List.append_nil] at hs
      have : terms 2 (fmtNat u ++ [110, 115]) 0 = some u := by rw [hs, terms_nil]; simp
      exact terms_mono_le 2 _ (by rw [hc]; simp) _ _ _ this
    · simp only [h3, if_false]
      by_cases h6 : u < 1000000
      · simp only [h6, if_true, fmtFrac]
        have hq : (fracGo 3 u []).2 = u / 1000 := by have := (fracGo_spec 3 u).1; simpa using this
        rw [hq]
        obtain ⟨c, cs, hc, _⟩ := fmtNat_head_digit (u / 1000)
        have hne : ¬ (fmtNat (u / 1000) ++ fracText u 3 ++ [0xC2, 0xB5, 115] = [48]) := by
          rw [hc]; intro e; have := congrArg List.length e; simp at this
        have hne2 : (fmtNat (u / 1000) ++ fracText u 3 ++ [0xC2, 0xB5, 115]).isEmpty = false := by rw [hc]; rfl
        unfold magnitude
        simp only [hne, if_false, hne2, Bool.false_eq_true]
        have hs := terms_step 1 (u / 1000) u 3 [0xC2, 0xB5, 115] [] 1000 0 (by rfl)
          (by intro c hc; simp at hc; subst hc; decide) (by intro c hc; simp at hc; subst hc; decide)
        simp only [List.append_nil] at hs
        have hf := frac_value u 3
        simp only [Nat.reducePow] at hf
        have : terms 2 (fmtNat (u / 1000) ++ fracText u 3 ++ [0xC2, 0xB5, 115]) 0 = some u := by
          rw [hs, terms_nil, hf]; congr 1; omega
        exact terms_mono_le 2 _ (by rw [hc]; simp) _ _ _ this
      · simp only [h6, if_false, fmtFrac]
        have hq : (fracGo 6 u []).2 = u / 1000000 := by have := (fracGo_spec 6 u).1; simpa using this
        rw [hq]
        obtain ⟨c, cs, hc, _⟩ := fmtNat_head_digit (u / 1000000)
        have hne : ¬ (fmtNat (u / 1000000) ++ fracText u 6 ++ [109, 115] = [48]) := by
          rw [hc]; intro e; have := congrArg List.length e; simp at this
        have hne2 : (fmtNat (u / 1000000) ++ fracText u 6 ++ [109, 115]).isEmpty = false := by rw [hc]; rfl
        unfold magnitude
        simp only [hne, if_false, hne2, Bool.false_eq_true]
        have hs := terms_step 1 (u / 1000000) u 6 [109, 115] [] 1000000 0 (by rfl)
          (by intro c hc; simp at hc; subst hc; decide) (by intro c hc; simp at hc; subst hc; decide)
        simp only [List.append_nil] at hs
        have hf := frac_value u 6
        simp only [Nat.reducePow] at hf
        have : terms 2 (fmtNat (u / 1000000) ++ fracText u 6 ++ [109, 115]) 0 = some u := by
          rw [hs, terms_nil, hf]; congr 1; omega
        exact terms_mono_le 2 _ (by rw [hc]; simp) _ _ _ this
  · simp only [h9, if_false]
    have hq : (fmtFrac u 9).2 = u / 1000000000 := by have := (fracGo_spec 9 u).1; simpa [fmtFrac] using this
    have hq1 : (fmtFrac u 9).1 = fracText u 9 := rfl
    simp only [hq, hq1]
    -- abbreviations
    generalize hsec : u / 1000000000 = sec
    have hsecpos : 0 < sec := by omega
    have hS : ∀ fuel acc, terms (fuel + 2) (fmtNat (sec % 60) ++ fracText u 9 ++ [115]) acc =
        some (acc + sec % 60 * 1000000000 + u % 1000000000) := fun fuel acc => terms_seconds fuel u _ acc
    obtain ⟨cS, csS, hcS, hdS⟩ := fmtNat_head_digit (sec % 60)
    have hSeq : fmtNat (sec % 60) ++ fracText u 9 ++ [115] = cS :: (csS ++ fracText u 9 ++ [115]) := by
      rw [hcS]; simp
    by_cases hm : sec / 60 = 0
    · simp only [hm, if_true]
      have hne : ¬ (fmtNat (sec % 60) ++ fracText u 9 ++ [115] = [48]) := by
        rw [hSeq]; intro e; have := congrArg List.length e; simp at this
      have hne2 : (fmtNat (sec % 60) ++ fracText u 9 ++ [115]).isEmpty = false := by rw [hSeq]; rfl
      unfold magnitude
      simp only [hne, if_false, hne2, Bool.false_eq_true]
      have : terms 2 (fmtNat (sec % 60) ++ fracText u 9 ++ [115]) 0 = some u := by
        rw [hS 0 0]; congr 1; omega
      exact terms_mono_le 2 _ (by rw [hSeq]; simp) _ _ _ this
    · simp only [hm, if_false]
      -- minutes term in front of the seconds term
      have hM : ∀ fuel acc, terms (fuel + 3) (fmtNat (sec / 60 % 60) ++ 109 :: (fmtNat (sec % 60) ++ fracText u 9 ++ [115])) acc =
          some (acc + sec / 60 % 60 * 60000000000 + sec % 60 * 1000000000 + u % 1000000000) := by
        intro fuel acc
        have hu := unitOf_m (fmtNat (sec % 60) ++ fracText u 9 ++ [115]) cS _ hSeq hdS
        have hs := terms_step0 (fuel + 2) (sec / 60 % 60) [109] (fmtNat (sec % 60) ++ fracText u 9 ++ [115]) 60000000000 acc hu
          (by intro c hc; simp at hc; subst hc; decide) (by intro c hc; simp at hc; subst hc; decide)
        have e : fmtNat (sec / 60 % 60) ++ 109 :: (fmtNat (sec % 60) ++ fracText u 9 ++ [115]) =
            fmtNat (sec / 60 % 60) ++ [109] ++ (fmtNat (sec % 60) ++ fracText u 9 ++ [115]) := by simp
        rw [e, hs, hS]
      obtain ⟨cM, csM, hcM, hdM⟩ := fmtNat_head_digit (sec / 60 % 60)
      by_cases hh : sec / 60 / 60 = 0
      · simp only [hh, if_true]
        have hlen : 3 ≤ (fmtNat (sec / 60 % 60) ++ 109 :: (fmtNat (sec % 60) ++ fracText u 9 ++ [115])).length + 1 := by
          rw [hcM, hSeq]; simp; omega
        have hne : ¬ (fmtNat (sec / 60 % 60) ++ 109 :: (fmtNat (sec % 60) ++ fracText u 9 ++ [115]) = [48]) := by
          rw [hcM]; intro e; have := congrArg List.length e; simp at this
        have hne2 : (fmtNat (sec / 60 % 60) ++ 109 :: (fmtNat (sec % 60) ++ fracText u 9 ++ [115])).isEmpty = false := by
          rw [hcM]; rfl
        unfold magnitude
        simp only [hne, if_false, hne2, Bool.false_eq_true]
        have : terms 3 (fmtNat (sec / 60 % 60) ++ 109 :: (fmtNat (sec % 60) ++ fracText u 9 ++ [115])) 0 = some u := by
          rw [hM 0 0]; congr 1; omega
        exact terms_mono_le 3 _ hlen _ _ _ this
      · simp only [hh, if_false]
        have hrest : fmtNat (sec / 60 % 60) ++ 109 :: (fmtNat (sec % 60) ++ fracText u 9 ++ [115]) =
            cM :: (csM ++ 109 :: (fmtNat (sec % 60) ++ fracText u 9 ++ [115])) := by rw [hcM]; simp
        have hu : unitOf ([104] ++ (fmtNat (sec / 60 % 60) ++ 109 :: (fmtNat (sec % 60) ++ fracText u 9 ++ [115]))) =
            some (3600000000000, fmtNat (sec / 60 % 60) ++ 109 :: (fmtNat (sec % 60) ++ fracText u 9 ++ [115])) := by
          simp [unitOf]
        have hs := terms_step0 3 (sec / 60 / 60) [104] _ 3600000000000 0 hu
          (by intro c hc; simp at hc; subst hc; decide) (by intro c hc; simp at hc; subst hc; decide)
        obtain ⟨cH, csH, hcH, _⟩ := fmtNat_head_digit (sec / 60 / 60)
        have e : fmtNat (sec / 60 / 60) ++ 104 :: (fmtNat (sec / 60 % 60) ++ 109 :: (fmtNat (sec % 60) ++ fracText u 9 ++ [115])) =
            fmtNat (sec / 60 / 60) ++ [104] ++ (fmtNat (sec / 60 % 60) ++ 109 :: (fmtNat (sec % 60) ++ fracText u 9 ++ [115])) := by
          simp
        have hne : ¬ (fmtNat (sec / 60 / 60) ++ 104 :: (fmtNat (sec / 60 % 60) ++ 109 :: (fmtNat (sec % 60) ++ fracText u 9 ++ [115])) = [48]) := by
          rw [hcH]; intro e; have := congrArg List.length e; simp at this
        have hne2 : (fmtNat (sec / 60 / 60) ++ 104 :: (fmtNat (sec / 60 % 60) ++ 109 :: (fmtNat (sec % 60) ++ fracText u 9 ++ [115]))).isEmpty = false := by
          rw [hcH]; rfl
        have hlen : 4 ≤ (fmtNat (sec / 60 / 60) ++ 104 :: (fmtNat (sec / 60 % 60) ++ 109 :: (fmtNat (sec % 60) ++ fracText u 9 ++ [115]))).length + 1 := by
          rw [hcH, hcM, hSeq]; simp; omega
        unfold magnitude
        simp only [hne, if_false, hne2, Bool.false_eq_true]
        have : terms 4 (fmtNat (sec / 60 / 60) ++ 104 :: (fmtNat (sec / 60 % 60) ++ 109 :: (fmtNat (sec % 60) ++ fracText u 9 ++ [115]))) 0 = some u := by
          rw [e, hs, hM 0]; congr 1; omega
        exact terms_mono_le 4 _ hlen _ _ _ this

theorem body_head_digit (u : Nat) : ∃ c cs, body u = c :: cs ∧ isDigit c = true := by
  unfold body
  split
  · exact ⟨48, [115], rfl, by decide⟩
  · split
    · split
      · obtain ⟨c, cs, hc, hd⟩ := fmtNat_head_digit u; exact ⟨c, _, by rw [hc]; rfl, hd⟩
      · split
        · obtain ⟨c, cs, hc, hd⟩ := fmtNat_head_digit (fmtFrac u 3).2; exact ⟨c, _, by rw [hc]; rfl, hd⟩
        · obtain ⟨c, cs, hc, hd⟩ := fmtNat_head_digit (fmtFrac u 6).2; exact ⟨c, _, by rw [hc]; rfl, hd⟩
    · simp only
      split
      · obtain ⟨c, cs, hc, hd⟩ := fmtNat_head_digit ((fmtFrac u 9).2 % 60); exact ⟨c, _, by rw [hc]; rfl, hd⟩
      · split
        · obtain ⟨c, cs, hc, hd⟩ := fmtNat_head_digit ((fmtFrac u 9).2 / 60 % 60); exact ⟨c, _, by rw [hc]; rfl, hd⟩
        · obtain ⟨c, cs, hc, hd⟩ := fmtNat_head_digit ((fmtFrac u 9).2 / 60 / 60); exact ⟨c, _, by rw [hc]; rfl, hd⟩

/-- **every duration is read back from the text ogen writes for it** (every `int64` number of nanoseconds, the
    minimum included) -/
theorem value_format (d : Int) (hlo : -9223372036854775808 ≤ d) (hhi : d < 9223372036854775808) :
    value (format d) = some d := by
  unfold format
  obtain ⟨c, cs, hb, hd⟩ := body_head_digit d.natAbs
  have h45 : c ≠ 45 := by intro e; subst e; simp [isDigit] at hd
  have h43 : c ≠ 43 := by intro e; subst e; simp [isDigit] at hd
  by_cases hneg : d < 0
  · have hr : fits true d.natAbs = true := by simp [fits]; omega
    simp only [hneg, if_true, value, magnitude_body, signed, hr]
    congr 1; omega
  · simp only [hneg, if_false]
    have : value (body d.natAbs) = signed false (magnitude (body d.natAbs)) := by
      rw [hb]
      unfold value
      split
      · rename_i r heq; cases heq; exact absurd rfl h45
      · rename_i r heq; cases heq; exact absurd rfl h43
      · rfl
    rw [this, magnitude_body]
    have hr : fits false d.natAbs = true := by simp [fits]; omega
    simp only [signed, hr, if_true, Bool.false_eq_true, if_false]
    congr 1; omega

/-- different durations have different texts -/
theorem format_injective (d₁ d₂ : Int) (h₁ : -9223372036854775808 ≤ d₁ ∧ d₁ < 9223372036854775808)
    (h₂ : -9223372036854775808 ≤ d₂ ∧ d₂ < 9223372036854775808) (h : format d₁ = format d₂) : d₁ = d₂ := by
  have a := value_format d₁ h₁.1 h₁.2
  have b := value_format d₂ h₂.1 h₂.2
  rw [h, b] at a
  exact (Option.some.inj a).symm

/-! line-protocol printers -/
def hexDigitC (n : UInt8) : Char := if n < 10 then Char.ofNat (48 + n.toNat) else Char.ofNat (87 + n.toNat)
def toHexS (bs : Str) : String := String.ofList (bs.flatMap fun b => [hexDigitC (b / 16), hexDigitC (b % 16)])
def hexValC (c : Char) : UInt8 := if c.isDigit then (c.toNat - 48).toUInt8 else (c.toNat - 87).toUInt8
def unhexS : List Char → Str
  | a :: b :: rest => (hexValC a * 16 + hexValC b) :: unhexS rest
  | _ => []

/-- `durfmt <int>` → the text as hex -/
def fmtLine (p : String) : String :=
  match p.toInt? with
  | some d => toHexS (format d)
  | none => "bad"

/-- `durval <hex text>` → `ok:<int>` or `err` -/
def valLine (p : String) : String :=
  match value (unhexS p.toList) with
  | some v => "ok:" ++ toString v
  | none => "err"

end DurT
