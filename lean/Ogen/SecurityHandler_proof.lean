import Ogen.SecurityMask_proof
/-! C09: the security block of a generated request handler (`handlers.tmpl`): schemes are evaluated in
    index order, an error of a scheme handler aborts with 401, an accepted scheme sets its bit in
    `satisfied`, and the handler runs iff some requirement's mask is covered. -/
namespace Sec

/-- what one `s.securityX(ctx, op, r)` call yields: no credentials in the request (`ok = false`),
    accepted, `ErrSkipServerSecurity`, or any other error -/
inductive Outcome where
  | absent | accepted | skipped | rejected
deriving DecidableEq, Repr

/-- the scheme loop; `none` = aborted by the first rejected scheme -/
def runSchemes : List Outcome → Nat → Bitset → Option Bitset
  | [], _, sat => some sat
  | o :: os, i, sat =>
    match o with
    | .rejected => none
    | .accepted => runSchemes os (i + 1) (set sat i)
    | _ => runSchemes os (i + 1) sat

inductive Decision where
  | handler | unauthorized
deriving DecidableEq, Repr

/-- the whole block; an operation without security schemes has no block at all -/
def secDecide (outcomes : List Outcome) (reqs : List (List Nat)) : Decision :=
  if outcomes.isEmpty then .handler else
  match runSchemes outcomes 0 [] with
  | none => .unauthorized
  | some sat => if authorized sat reqs then .handler else .unauthorized

theorem runSchemes_none (os : List Outcome) (i : Nat) (sat : Bitset) :
    runSchemes os i sat = none ↔ Outcome.rejected ∈ os := by
  induction os generalizing i sat with
  | nil => simp [runSchemes]
  | cons o os ih =>
    cases o <;> simp [runSchemes, ih]

/-- bit `j` of the result is set iff it was set before or scheme `j` was accepted -/
theorem runSchemes_test (os : List Outcome) : ∀ (i : Nat) (sat sat' : Bitset), runSchemes os i sat = some sat' →
    ∀ j, test sat' j = (test sat j || (decide (i ≤ j) && decide (os[j - i]? = some Outcome.accepted))) := by
  induction os with
  | nil => intro i sat sat' h j; simp [runSchemes] at h; subst h; simp
  | cons o os ih =>
    intro i sat sat' h j
    cases o with
    | rejected => simp [runSchemes] at h
    | accepted =>
      simp only [runSchemes] at h
      rw [ih (i + 1) _ _ h j, test_set]
      by_cases hji : j = i
      · subst hji; simp
      · by_cases hle : i ≤ j
        · have h1 : i + 1 ≤ j := by omega
          have h2 : j - i = (j - (i + 1)) + 1 := by omega
          simp [hji, hle, h1, h2]
        · have h1 : ¬ (i + 1 ≤ j) := by omega
          simp [hji, hle, h1]
    | absent =>
      simp only [runSchemes] at h
      rw [ih (i + 1) _ _ h j]
      by_cases hji : j = i
      · subst hji; simp; intro h; omega
      · by_cases hle : i ≤ j
        · have h1 : i + 1 ≤ j := by omega
          have h2 : j - i = (j - (i + 1)) + 1 := by omega
          simp [hle, h1, h2]
        · have h1 : ¬ (i + 1 ≤ j) := by omega
          simp [hle, h1]
    | skipped =>
      simp only [runSchemes] at h
      rw [ih (i + 1) _ _ h j]
      by_cases hji : j = i
      · subst hji; simp; intro h; omega
      · by_cases hle : i ≤ j
        · have h1 : i + 1 ≤ j := by omega
          have h2 : j - i = (j - (i + 1)) + 1 := by omega
          simp [hle, h1, h2]
        · have h1 : ¬ (i + 1 ≤ j) := by omega
          simp [hle, h1]

theorem test_nil (j : Nat) : test [] j = false := by simp [test]

/-- after the loop, `satisfied` has exactly the bits of the accepted schemes -/
theorem satisfied_iff (os : List Outcome) (sat : Bitset) (h : runSchemes os 0 [] = some sat) (j : Nat) :
    test sat j = true ↔ os[j]? = some Outcome.accepted := by
  rw [runSchemes_test os 0 [] sat h j, test_nil]
  simp

/-- an alternative is satisfied: every scheme it names was accepted -/
def AltAccepted (os : List Outcome) (r : List Nat) : Prop := ∀ i ∈ r, os[i]? = some Outcome.accepted

/-- **safety, full strength**: the handler runs only if the operation has no security at all, or some
    alternative is fully accepted (and no scheme handler returned an error) -/
theorem handler_only_if (os : List Outcome) (reqs : List (List Nat)) (h : secDecide os reqs = .handler) :
    os = [] ∨ (Outcome.rejected ∉ os ∧ ∃ r ∈ reqs, AltAccepted os r) := by
  unfold secDecide at h
  split at h
  · left; simpa using ‹os.isEmpty = true›
  · right
    cases hr : runSchemes os 0 [] with
    | none => simp [hr] at h
    | some sat =>
      simp only [hr] at h
      have hnr : Outcome.rejected ∉ os := by
        intro hm
        have := (runSchemes_none os 0 []).mpr hm
        rw [hr] at this; cases this
      refine ⟨hnr, ?_⟩
      split at h
      · rename_i ha
        obtain ⟨r, hrm, hcov⟩ := (authorized_iff sat reqs).mp ha
        exact ⟨r, hrm, fun i hi => (satisfied_iff os sat hr i).mp (hcov i hi)⟩
      · cases h

/-- **liveness, partial**: if no scheme handler returns an error, a fully accepted alternative is enough.
    Full statement (without `hnr`) is false: `k2_witness`. -/
theorem handler_if_partial (os : List Outcome) (reqs : List (List Nat)) (hnr : Outcome.rejected ∉ os)
    (h : ∃ r ∈ reqs, AltAccepted os r) : secDecide os reqs = .handler := by
  unfold secDecide
  split
  · rfl
  · cases hr : runSchemes os 0 [] with
    | none => exact absurd ((runSchemes_none os 0 []).mp hr) hnr
    | some sat =>
      simp only
      obtain ⟨r, hrm, hacc⟩ := h
      have : authorized sat reqs = true :=
        (authorized_iff sat reqs).mpr ⟨r, hrm, fun i hi => (satisfied_iff os sat hr i).mpr (hacc i hi)⟩
      simp [this]

/-- otherwise the answer is 401 -/
theorem else_unauthorized (os : List Outcome) (reqs : List (List Nat)) (hne : os ≠ [])
    (h : Outcome.rejected ∈ os ∨ ¬ ∃ r ∈ reqs, AltAccepted os r) : secDecide os reqs = .unauthorized := by
  cases hd : secDecide os reqs with
  | unauthorized => rfl
  | handler =>
    rcases handler_only_if os reqs hd with h0 | ⟨hnr, hex⟩
    · exact absurd h0 hne
    · rcases h with h | h
      · exact absurd h hnr
      · exact absurd hex h

/-- the anonymous alternative `{}` is always satisfied (when no scheme handler errors) -/
theorem anonymous (os : List Outcome) (reqs : List (List Nat)) (hnr : Outcome.rejected ∉ os) (h : [] ∈ reqs) :
    secDecide os reqs = .handler :=
  handler_if_partial os reqs hnr ⟨[], h, fun _ hi => by cases hi⟩

/-- K2: `[S0] ∨ [S1]`, S0 rejected with an error, S1 accepted ⇒ 401 although an alternative is satisfied -/
theorem k2_witness : secDecide [.rejected, .accepted] [[0], [1]] = .unauthorized ∧ AltAccepted [.rejected, .accepted] [1] := by
  refine ⟨by decide, ?_⟩
  intro i hi
  simp at hi; subst hi; rfl
/-- K2, anonymous variant: `{} ∨ [S0]` with S0 rejected ⇒ 401 -/
theorem k2_witness_anonymous : secDecide [.rejected] [[], [0]] = .unauthorized := by decide

/-- non-vacuity: nine schemes, requirement `[S1 ∧ S8]` across the byte boundary -/
example : secDecide [.absent, .accepted, .absent, .absent, .absent, .absent, .absent, .absent, .accepted] [[0], [1, 8]] = .handler :=
  handler_if_partial _ _ (by decide) ⟨[1, 8], by simp, by
    intro i hi
    simp at hi
    rcases hi with rfl | rfl <;> rfl⟩
example : secDecide [.absent, .accepted, .absent, .absent, .absent, .absent, .absent, .absent, .skipped] [[0], [1, 8]] = .unauthorized :=
  else_unauthorized _ _ (by simp) (Or.inr (by
    rintro ⟨r, hr, ha⟩
    simp at hr
    rcases hr with rfl | rfl
    · have := ha 0 (by simp); simp at this
    · have := ha 8 (by simp); simp at this))

#print axioms handler_only_if
#print axioms handler_if_partial

/-! line protocol: `sec <outcomes a|c|s|r…> <reqs: i.j.k;…>` (`-` for none) -/
def parseOutcomes (s : String) : List Outcome :=
  if s == "-" then [] else s.toList.map fun c => match c with | 'c' => .accepted | 's' => .skipped | 'r' => .rejected | _ => .absent
def parseReqs (s : String) : List (List Nat) :=
  if s == "-" then [] else (s.splitOn ";").map fun r => if r == "e" then [] else (r.splitOn ".").map String.toNat!
def secLine (line : String) : String :=
  match (line.splitOn " ").filter (· ≠ "") with
  | [o, r] => match secDecide (parseOutcomes o) (parseReqs r) with | .handler => "handler" | .unauthorized => "401"
  | _ => "bad"
/-- `bitset <i.j.k>`: bitset.Build of the index list, bytes in hex -/
def bitsetLine (line : String) : String :=
  let idxs := if line.trimAscii.toString == "-" then [] else (line.trimAscii.toString.splitOn ".").map String.toNat!
  let bs := maskOf idxs
  let hd (n : UInt8) : Char := if n < 10 then Char.ofNat (48 + n.toNat) else Char.ofNat (87 + n.toNat)
  String.ofList (bs.flatMap fun b => [hd (b / 16), hd (b % 16)])
end Sec
