/-!
# `ir.splitLine` — the line breaker of generated doc comments (gen/ir/description.go): model, totality, what it
keeps (C11: the generator never loops; C02: what is copied into comments)

The Go loop works on bytes of a trimmed line: while the rest is at least `limit` bytes long it looks for the last
break character (white space, `.`, `,`, `;`) among the first `limit-1` bytes; none, or only the very last byte of the
rest ⇒ the rest is emitted as it is; a white-space break is dropped, a punctuation break stays at the end of the
emitted line.  The model is byte-level; white space is ASCII white space (texts with U+0085, U+00A0, U+2000… as
break characters are outside it — the correspondence sends none).

* the definition is accepted by Lean as a total function: **the loop terminates on every input**, the measure is
  the length of the rest (each round removes at least one byte);
* `split_keeps_nonspace`: the emitted lines, concatenated, are the input with some white space removed — no other
  byte is lost, added or moved;
* `split_cut_lines_short`: every line produced by a cut has at most `limit-1` bytes.
-/
namespace DocLines

abbrev Str := List UInt8

def isSp (c : UInt8) : Bool := c == 32 || (9 ≤ c && c ≤ 13)
def isBreak (c : UInt8) : Bool := isSp c || c == 46 || c == 44 || c == 59

/-- scan from the front, remembering the index of the last break byte seen -/
def lastBreakGo : Str → Nat → Option Nat → Option Nat
  | [], _, acc => acc
  | c :: cs, i, acc => lastBreakGo cs (i + 1) (if isBreak c then some i else acc)

/-- `strings.LastIndexFunc(s[:n], isBreak)` -/
def lastBreak (s : Str) (n : Nat) : Option Nat := lastBreakGo (s.take n) 0 none

theorem lastBreakGo_spec (cs : Str) (i : Nat) (acc : Option Nat) (idx : Nat)
    (h : lastBreakGo cs i acc = some idx) : acc = some idx ∨ (i ≤ idx ∧ idx < i + cs.length) := by
  induction cs generalizing i acc with
  | nil => left; simpa [lastBreakGo] using h
  | cons c cs ih =>
    rw [lastBreakGo] at h
    rcases ih _ _ h with h1 | h1
    · split at h1
      · right; cases h1; simp
      · left; exact h1
    · right; simp; omega

theorem lastBreak_lt (s : Str) (n idx : Nat) (h : lastBreak s n = some idx) : idx < s.length ∧ idx < n := by
  unfold lastBreak at h
  rcases lastBreakGo_spec _ _ _ _ h with h1 | h1
  · cases h1
  · have : (s.take n).length ≤ s.length ∧ (s.take n).length ≤ n := by simp [List.length_take]; omega
    omega

/-- the loop of `splitLine` -/
def splitLoop (limit : Nat) (s : Str) : List Str :=
  if s.length < limit then [s]
  else
    match h : lastBreak s (limit - 1) with
    | none => [s]
    | some idx =>
      if s.length - 1 = idx then [s]
      else if isSp (s.getD idx 0) then s.take idx :: splitLoop limit (s.drop (idx + 1))
      else s.take (idx + 1) :: splitLoop limit (s.drop (idx + 1))
termination_by s.length
decreasing_by
  all_goals
    have := lastBreak_lt s (limit - 1) idx h
    simp [List.length_drop]
    omega

def trimLeft : Str → Str
  | c :: cs => if isSp c then trimLeft cs else c :: cs
  | [] => []

/-- `strings.TrimSpace` (ASCII white space) -/
def trim (s : Str) : Str := (trimLeft (trimLeft s).reverse).reverse

/-- `splitLine(s, limit)` -/
def splitLine (limit : Nat) (s : Str) : List Str :=
  let t := trim s
  if t.isEmpty then [] else splitLoop limit t

def nonSp (s : Str) : Str := s.filter (fun c => !isSp c)

theorem take_getD_drop (s : Str) (idx : Nat) (h : idx < s.length) :
    s = s.take idx ++ s.getD idx 0 :: s.drop (idx + 1) := by
  induction s generalizing idx with
  | nil => simp at h
  | cons c cs ih =>
    cases idx with
    | zero => simp
    | succ k =>
      simp at h
      have := ih k h
      simp only [List.take_succ_cons, List.drop_succ_cons, List.cons_append, List.getD_cons_succ]
      rw [← this]

/-- **no byte other than white space is lost, added or moved** by the loop -/
theorem loop_keeps_nonspace (limit : Nat) (s : Str) : nonSp (splitLoop limit s).flatten = nonSp s := by
  fun_induction splitLoop limit s with
  | case1 s h => simp
  | case2 s h hb => simp
  | case3 s h hb => simp
  | case4 s h idx hb hl hsp ih =>
    have hlt := (lastBreak_lt s _ idx hb).1
    have hs := take_getD_drop s idx hlt
    simp only [List.flatten_cons, nonSp, List.filter_append] at ih ⊢
    conv => rhs; rw [hs]
    simp only [List.filter_append, List.filter_cons, hsp]
    simp [nonSp] at ih
    simp [ih]
  | case5 s h idx hb hl hsp ih =>
    have hlt := (lastBreak_lt s _ idx hb).1
    have hs : s = s.take (idx + 1) ++ s.drop (idx + 1) := (List.take_append_drop _ _).symm
    simp only [List.flatten_cons, nonSp, List.filter_append] at ih ⊢
    conv => rhs; rw [hs]
    simp only [List.filter_append]
    simp [nonSp] at ih
    simp [ih]

theorem nonSp_trimLeft (s : Str) : nonSp (trimLeft s) = nonSp s := by
  induction s with
  | nil => rfl
  | cons c cs ih =>
    simp only [trimLeft]
    split
    · rename_i h; simp [nonSp, h] at ih ⊢; exact ih
    · rfl

theorem nonSp_reverse (s : Str) : nonSp s.reverse = (nonSp s).reverse := by
  simp [nonSp, List.filter_reverse]

theorem nonSp_trim (s : Str) : nonSp (trim s) = nonSp s := by
  simp [trim, nonSp_reverse, nonSp_trimLeft]

/-- **`splitLine` keeps every non-white-space byte, in order** -/
theorem split_keeps_nonspace (limit : Nat) (s : Str) : nonSp (splitLine limit s).flatten = nonSp s := by
  unfold splitLine
  simp only
  split
  · rename_i h
    have : trim s = [] := by simpa using h
    rw [← nonSp_trim s, this]; rfl
  · rw [loop_keeps_nonspace, nonSp_trim]

/-- a line that a cut produced — every line but the last — has at most `limit - 1` bytes -/
theorem loop_cut_lines_short (limit : Nat) (s : Str) :
    ∀ l ∈ (splitLoop limit s).dropLast, l.length ≤ limit - 1 := by
  fun_induction splitLoop limit s with
  | case1 s h => simp
  | case2 s h hb => simp
  | case3 s h hb => simp
  | case4 s h idx hb hl hsp ih =>
    have hlt := lastBreak_lt s _ idx hb
    intro l hl'
    cases hr : splitLoop limit (s.drop (idx + 1)) with
    | nil => simp [hr] at hl'
    | cons x xs =>
      rw [hr] at hl' ih
      simp only [List.dropLast_cons_cons, List.mem_cons] at hl'
      rcases hl' with e | e
      · subst e; simp [List.length_take]; omega
      · exact ih l e
  | case5 s h idx hb hl hsp ih =>
    have hlt := lastBreak_lt s _ idx hb
    intro l hl'
    cases hr : splitLoop limit (s.drop (idx + 1)) with
    | nil => simp [hr] at hl'
    | cons x xs =>
      rw [hr] at hl' ih
      simp only [List.dropLast_cons_cons, List.mem_cons] at hl'
      rcases hl' with e | e
      · subst e; simp [List.length_take]; omega
      · exact ih l e

theorem loop_nonempty (limit : Nat) (s : Str) : splitLoop limit s ≠ [] := by
  fun_induction splitLoop limit s <;> simp

/-! line-protocol printer: `docsplit <limit> <hex>` → lines as hex, `|`-separated (`-` = empty line, `_` = none) -/
def hexValC (c : Char) : UInt8 := if c.isDigit then (c.toNat - 48).toUInt8 else (c.toNat - 87).toUInt8
def unhexS : List Char → Str
  | a :: b :: rest => (hexValC a * 16 + hexValC b) :: unhexS rest
  | _ => []
def hexDigitC (n : UInt8) : Char := if n < 10 then Char.ofNat (48 + n.toNat) else Char.ofNat (87 + n.toNat)
def toHexS (bs : Str) : String := if bs.isEmpty then "-" else String.ofList (bs.flatMap fun b => [hexDigitC (b / 16), hexDigitC (b % 16)])

def splitLineLine (p : String) : String :=
  match p.splitOn " " with
  | [lim, hx] =>
    let s := if hx == "-" then [] else unhexS hx.toList
    let r := splitLine lim.toNat! s
    if r.isEmpty then "_" else "|".intercalate (r.map toHexS)
  | _ => "bad"

end DocLines
