import Ogen.JsonCodec_proof
/-! C03 end to end on the codec fragment: the generated server's verdict on a JSON body (decode, then `Validate()`)
    is validity against the schema, keywords included. -/
set_option linter.constructorNameAsVariable false
namespace JCodec
open JEqG

/-- the state a field ends in, told from the document: absent ↦ `omitted`, else what its member decodes to -/
def fieldState (kvs : List (String × Json)) (f : Field) : Val :=
  match lookupJ kvs f.1 with
  | none => initState f
  | some jv => (memberOf f.2.2.1 jv (decode f.2.2.2 jv)).getD .omitted

theorem lookupJ_append_single (done : List (String × Json)) (k : String) (jv : Json) (n : String) :
    lookupJ (done ++ [(k, jv)]) n = match lookupJ done n with
      | some x => some x
      | none => if k == n then some jv else none := by
  induction done with
  | nil => simp [lookupJ]
  | cons m done ih =>
    obtain ⟨k', v'⟩ := m
    simp only [List.cons_append, lookupJ]
    split
    · rfl
    · exact ih

theorem fieldState_skip (done : List (String × Json)) (k : String) (jv : Json) (f : Field) (h : f.1 ≠ k) :
    fieldState (done ++ [(k, jv)]) f = fieldState done f := by
  unfold fieldState
  rw [lookupJ_append_single]
  cases lookupJ done f.1 with
  | some x => rfl
  | none =>
    have : (k == f.1) = false := by simpa using fun e => h e.symm
    simp [this]

theorem map_fieldState_skip (done : List (String × Json)) (k : String) (jv : Json) : ∀ (fs : List Field),
    k ∉ names fs → fs.map (fieldState (done ++ [(k, jv)])) = fs.map (fieldState done)
  | [], _ => rfl
  | f :: fs, h => by
    simp only [names, List.map_cons, List.mem_cons, not_or] at h
    simp only [List.map_cons]
    rw [fieldState_skip done k jv f (fun e => h.1 e.symm), map_fieldState_skip done k jv fs (by simpa [names] using h.2)]

theorem map_fieldState_set (done : List (String × Json)) (k : String) (jv : Json) (v : Val) (hd : lookupJ done k = none) :
    ∀ (fs : List Field) (i0 i : Nat) (nul : Bool) (t : Ty), findIdx fs k i0 = some (i, nul, t) → (names fs).Nodup →
    memberOf nul jv (decode t jv) = some v →
    (fs.map (fieldState done)).set (i - i0) v = fs.map (fieldState (done ++ [(k, jv)]))
  | [], _, _, _, _, h, _, _ => by simp [findIdx] at h
  | (n, req, nul', t') :: fs, i0, i, nul, t, hf, hn, hv => by
    simp only [findIdx] at hf
    simp only [names, List.map_cons, List.nodup_cons] at hn
    split at hf
    · rename_i heq
      have heq : n = k := by simpa using heq
      cases hf
      subst heq
      simp only [Nat.sub_self, List.map_cons, List.set_cons_zero]
      rw [map_fieldState_skip done n jv fs (by simpa [names] using hn.1)]
      congr 1
      unfold fieldState
      rw [lookupJ_append_single, hd]
      simp [hv]
    · rename_i hne
      have hne' : n ≠ k := fun e => hne (by simp [e])
      have hge := pwt_set.findIdx_ge fs k (i0 + 1) i nul t hf
      have e : i - i0 = (i - (i0 + 1)) + 1 := by omega
      rw [e]
      simp only [List.map_cons, List.set_cons_succ]
      rw [fieldState_skip done k jv (n, req, nul', t') hne',
        map_fieldState_set done k jv v hd fs (i0 + 1) i nul t hf (by simpa [names] using hn.2) hv]

theorem lookupJ_none_of_not_mem : ∀ (kvs : List (String × Json)) (k : String), k ∉ keys kvs → lookupJ kvs k = none
  | [], _, _ => rfl
  | (k', v') :: r, k, h => by
    simp only [keys, List.map_cons, List.mem_cons, not_or] at h
    have : (k' == k) = false := by simpa using fun e => h.1 e.symm
    simp [lookupJ, this, lookupJ_none_of_not_mem r k (by simpa [keys] using h.2)]

/-- **the streaming loop computes the declarative decoder**: after all members, every field holds what its own
    member (looked up by name) decodes to, or `omitted` -/
theorem decodeMembers_spec (closed : Bool) (fs : List Field) (hn : (names fs).Nodup) : ∀ (rest done : List (String × Json)) (st' : List Val),
    (keys (done ++ rest)).Nodup → decodeMembers closed fs (fs.map (fieldState done)) rest = some st' →
    st' = fs.map (fieldState (done ++ rest))
  | [], done, st', _, h => by simp [decodeMembers] at h; simp [← h]
  | (k, jv) :: rest, done, st', hk, h => by
    have hk' : (keys ((done ++ [(k, jv)]) ++ rest)).Nodup := by simpa [List.append_assoc] using hk
    have hnot : k ∉ keys done := by
      simp only [keys, List.map_append, List.map_cons] at hk
      have := (List.nodup_append.mp hk).2.2
      intro hmem
      exact this k (by simpa [keys] using hmem) k (List.mem_cons_self ..) rfl
    simp only [decodeMembers] at h
    split at h
    · rename_i hf
      split at h
      · cases h
      · rw [← map_fieldState_skip done k jv fs (findIdx_none fs k 0 hf)] at h
        have := decodeMembers_spec closed fs hn rest (done ++ [(k, jv)]) st' hk' h
        simpa [List.append_assoc] using this
    · rename_i i nul t hf
      split at h
      · cases h
      · rename_i v hv
        have hset := map_fieldState_set done k jv v (lookupJ_none_of_not_mem done k hnot) fs 0 i nul t hf hn hv
        simp only [Nat.sub_zero] at hset
        rw [hset] at h
        have := decodeMembers_spec closed fs hn rest (done ++ [(k, jv)]) st' hk' h
        simpa [List.append_assoc] using this

theorem decode_obj_spec (closed : Bool) (fs : List Field) (kvs : List (String × Json)) (st : List Val) (hn : (names fs).Nodup)
    (hk : (keys kvs).Nodup) (h : decode (.obj closed fs) (.obj kvs) = some (.obj st)) : st = fs.map (fieldState kvs) := by
  simp only [decode] at h
  split at h
  · rename_i st0 hst
    split at h
    · cases h
      have hinit : fs.map initState = fs.map (fieldState []) := by
        apply List.map_congr_left; intro f _; simp [fieldState, lookupJ]
      rw [hinit] at hst
      simpa using decodeMembers_spec closed fs hn kvs [] st (by simpa using hk) hst
    · cases h
  · cases h

theorem decodeItems_length (nul : Bool) (t : Ty) : ∀ (xs : List Json) (vs : List Val), decodeItems nul t xs = some vs →
    vs.length = xs.length
  | [], vs, h => by simp [decodeItems] at h; subst h; rfl
  | x :: xs, vs, h => by
    simp only [decodeItems] at h
    split at h
    · rename_i v vs' _ hvs
      cases h
      simp [decodeItems_length nul t xs vs' hvs]
    · cases h

/-- **an absent member that has a schema default arrives as that default** (and a present one as what it decodes
    to): the states of a decoded object, field by field -/
theorem decoded_fields (closed : Bool) (fs : List Field) (kvs : List (String × Json)) (st : List Val)
    (hn : (names fs).Nodup) (hk : (keys kvs).Nodup) (h : decode (.obj closed fs) (.obj kvs) = some (.obj st)) :
    st = fs.map (fieldState kvs) := decode_obj_spec closed fs kvs st hn hk h
theorem fieldState_absent_default (kvs : List (String × Json)) (n : String) (d : Val) (nul : Bool) (t : Ty)
    (h : lookupJ kvs n = none) : fieldState kvs (n, .dflt d, nul, t) = d := by
  simp [fieldState, h, initState, Pres.init]
theorem fieldState_absent_optional (kvs : List (String × Json)) (n : String) (nul : Bool) (t : Ty)
    (h : lookupJ kvs n = none) : fieldState kvs (n, .opt, nul, t) = .omitted := by
  simp [fieldState, h, initState, Pres.init]
theorem fieldState_present (kvs : List (String × Json)) (n : String) (p : Pres) (nul : Bool) (t : Ty) (jv : Json) (v : Val)
    (h : lookupJ kvs n = some jv) (hv : memberOf nul jv (decode t jv) = some v) : fieldState kvs (n, p, nul, t) = v := by
  simp [fieldState, h, hv]

theorem validate_omitted (t : Ty) : validate t .omitted = true := by cases t <;> simp [validate]
theorem validate_null (t : Ty) : validate t .null = true := by cases t <;> simp [validate]
theorem constr_null (t : Ty) : Constr t .null := by cases t <;> simp [Constr]

/-- object case, given the statement for every member value -/
theorem validate_obj (closed : Bool) (fs : List Field) (kvs : List (String × Json)) (hn : (names fs).Nodup) (hw : Ty.WF.WFs fs)
    (ha : AcceptM closed fs kvs)
    (ih : ∀ k jv, (k, jv) ∈ kvs → ∀ (t : Ty) (v : Val), t.WF → decode t jv = some v → (validate t v = true ↔ Constr t jv)) :
    ∀ (fs' : List Field), (∀ f ∈ fs', f ∈ fs) →
      (validateFields fs' (fs'.map (fieldState kvs)) = true ↔ ConstrFields fs' kvs)
  | [], _ => by simp [validateFields, ConstrFields]
  | (n, req, nul, t) :: fs', hsub => by
    have hmem : (n, req, nul, t) ∈ fs := hsub _ (List.mem_cons_self ..)
    have hrest := validate_obj closed fs kvs hn hw ha ih fs' (fun f hf => hsub f (List.mem_cons_of_mem _ hf))
    simp only [List.map_cons, validateFields, ConstrFields, Bool.and_eq_true, hrest]
    apply and_congr_left'
    unfold fieldState
    cases hl : lookupJ kvs n with
    | none =>
      simp only [iff_true]
      cases hr : req with
      | req => simp [initState, Pres.init, validate_omitted]
      | opt => simp [initState, Pres.init, validate_omitted]
      | dflt d =>
        have := (wfs_mem_dflt fs _ d hw hmem (by simpa using hr)).2
        simpa [initState, Pres.init] using this
    | some jv =>
      simp only
      have hm := lookupJ_mem hl
      obtain ⟨i, hi⟩ := findIdx_mem fs n req nul t 0 hn hmem
      have hsome := ha.1 n jv hm i nul t hi
      cases hv : memberOf nul jv (decode t jv) with
      | none => rw [hv] at hsome; cases hsome
      | some v =>
        simp only [Option.getD_some]
        cases jv with
        | null =>
          simp only [memberOf] at hv
          split at hv
          · cases hv; simp [validate_null, constr_null]
          · cases hv
        | bool _ | str _ | num _ | arr _ | obj _ =>
          simp only [memberOf] at hv
          exact ih n _ hm t v (wfs_mem fs _ hw hmem) hv

theorem acceptM_of_decode (closed : Bool) (fs : List Field) (kvs : List (String × Json)) (v : Val) (h : decode (.obj closed fs) (.obj kvs) = some v) :
    AcceptM closed fs kvs := by
  simp only [decode] at h
  split at h
  · rename_i st hst
    exact (decodeMembers_isSome closed fs kvs _).mp (by rw [hst]; rfl)
  · cases h

mutual
/-- **`Validate()` on the decoded value is the keywords on the document** -/
theorem validate_iff : ∀ (j : Json) (t : Ty) (v : Val), t.WF → UniqueKeys j → decode t j = some v →
    (validate t v = true ↔ Constr t j)
  | .null, t, v, _, _, h => by cases t <;> simp [decode] at h
  | .bool b, t, v, _, _, h => by cases t <;> simp [decode] at h; subst h; simp [validate, Constr]
  | .str s, t, v, _, _, h => by cases t <;> simp [decode] at h; subst h; simp [validate, Constr]
  | .num (.int n), t, v, _, _, h => by
    cases t <;> simp [decode] at h
    obtain ⟨_, rfl⟩ := h
    simp [validate, Constr]
  | .num .frac, t, v, _, _, h => by cases t <;> simp [decode] at h
  | .arr xs, t, v, hw, hu, h => by
    cases t with
    | arr c nul t =>
      simp only [decode, Option.map_eq_some_iff] at h
      obtain ⟨vs, hvs, rfl⟩ := h
      simp only [Ty.WF] at hw
      simp only [UniqueKeys] at hu
      have hlen : vs.length = xs.length := decodeItems_length nul t xs vs hvs
      simp only [validate, Constr, Bool.and_eq_true, hlen]
      exact and_congr_right' (validate_items xs nul t vs hw hu hvs)
    | int _ | str _ | bool | obj _ _ => simp [decode] at h
  | .obj kvs, t, v, hw, hu, h => by
    cases t with
    | obj closed fs =>
      simp only [Ty.WF] at hw
      simp only [UniqueKeys] at hu
      have hwt := decode_wt _ _ _ (by simpa [Ty.WF] using hw) h
      cases v with
      | obj st =>
        have hst := decode_obj_spec closed fs kvs st hw.1 (by simpa [keys] using hu.1) h
        subst hst
        simp only [validate, Constr]
        exact validate_obj closed fs kvs hw.1 hw.2 (acceptM_of_decode closed fs kvs _ h) (validate_members kvs hu.2) fs (fun f hf => hf)
      | omitted | null | int _ | str _ | bool _ | arr _ => simp [WT] at hwt
    | int _ | str _ | bool | arr _ _ _ => simp [decode] at h
theorem validate_items : ∀ (xs : List Json) (nul : Bool) (t : Ty) (vs : List Val), t.WF → UniqueKeysL xs →
    decodeItems nul t xs = some vs → (validateItems t vs = true ↔ ∀ x ∈ xs, Constr t x)
  | [], _, _, vs, _, _, h => by simp [decodeItems] at h; subst h; simp [validateItems]
  | x :: xs, nul, t, vs, hw, hu, h => by
    simp only [UniqueKeysL] at hu
    simp only [decodeItems] at h
    split at h
    · rename_i v vs' hv hvs
      cases h
      simp only [validateItems, Bool.and_eq_true, List.mem_cons, forall_eq_or_imp,
        validate_items xs nul t vs' hw hu.2 hvs]
      apply and_congr_left'
      cases x with
      | null =>
        simp only [memberOf] at hv
        split at hv
        · cases hv; simp [validate_null, constr_null]
        · cases hv
      | bool _ | str _ | num _ | arr _ | obj _ =>
        simp only [memberOf] at hv
        exact validate_iff _ t v hw hu.1 hv
    · cases h
theorem validate_members : ∀ (kvs : List (String × Json)), UniqueKeysM kvs →
    ∀ k jv, (k, jv) ∈ kvs → ∀ (t : Ty) (v : Val), t.WF → decode t jv = some v → (validate t v = true ↔ Constr t jv)
  | [], _, _, _, h, _, _, _, _ => by cases h
  | (k', v') :: r, hu, k, jv, h, t, v, hw, hd => by
    simp only [UniqueKeysM] at hu
    rcases List.mem_cons.mp h with e | h
    · have e1 : jv = v' := by cases e; rfl
      subst e1
      exact validate_iff jv t v hw hu.1 hd
    · exact validate_members r hu.2 k jv h t v hw hd
end

/-- **the server's verdict is validity against the schema** (type, required, nullable, bounds, multipleOf, lengths,
    item counts; undeclared members free), for every schema of the fragment and every document with unique names -/
theorem accept_iff_schemaValid (t : Ty) (j : Json) (hw : t.WF) (hu : UniqueKeys j) :
    accept t j = true ↔ SchemaValid t j := by
  unfold accept SchemaValid
  cases hd : decode t j with
  | none =>
    have : ¬ Valid t j := fun hv => by
      have := (accept_iff j t hw hu).mpr hv
      rw [hd] at this; cases this
    simp [this]
  | some v =>
    have hv : Valid t j := (accept_iff j t hw hu).mp (by rw [hd]; rfl)
    simp only [hv, true_and]
    exact validate_iff j t v hw hu hd

/-! non-vacuity -/
def exK : Ty := .obj false [("n", .req, false, .int { min := some 0, max := some 10, exMax := true, mult := some 2 }),
  ("s", .opt, true, .str { min := 1, max := some 3 }), ("xs", .opt, false, .arr { max := some 2 } true (.int { min := some 1 }))]
example : accept exK (.obj [("s", .str "日本"), ("n", .num 8), ("zz", .null), ("xs", .arr [.null, .num 1])]) = true := by rfl
example : accept exK (.obj [("n", .num 10)]) = false := by rfl          -- exclusive maximum
example : accept exK (.obj [("n", .num 3)]) = false := by rfl           -- multipleOf
example : accept exK (.obj [("n", .num 2), ("s", .str "")]) = false := by rfl   -- minLength
example : accept exK (.obj [("n", .num 2), ("s", .null), ("xs", .arr [.num 1, .num 2, .num 3])]) = false := by rfl  -- maxItems
example : accept exK (.obj [("n", .num 2), ("xs", .arr [.num 0])]) = false := by rfl   -- item minimum
end JCodec
#print axioms JCodec.accept_iff_schemaValid
namespace JCodec
/-! closed objects, the integer range and fraction literals -/
def exC : Ty := .obj true [("n", .req, false, .int {})]
example : accept exC (.obj [("n", .num 1)]) = true := by rfl
example : accept exC (.obj [("n", .num 1), ("zz", .null)]) = false := by rfl                  -- undeclared member, closed
example : accept exC (.obj [("n", .num .frac)]) = false := by rfl                              -- 1.0 is no integer literal
example : accept exC (.obj [("n", .num (.int 9223372036854775808))]) = false := by rfl          -- beyond 64 bits
example : accept exC (.obj [("n", .num (.int (-9223372036854775808)))]) = true := by rfl
end JCodec
