import Ogen.RouterLookupLib
/-! Line-protocol driver for C05 on top of the proved tree/matcher model (`Tree.insert`, `Tree.edge`).
    `rset M1 /t1 M2 /t2 …` builds the tree by successive insertion (refused insertions are reported
    and skipped, as the harness does with `gen.Router.Add`), prints its dump and keeps it as the
    current tree; `rfind <METHOD> <hex path>` looks a path up in the current tree. -/
namespace Tree

def strOf (b : Bytes) : String := String.ofList (b.map (fun c => Char.ofNat c.toNat))
def bytesOf (s : String) : Bytes := s.toList.map (fun c => c.toNat.toUInt8)

partial def dump (level : Nat) (n : Node) : String :=
  let rs := ",".intercalate (n.routes.map (fun r => r.method ++ ":" ++ r.path))
  let pn := match n.paramName with | some x => strOf x | none => ""
  s!"{level}[\"{strOf n.pfx}\",\"{pn}\",{rs}]" ++ String.join (n.children.map (dump (level + 1)))

def emptyRootD : Node := .mk [] 0 none [] []

def setLine (line : String) : Node × String := Id.run do
  let f := (line.splitOn " ").filter (· ≠ "")
  let mut root : Node := emptyRootD
  let mut errs := ""
  let mut i := 0
  let mut any := false
  while 2 * i + 1 < f.length do
    let m := f[2*i]!
    let p := f[2*i+1]!
    match insert 1000 root (bytesOf p) ⟨m, p⟩ with
    | .ok r => root := r; any := true
    | .error _ => errs := errs ++ s!"ERR({i});"
    i := i + 1
  return (root, errs ++ (if any then dump 0 root else ""))

def hexValR (c : Char) : UInt8 := if c.isDigit then (c.toNat - 48).toUInt8 else (c.toNat - 87).toUInt8
def parseHexR : List Char → Bytes
  | a :: b :: rest => (hexValR a * 16 + hexValR b) :: parseHexR rest
  | _ => []
def toHexR (bs : Bytes) : String :=
  let hd (n : UInt8) : Char := if n < 10 then Char.ofNat (48 + n.toNat) else Char.ofNat (87 + n.toNat)
  String.ofList (bs.flatMap fun b => [hd (b / 16), hd (b % 16)])

/-- what `ServeHTTP`/`FindPath` answer for `method path`: the matched template and its arguments, 405
    with the node's method list, or 404 -/
def findLine (root : Node) (line : String) : String :=
  match (line.splitOn " ").filter (· ≠ "") with
  | [method, h] =>
    let path := parseHexR h.toList
    if path.isEmpty then "404" else
    match edge 4000 root path with
    | none => "404"
    | some (routes, args) =>
      match routes.find? (fun r => r.method == method) with
      | some r => "ok " ++ r.path ++ " " ++ ",".intercalate (args.map toHexR)
      | none => if routes.isEmpty then "404" else "405 " ++ ",".intercalate (routes.map (·.method))
  | [_method] => "404"
  | _ => "bad"
end Tree
