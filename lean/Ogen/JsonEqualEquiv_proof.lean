import Ogen.JsonEqualStruct_proof
import Batteries.Data.List.Perm
/-! C18: `Same R` is an equivalence relation on unique-key texts whenever the number relation `R` is one. -/
namespace JEqG
variable {N : Type} {R : N → N → Prop}

/-- pigeonhole on member names -/
theorem keys_back {a b : List (String × J N)} (hb : (keys b).Nodup) (hsub : ∀ k ∈ keys b, k ∈ keys a)
    (hlen : a.length = b.length) : ∀ k ∈ keys a, k ∈ keys b := by
  have hsp : (keys b).Subperm (keys a) := List.subperm_of_subset hb hsub
  have hperm := hsp.perm_of_length_le (by simp [keys, hlen])
  intro k hk
  exact hperm.symm.subset hk

theorem subR_keys {a b : List (String × J N)} (h : SubR R a b) : ∀ k ∈ keys b, k ∈ keys a := by
  induction b with
  | nil => intro k hk; simp [keys] at hk
  | cons m rest ih =>
    obtain ⟨k', v'⟩ := m
    simp only [SubR] at h
    obtain ⟨⟨lv, hm, _⟩, hrest⟩ := h
    intro k hk
    simp only [keys, List.map_cons, List.mem_cons] at hk
    rcases hk with rfl | hk
    · exact List.mem_map.mpr ⟨(k, lv), hm, rfl⟩
    · exact ih hrest k hk

theorem subR_of_forall {b : List (String × J N)} : ∀ (a' : List (String × J N)),
    (∀ k lv, (k, lv) ∈ a' → ∃ v, (k, v) ∈ b ∧ Same R v lv) → SubR R b a'
  | [], _ => by simp [SubR]
  | (k, lv) :: rest, h => by
    simp only [SubR]
    exact ⟨h k lv (List.mem_cons_self ..), subR_of_forall rest (fun k lv hm => h k lv (List.mem_cons_of_mem _ hm))⟩

theorem subR_forall {a : List (String × J N)} : ∀ (b : List (String × J N)), SubR R a b →
    ∀ k v, (k, v) ∈ b → ∃ lv, (k, lv) ∈ a ∧ Same R lv v
  | [], _ => by intro k v hm; cases hm
  | (k', v') :: rest, h => by
    simp only [SubR] at h
    intro k v hm
    rcases List.mem_cons.mp hm with heq | hmem
    · cases heq; exact h.1
    · exact subR_forall rest h.2 k v hmem

theorem nodup_val {a : List (String × J N)} (hn : (keys a).Nodup) {k v v'} (h1 : (k, v) ∈ a) (h2 : (k, v') ∈ a) : v = v' := by
  have e1 := mem_lookupJ hn h1
  have e2 := mem_lookupJ hn h2
  rw [e1] at e2; cases e2; rfl

/-- unique member names, nothing asked of the numbers -/
abbrev UK : J N → Prop := WF (fun _ => True)

/-! ### reflexive -/
section
variable (hr : ∀ a, R a a)
include hr
mutual
theorem same_refl : ∀ a : J N, Same R a a
  | .null => by simp [Same]
  | .bool _ => by simp [Same]
  | .str _ => by simp [Same]
  | .num a => by simp only [Same]; exact hr a
  | .arr xs => by simp only [Same]; exact sameL_refl xs
  | .obj ms => by
    simp only [Same]
    exact ⟨subR_refl ms ms (fun _ h => h), trivial⟩
theorem sameL_refl : ∀ a : List (J N), SameL R a a
  | [] => by simp [SameL]
  | x :: xs => by simp only [SameL]; exact ⟨same_refl x, sameL_refl xs⟩
theorem subR_refl : ∀ (a b : List (String × J N)), (∀ x ∈ b, x ∈ a) → SubR R a b
  | _, [], _ => by simp [SubR]
  | a, (k, v) :: rest, h => by
    simp only [SubR]
    exact ⟨⟨v, h (k, v) (List.mem_cons_self ..), same_refl v⟩, subR_refl a rest (fun x hx => h x (List.mem_cons_of_mem _ hx))⟩
end
end

/-! ### symmetric (needs unique names on both sides: with duplicates the relation is not symmetric) -/
section
variable (hs : ∀ a b, R a b → R b a)
include hs

mutual
theorem same_symm : ∀ (a b : J N), UK a → UK b → Same R a b → Same R b a
  | .null, .null, _, _, _ => by simp [Same]
  | .null, .bool _, _, _, h | .null, .str _, _, _, h | .null, .num _, _, _, h | .null, .arr _, _, _, h | .null, .obj _, _, _, h => by simp [Same] at h
  | .bool _, .null, _, _, h | .bool _, .str _, _, _, h | .bool _, .num _, _, _, h | .bool _, .arr _, _, _, h | .bool _, .obj _, _, _, h => by simp [Same] at h
  | .bool a, .bool b, _, _, h => by simp only [Same] at h ⊢; exact h.symm
  | .str _, .null, _, _, h | .str _, .bool _, _, _, h | .str _, .num _, _, _, h | .str _, .arr _, _, _, h | .str _, .obj _, _, _, h => by simp [Same] at h
  | .str a, .str b, _, _, h => by simp only [Same] at h ⊢; exact h.symm
  | .num _, .null, _, _, h | .num _, .bool _, _, _, h | .num _, .str _, _, _, h | .num _, .arr _, _, _, h | .num _, .obj _, _, _, h => by simp [Same] at h
  | .num a, .num b, _, _, h => by simp only [Same] at h ⊢; exact hs a b h
  | .arr _, .null, _, _, h | .arr _, .bool _, _, _, h | .arr _, .str _, _, _, h | .arr _, .num _, _, _, h | .arr _, .obj _, _, _, h => by simp [Same] at h
  | .arr a, .arr b, ha, hb, h => by
    simp only [Same] at h ⊢
    exact sameL_symm a b (by simpa [UK, WF] using ha) (by simpa [UK, WF] using hb) h
  | .obj _, .null, _, _, h | .obj _, .bool _, _, _, h | .obj _, .str _, _, _, h | .obj _, .num _, _, _, h | .obj _, .arr _, _, _, h => by simp [Same] at h
  | .obj a, .obj b, ha, hb, h => by
    simp only [UK, WF] at ha hb
    simp only [Same] at h ⊢
    obtain ⟨hsub, hlen⟩ := h
    refine ⟨?_, hlen.symm⟩
    apply subR_of_forall
    intro k lv hm
    have hk : k ∈ keys b := keys_back hb.1 (subR_keys hsub) hlen k (List.mem_map.mpr ⟨(k, lv), hm, rfl⟩)
    obtain ⟨⟨k', v⟩, hv, hkv⟩ := List.mem_map.mp hk
    simp only at hkv; subst hkv
    obtain ⟨lv', hm', hsame⟩ := subR_symm a b ha.2 hb.2 hsub k' v hv
    have : lv' = lv := nodup_val ha.1 hm' hm
    subst this
    exact ⟨v, hv, hsame⟩
theorem sameL_symm : ∀ (a b : List (J N)), WFL (fun _ => True) a → WFL (fun _ => True) b → SameL R a b → SameL R b a
  | [], [], _, _, _ => by simp [SameL]
  | [], _ :: _, _, _, h => by simp [SameL] at h
  | _ :: _, [], _, _, h => by simp [SameL] at h
  | x :: xs, y :: ys, ha, hb, h => by
    simp only [WFL] at ha hb
    simp only [SameL] at h ⊢
    exact ⟨same_symm x y ha.1 hb.1 h.1, sameL_symm xs ys ha.2 hb.2 h.2⟩
theorem subR_symm : ∀ (a b : List (String × J N)), WFM (fun _ => True) a → WFM (fun _ => True) b → SubR R a b →
    ∀ k v, (k, v) ∈ b → ∃ lv, (k, lv) ∈ a ∧ Same R v lv
  | _, [], _, _, _ => by intro k v hm; cases hm
  | a, (k', v') :: rest, ha, hb, h => by
    simp only [WFM] at hb
    simp only [SubR] at h
    intro k v hm
    rcases List.mem_cons.mp hm with heq | hmem
    · cases heq
      obtain ⟨lv, hlm, hsame⟩ := h.1
      exact ⟨lv, hlm, same_symm lv v' (wfm_mem ha hlm) hb.1 hsame⟩
    · exact subR_symm a rest ha hb.2 h.2 k v hmem
end
end

/-! ### transitive (no hypothesis on names needed) -/
section
variable (ht : ∀ a b c, R a b → R b c → R a c)
include ht

mutual
theorem same_trans : ∀ (a b c : J N), Same R a b → Same R b c → Same R a c
  | a, b, .null, h1, h2 => by
    cases b <;> simp only [Same] at h2
    cases a <;> simp only [Same] at h1 ⊢
  | a, b, .bool z, h1, h2 => by
    cases b <;> simp only [Same] at h2
    cases a <;> simp only [Same] at h1 ⊢
    exact h1.trans h2
  | a, b, .str z, h1, h2 => by
    cases b <;> simp only [Same] at h2
    cases a <;> simp only [Same] at h1 ⊢
    exact h1.trans h2
  | a, b, .num z, h1, h2 => by
    cases b <;> simp only [Same] at h2
    cases a <;> simp only [Same] at h1 ⊢
    exact ht _ _ _ h1 h2
  | a, b, .arr zs, h1, h2 => by
    cases b <;> simp only [Same] at h2
    cases a <;> simp only [Same] at h1 ⊢
    exact sameL_trans _ _ zs h1 h2
  | a, b, .obj zs, h1, h2 => by
    cases b <;> simp only [Same] at h2
    cases a <;> simp only [Same] at h1 ⊢
    exact ⟨subR_trans _ _ zs (subR_forall _ h1.1) h2.1, h1.2.trans h2.2⟩
theorem sameL_trans : ∀ (a b c : List (J N)), SameL R a b → SameL R b c → SameL R a c
  | a, b, [], h1, h2 => by
    cases b <;> simp only [SameL] at h2
    cases a <;> simp only [SameL] at h1 ⊢
  | a, b, z :: zs, h1, h2 => by
    cases b <;> simp only [SameL] at h2
    cases a <;> simp only [SameL] at h1 ⊢
    exact ⟨same_trans _ _ z h1.1 h2.1, sameL_trans _ _ zs h1.2 h2.2⟩
theorem subR_trans : ∀ (a b c : List (String × J N)),
    (∀ k v', (k, v') ∈ b → ∃ v, (k, v) ∈ a ∧ Same R v v') → SubR R b c → SubR R a c
  | _, _, [], _, _ => by simp [SubR]
  | a, b, (k, v'') :: rest, hab, h => by
    simp only [SubR] at h ⊢
    obtain ⟨⟨v', hm', hs'⟩, hrest⟩ := h
    obtain ⟨v, hm, hs⟩ := hab k v' hm'
    exact ⟨⟨v, hm, same_trans v v' v'' hs hs'⟩, subR_trans a b rest hab hrest⟩
end
end

/-! well-formed for `P` implies unique names -/
mutual
theorem uk_of_wf {P : N → Prop} : ∀ a : J N, WF P a → UK a
  | .null, _ | .bool _, _ | .str _, _ | .num _, _ => by simp [UK, WF]
  | .arr xs, h => by simp only [UK, WF] at h ⊢; exact ukL_of_wf xs h
  | .obj ms, h => by simp only [UK, WF] at h ⊢; exact ⟨h.1, ukM_of_wf ms h.2⟩
theorem ukL_of_wf {P : N → Prop} : ∀ a : List (J N), WFL P a → WFL (fun _ => True) a
  | [], _ => by simp [WFL]
  | x :: xs, h => by simp only [WFL] at h ⊢; exact ⟨uk_of_wf x h.1, ukL_of_wf xs h.2⟩
theorem ukM_of_wf {P : N → Prop} : ∀ a : List (String × J N), WFM P a → WFM (fun _ => True) a
  | [], _ => by simp [WFM]
  | (_, v) :: r, h => by simp only [WFM] at h ⊢; exact ⟨uk_of_wf v h.1, ukM_of_wf r h.2⟩
end

#print axioms same_symm
#print axioms same_trans
end JEqG
