/-! Feasibility probe: functional model of gen/route_tree.go addRoute + route_node.go addChild. -/
namespace Tree
abbrev Bytes := List UInt8

structure Route where
  method : String
  path : String
deriving Repr

inductive Node where
  | mk (pfx : Bytes) (head : UInt8) (paramName : Option Bytes) (children : List Node) (routes : List Route)

namespace Node
def pfx : Node → Bytes | mk p _ _ _ _ => p
def head : Node → UInt8 | mk _ h _ _ _ => h
def paramName : Node → Option Bytes | mk _ _ n _ _ => n
def children : Node → List Node | mk _ _ _ c _ => c
def routes : Node → List Route | mk _ _ _ _ r => r
def isParam (n : Node) : Bool := n.paramName.isSome
end Node

def lcp : Bytes → Bytes → Nat
  | a :: as, b :: bs => if a = b then 1 + lcp as bs else 0
  | _, _ => 0

def indexOf (b : UInt8) : Bytes → Option Nat
  | [] => none
  | c :: cs => if c = b then some 0 else (indexOf b cs).map (· + 1)

inductive Part where
  | none                      -- no '{'
  | param (start stop : Nat)  -- stop is one past '}'
  | bad

def nextPathPart (s : Bytes) : Part :=
  match indexOf 0x7b s with
  | .none => .none
  | some st =>
    match indexOf 0x7d s with
    | .none => .bad
    | some e => if e < st then .bad else .param st (e + 1)

def eqFold (a b : String) : Bool := a.toUpper == b.toUpper

/-- Routes.AddRoute: refuse a case-insensitively equal method, keep sorted by method. -/
def addMethod (rs : List Route) (m : Route) : Except String (List Route) :=
  if rs.any (fun r => eqFold r.method m.method) then .error "duplicate method"
  else .ok ((rs ++ [m]).mergeSort (fun a b => a.method ≤ b.method))

def sortChildren (cs : List Node) : List Node := cs.mergeSort (fun a b => a.head ≤ b.head)

/-- addChild's recursion for a brand-new chain; `selfPfx` is the prefix the caller put into the
    node literal (`path` for nodes created by addRoute/tail, `[]` for the inner parameter node). -/
def mkChain (fuel : Nat) (path : Bytes) (selfPfx : Bytes) (selfParam : Option Bytes) (m : Route) : Except String Node :=
  match fuel with
  | 0 => .error "fuel"
  | fuel + 1 =>
    match nextPathPart path with
    | .bad => .error "parse"
    | .none => .ok (.mk selfPfx (path.headD 0) selfParam [] [m])
    | .param st e =>
      let name := (path.drop (st + 1)).take (e - st - 2)
      if st = 0 then
        let rest := path.drop e
        if rest.isEmpty then .ok (.mk selfPfx (path.headD 0) (some name) [] [m])
        else do
          let child ← mkChain fuel rest rest none m
          .ok (.mk selfPfx (path.headD 0) (some name) [child] [])
      else do
        let rest := path.drop st
        let child ← mkChain fuel rest [] (some name) m
        .ok (.mk (path.take st) (path.headD 0) selfParam [child] [])

def replaceFirst (cs : List Node) (h : UInt8) (n : Node) : List Node :=
  match cs with
  | [] => []
  | c :: cs => if c.head = h then n :: cs else c :: replaceFirst cs h n

/-- the loop of RouteTree.addRoute, one level per recursive call -/
def insert (fuel : Nat) (n : Node) (path : Bytes) (m : Route) : Except String Node :=
  match fuel with
  | 0 => .error "fuel"
  | fuel + 1 =>
    match n with
    | .mk p h pn cs rs =>
      if path.isEmpty then do
        let rs' ← addMethod rs m
        .ok (.mk p h pn cs rs')
      else
        let hd := path.headD 0
        match nextPathPart path with
        | .bad => .error "parse"
        | part =>
          let pend := match part with | .param _ e => e | _ => 0
          match cs.find? (fun c => c.head = hd) with
          | none => do
            let ch ← mkChain (path.length + 1) path path none m
            .ok (.mk p h pn (sortChildren (cs ++ [ch])) rs)
          | some c =>
            if c.isParam then do
              let c' ← insert fuel c (path.drop pend) m
              .ok (.mk p h pn (replaceFirst cs hd c') rs)
            else
              let cp := lcp path c.pfx
              if cp = c.pfx.length then do
                let c' ← insert fuel c (path.drop cp) m
                .ok (.mk p h pn (replaceFirst cs hd c') rs)
              else
                let old := Node.mk (c.pfx.drop cp) ((c.pfx.drop cp).headD 0) c.paramName c.children c.routes
                let rest := path.drop cp
                if rest.isEmpty then
                  .ok (.mk p h pn (replaceFirst cs hd (.mk (path.take cp) hd none [old] [m])) rs)
                else do
                  let ch ← mkChain (rest.length + 1) rest rest none m
                  .ok (.mk p h pn (replaceFirst cs hd (.mk (path.take cp) hd none (sortChildren [old, ch]) [])) rs)


/-! ### what router.tmpl unrolls (route_edge / find_edge), with the D5 repair: every exit of a static
    case restores `elem` before the parameter children are tried -/
def stripPrefix : Bytes → Bytes → Option Bytes
  | [], s => some s
  | _ :: _, [] => none
  | p :: ps, b :: bs => if p = b then stripPrefix ps bs else none

def cutAt (p : UInt8 → Bool) : Bytes → Bytes × Bytes
  | [] => ([], [])
  | b :: bs => if p b then ([], b :: bs) else let (x, y) := cutAt p bs; (b :: x, y)


abbrev R := List Route × List Bytes

/-- the static `switch elem[0]` of one node: one candidate child, prefix test, recurse -/
def viaStatic (recEdge : Node → Bytes → Option R) (statics : List Node) (elem : Bytes) : Option R :=
  match elem with
  | [] => none
  | e0 :: _ =>
    match statics.find? (fun c => c.head = e0) with
    | none => none
    | some c =>
      match stripPrefix c.pfx elem with
      | none => none
      | some rest => recEdge c rest

/-- one parameter child: leaf parameter (no tails) refuses '/', otherwise cut at the first tail byte -/
def viaParam (recEdge : Node → Bytes → Option R) (c : Node) (elem : Bytes) : Option R :=
  let tails := (c.children.filter (fun d => !d.isParam)).map (·.head)
  if tails.isEmpty then
    if elem.any (· = 0x2f) then none
    else (recEdge c []).map (fun (r, args) => (r, elem :: args))
  else
    (recEdge c (cutAt (fun b => tails.any (· = b)) elem).2).map
      (fun (r, args) => (r, (cutAt (fun b => tails.any (· = b)) elem).1 :: args))

def edge : Nat → Node → Bytes → Option R
  | 0, _, _ => none
  | fuel + 1, n, elem =>
    if n.children.isEmpty then
      if elem.isEmpty then some (n.routes, []) else none
    else if !n.routes.isEmpty && elem.isEmpty then some (n.routes, [])
    else
      let statics := n.children.filter (fun c => !c.isParam)
      if !statics.isEmpty && n.routes.isEmpty && elem.isEmpty then none
      else
        match viaStatic (edge fuel) statics elem with
        | some r => some r
        | none =>
          match n.children.filter (fun c => c.isParam) with
          | [] => none
          | c :: _ => viaParam (edge fuel) c elem



end Tree
