import Ogen.RouterLookupLib
/-! Proof probe for C05, matching half of completeness: in a tree with the structural invariants
    (heads distinct, `{`-headed parameter nodes whose children are static, non-empty static prefixes headed by
    their first byte), every route that is present is found for every instance whose arguments are non-empty and
    avoid '/' and the bytes that can follow that parameter. -/
namespace Tree

def staticHeads (c : Node) : List UInt8 := (c.children.filter (fun d => !d.isParam)).map (·.head)

/-- structural invariants of one node (all children) -/
structure NodeOK (n : Node) : Prop where
  headsDistinct : n.children.Pairwise (fun a b => a.head ≠ b.head)
  paramHead : ∀ c ∈ n.children, c.isParam = true → c.head = 0x7b
  staticPfx : ∀ c ∈ n.children, c.isParam = false → c.pfx ≠ [] ∧ c.pfx.head? = some c.head ∧ c.head ≠ 0x7b
  paramKids : n.isParam = true → ∀ c ∈ n.children, c.isParam = false

inductive TreeOK : Node → Prop
  | mk {n} : NodeOK n → (∀ c ∈ n.children, TreeOK c) → TreeOK n

/-- a route is present below `n` along the symbol string `sp`, instantiated by `args` to the byte string `elem`;
    the side conditions on the arguments are exactly the property's: non-empty, no '/', none of the bytes that
    directly follow the parameter (the static heads below the parameter node) -/
inductive Reach : Node → List Bytes → Bytes → List Route → Prop
  | here {n} : n.routes ≠ [] → Reach n [] [] n.routes
  | static {n c args elem rs} : c ∈ n.children → c.isParam = false → Reach c args elem rs →
      Reach n args (c.pfx ++ elem) rs
  | param {n c arg args elem rs} : c ∈ n.children → c.isParam = true → arg ≠ [] →
      (∀ b ∈ arg, b ≠ 0x2f ∧ b ∉ staticHeads c) → Reach c args elem rs →
      Reach n (arg :: args) (arg ++ elem) rs

theorem stripPrefix_append (p r : Bytes) : stripPrefix p (p ++ r) = some r := by
  induction p with
  | nil => simp [stripPrefix]
  | cons a as ih => simp [stripPrefix, ih]

theorem cutAt_stop (p : UInt8 → Bool) (arg rest : Bytes) (harg : ∀ b ∈ arg, p b = false)
    (hrest : rest = [] ∨ ∃ b r, rest = b :: r ∧ p b = true) : cutAt p (arg ++ rest) = (arg, rest) := by
  induction arg with
  | nil =>
    rcases hrest with rfl | ⟨b, r, rfl, hb⟩
    · simp [cutAt]
    · simp [cutAt, hb]
  | cons a as ih =>
    have ha : p a = false := harg a (List.mem_cons_self ..)
    simp only [List.cons_append, cutAt, ha, Bool.false_eq_true, if_false]
    rw [ih (fun b hb => harg b (List.mem_cons_of_mem _ hb))]

theorem find_unique {cs : List Node} {c : Node} (hd : cs.Pairwise (fun a b => a.head ≠ b.head)) (hc : c ∈ cs) :
    cs.find? (fun d => d.head = c.head) = some c := by
  induction cs with
  | nil => cases hc
  | cons d ds ih =>
    rw [List.pairwise_cons] at hd
    rcases List.mem_cons.mp hc with rfl | hmem
    · simp [List.find?]
    · have hne : d.head ≠ c.head := hd.1 c hmem
      simp only [List.find?, hne, decide_false]
      exact ih hd.2 hmem

theorem pairwise_filter {cs : List Node} {p : Node → Bool} (hd : cs.Pairwise (fun a b => a.head ≠ b.head)) :
    (cs.filter p).Pairwise (fun a b => a.head ≠ b.head) := hd.filter p

/-- what remains of an instance below a parameter node starts with one of its static heads, or is empty -/
theorem reach_head {c : Node} {args : List Bytes} {elem : Bytes} {rs : List Route}
    (h : Reach c args elem rs) (hok : NodeOK c) (hp : c.isParam = true) :
    elem = [] ∨ ∃ b r, elem = b :: r ∧ b ∈ staticHeads c := by
  cases h with
  | here _ => exact Or.inl rfl
  | @static _ d _ elem' _ hd hds _ =>
    right
    obtain ⟨hne, hhead, _⟩ := hok.staticPfx d hd hds
    cases hpf : d.pfx with
    | nil => exact absurd hpf hne
    | cons b r =>
      refine ⟨b, r ++ elem', by simp, ?_⟩
      have : d.head = b := by rw [hpf] at hhead; simpa using hhead.symm
      unfold staticHeads
      exact List.mem_map.mpr ⟨d, List.mem_filter.mpr ⟨hd, by simp [hds]⟩, this⟩
  | @param _ d _ _ _ _ hd hdp _ _ _ =>
    exact absurd (hok.paramKids hp d hd) (by simp [hdp])

/-- **matching half of completeness** -/
theorem edge_complete (fuel : Nat) : ∀ (n : Node) (args : List Bytes) (elem : Bytes) (rs : List Route),
    TreeOK n → Reach n args elem rs → elem.length + args.length + 1 ≤ fuel →
    ∃ r, edge fuel n elem = some r := by
  induction fuel with
  | zero => intro n args elem rs _ _ h; omega
  | succ fuel ih =>
    intro n args elem rs hok hreach hfuel
    cases hok with
    | mk hn hkids =>
    unfold edge
    cases hreach with
    | here hrs =>
      by_cases hleaf : n.children.isEmpty = true
      · simp [hleaf]
      · have : n.routes.isEmpty = false := by
          cases hr : n.routes with
          | nil => exact absurd hr hrs
          | cons _ _ => rfl
        simp [hleaf, this]
    | @static _ c _ elem' _ hc hcs hreach' =>
      obtain ⟨hne, hhead, _⟩ := hn.staticPfx c hc hcs
      have hcne : n.children.isEmpty = false := by
        cases hch : n.children with
        | nil => rw [hch] at hc; cases hc
        | cons _ _ => rfl
      have helem_ne : (c.pfx ++ elem').isEmpty = false := by
        cases hpf : c.pfx with
        | nil => exact absurd hpf hne
        | cons _ _ => rfl
      simp only [hcne, Bool.false_eq_true, if_false, helem_ne, Bool.and_false]
      -- the static switch picks exactly c
      have hmem : c ∈ n.children.filter (fun c => !c.isParam) := List.mem_filter.mpr ⟨hc, by simp [hcs]⟩
      have hvia : ∃ r, viaStatic (edge fuel) (n.children.filter (fun c => !c.isParam)) (c.pfx ++ elem') = some r := by
        unfold viaStatic
        cases hpf : c.pfx with
        | nil => exact absurd hpf hne
        | cons b r =>
          have hb : c.head = b := by rw [hpf] at hhead; simpa using hhead.symm
          simp only [List.cons_append]
          have hfind := find_unique (pairwise_filter (p := fun c => !c.isParam) hn.headsDistinct) hmem
          rw [hb] at hfind
          simp only [hfind]
          have hsp : stripPrefix c.pfx (b :: (r ++ elem')) = some elem' := by
            have := stripPrefix_append c.pfx elem'
            rw [hpf] at this ⊢
            simpa using this
          rw [hsp]
          have hlen : elem'.length + args.length + 1 ≤ fuel := by
            have : (c.pfx ++ elem').length = c.pfx.length + elem'.length := by simp
            have hpl : 0 < c.pfx.length := List.length_pos_iff.mpr hne
            omega
          exact ih c args elem' rs (hkids c hc) hreach' hlen
      obtain ⟨r, hr⟩ := hvia
      exact ⟨r, by simp [hr]⟩
    | @param _ c arg args' elem' _ hc hcp hargne harg hreach' =>
      have hcne : n.children.isEmpty = false := by
        cases hch : n.children with
        | nil => rw [hch] at hc; cases hc
        | cons _ _ => rfl
      have helem_ne : (arg ++ elem').isEmpty = false := by
        cases harg' : arg with
        | nil => exact absurd harg' hargne
        | cons _ _ => rfl
      simp only [hcne, Bool.false_eq_true, if_false, helem_ne, Bool.and_false]
      cases hvs : viaStatic (edge fuel) (n.children.filter (fun c => !c.isParam)) (arg ++ elem') with
      | some r => exact ⟨r, rfl⟩
      | none =>
        simp only
        -- the only parameter child is c
        have hmem : c ∈ n.children.filter (fun c => c.isParam) := List.mem_filter.mpr ⟨hc, hcp⟩
        have hfil : ∃ rest, n.children.filter (fun c => c.isParam) = c :: rest := by
          have hpw := pairwise_filter (p := fun c => c.isParam) hn.headsDistinct
          cases hf : n.children.filter (fun c => c.isParam) with
          | nil => rw [hf] at hmem; cases hmem
          | cons d ds =>
            rw [hf] at hmem hpw
            rcases List.mem_cons.mp hmem with rfl | hmem'
            · exact ⟨ds, rfl⟩
            · exfalso
              have hd : d ∈ n.children.filter (fun c => c.isParam) := by rw [hf]; exact List.mem_cons_self ..
              have hdp := (List.mem_filter.mp hd)
              have h1 : d.head = 0x7b := hn.paramHead d hdp.1 (by simpa using hdp.2)
              have h2 : c.head = 0x7b := hn.paramHead c hc hcp
              rw [List.pairwise_cons] at hpw
              exact hpw.1 c hmem' (by rw [h1, h2])
        obtain ⟨rest, hfil⟩ := hfil
        simp only [hfil]
        have hcok : TreeOK c := hkids c hc
        have hcn : NodeOK c := by cases hcok with | mk h _ => exact h
        have hlen : elem'.length + args'.length + 1 ≤ fuel := by
          have : (arg ++ elem').length = arg.length + elem'.length := by simp
          have hal : 0 < arg.length := List.length_pos_iff.mpr hargne
          simp at hfuel
          omega
        obtain ⟨r, hr⟩ := ih c args' elem' _ hcok hreach' hlen
        unfold viaParam
        simp only
        by_cases htl : ((c.children.filter (fun d => !d.isParam)).map (·.head)).isEmpty = true
        · -- leaf parameter: nothing can follow
          have hel : elem' = [] := by
            rcases reach_head hreach' hcn hcp with h | ⟨b, r', _, hb⟩
            · exact h
            · unfold staticHeads at hb
              have : ((c.children.filter (fun d => !d.isParam)).map (·.head)) = [] := by simpa using htl
              rw [this] at hb; cases hb
          subst hel
          have hns : (arg ++ []).any (· = 0x2f) = false := by
            simp only [List.append_nil, List.any_eq_false, decide_eq_true_eq]
            intro b hb; exact (harg b hb).1
          simp only [htl, if_true, hns, Bool.false_eq_true, if_false, hr, Option.map_some]
          exact ⟨_, rfl⟩
        · simp only [htl, Bool.false_eq_true, if_false]
          have hcut : cutAt (fun b => ((c.children.filter (fun d => !d.isParam)).map (·.head)).any (· = b)) (arg ++ elem')
              = (arg, elem') := by
            apply cutAt_stop
            · intro b hb
              have := (harg b hb).2
              unfold staticHeads at this
              simp only [List.any_eq_false, decide_eq_true_eq]
              intro x hx hxb
              exact this (hxb ▸ hx)
            · rcases reach_head hreach' hcn hcp with h | ⟨b, r', hbr, hb⟩
              · exact Or.inl h
              · right
                refine ⟨b, r', hbr, ?_⟩
                unfold staticHeads at hb
                simp only [List.any_eq_true, decide_eq_true_eq]
                exact ⟨b, hb, rfl⟩
          rw [hcut]
          simp only [hr, Option.map_some]
          exact ⟨_, rfl⟩

#print axioms edge_complete
end Tree
