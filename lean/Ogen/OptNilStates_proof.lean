/-! Proof probe for C04, "the three states of an optional nullable member are preserved exactly": literal model of the
    generated `OptNilT` wrapper (`Set`, `Null`, `Value`), its `Encode`/`Decode` as a struct member, and the point that
    decides how the harness must compare: the wrapper's *state* round-trips, the Go struct does not. -/
namespace OptNil

structure W (α : Type) where
  set : Bool
  null : Bool
  value : α
deriving DecidableEq, Repr

/-- what the member looks like in the object: key omitted, `null`, or a value -/
inductive Member (α : Type) where
  | omitted | null | val (a : α)
deriving DecidableEq, Repr

/-- the state the API exposes (`Get()`, `IsNull()`, `IsSet()`) -/
def state {α} (w : W α) : Member α :=
  if !w.set then .omitted else if w.null then .null else .val w.value

/-- struct encoder: `if s.F.Set { e.FieldStart(name); s.F.Encode(e) }`, and `Encode` writes `null` when `Null` -/
def encode {α} (w : W α) : Member α := state w

/-- struct decoder: the field keeps its zero value when the key is absent; `Decode` resets `Value` on `null` -/
def decode {α} (zero : α) : Member α → W α
  | .omitted => ⟨false, false, zero⟩
  | .null => ⟨true, true, zero⟩
  | .val a => ⟨true, false, a⟩

/-- **the three states are distinct on the wire and preserved exactly** -/
theorem three_states {α} (zero : α) (w : W α) : state (decode zero (encode w)) = state w := by
  unfold encode state
  cases hs : w.set <;> cases hn : w.null <;> simp [decode]

theorem states_distinct {α} (a : α) : (Member.omitted : Member α) ≠ .null ∧ (Member.null : Member α) ≠ .val a ∧
    (Member.omitted : Member α) ≠ .val a := by
  refine ⟨?_, ?_, ?_⟩ <;> intro h <;> cases h

/-- the decoder's output is canonical: decoding again what it encodes gives the same struct -/
theorem decode_canonical {α} (zero : α) (m : Member α) : decode zero (encode (decode zero m)) = decode zero m := by
  cases m <;> rfl

/-- `Decode` applied to a wrapper that already holds something (`setDefaults` ran first — `default: null` pre-sets
    `Null` —, or the value is reused): a member that is absent leaves it alone, a present member assigns *all three*
    fields (the null path writes `Value`, `Set`, `Null`; the value path resets `Set` and `Null` before the value) -/
def decodeOver {α} (zero : α) (pre : W α) : Member α → W α
  | .omitted => pre
  | .null => { pre with value := zero, set := true, null := true }
  | .val a => { pre with set := true, null := false, value := a }

/-- **a present member overwrites whatever was there** — in particular a `Null` pre-set by `default: null` -/
theorem decodeOver_present {α} (zero : α) (pre : W α) (m : Member α) (hm : m ≠ .omitted) :
    decodeOver zero pre m = decode zero m := by
  cases m with
  | omitted => exact absurd rfl hm
  | null => rfl
  | val a => rfl

/-- an absent member keeps the pre-set (default) state -/
theorem decodeOver_absent {α} (zero : α) (pre : W α) : decodeOver zero pre .omitted = pre := rfl

/-- but the Go struct itself does not round-trip: a value left behind under `Null` (or under `Set = false`) is lost, so a
    field-by-field comparison of the structs would raise a false alarm; the harness compares `state` -/
example : decode 0 (encode (⟨true, true, 5⟩ : W Nat)) ≠ ⟨true, true, 5⟩ := by decide
example : decode 0 (encode (⟨false, false, 5⟩ : W Nat)) ≠ ⟨false, false, 5⟩ := by decide
example : state (⟨true, true, 5⟩ : W Nat) = state (decode 0 (encode (⟨true, true, 5⟩ : W Nat))) := by decide
/-! line protocol: `optnil <set> <null> <value hex>` ↦ member kind on the wire and the state after decoding -/
def memberStr : Member String → String
  | .omitted => "omitted" | .null => "null" | .val a => "val:" ++ a
def stateKind : Member String → String
  | .omitted => "omitted" | .null => "null" | .val _ => "val"
def optnilLine (line : String) : String :=
  match (line.splitOn " ").filter (· ≠ "") with
  | [s, n] => let w : W String := ⟨s == "1", n == "1", ""⟩
              memberStr (encode w) ++ " " ++ stateKind (state (decode "" (encode w)))
  | [s, n, v] => let w : W String := ⟨s == "1", n == "1", v⟩
                 memberStr (encode w) ++ " " ++ stateKind (state (decode "" (encode w)))
  | _ => "bad"
end OptNil
