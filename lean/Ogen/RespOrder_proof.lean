/-
`ir.sortResponseInfos` (gen/ir/responses.go): the order of the `case` blocks of a generated response encoder.

`ListResponseTypes` fills a slice by ranging over the `StatusCode` map (iteration order unspecified) and sorts it
with `slices.SortStableFunc`. A response that carries its status code compares as 999. After fix 6497f487 the
comparator is lexicographic on (folded code, content type, real code); before it stopped after the content type.
A stable sort is modelled by insertion from the right (`foldr`), equal elements keep their input order.
-/
namespace RespOrder

/-- (folded status code, rank of the content type, real status code) -/
abbrev K := Nat × Nat × Nat

def lt (a b : K) : Bool :=
  a.1 < b.1 || (a.1 == b.1 && (a.2.1 < b.2.1 || (a.2.1 == b.2.1 && a.2.2 < b.2.2)))

/-- the comparator before the fix: the real status code is not consulted -/
def ltOld (a b : K) : Bool := a.1 < b.1 || (a.1 == b.1 && a.2.1 < b.2.1)

def ins (r : K → K → Bool) (a : K) : List K → List K
  | [] => [a]
  | b :: t => if r b a then b :: ins r a t else a :: b :: t

/-- stable sort by `r` -/
def sort (r : K → K → Bool) (l : List K) : List K := l.foldr (ins r) []

theorem lt_iff (a b : K) : lt a b = true ↔
    a.1 < b.1 ∨ (a.1 = b.1 ∧ (a.2.1 < b.2.1 ∨ (a.2.1 = b.2.1 ∧ a.2.2 < b.2.2))) := by
  simp [lt]

theorem lt_irrefl (a : K) : lt a a = false := by
  cases h : lt a a with
  | false => rfl
  | true => rw [lt_iff] at h; omega

theorem lt_trans {a b c : K} (h1 : lt a b = true) (h2 : lt b c = true) : lt a c = true := by
  rw [lt_iff] at *; omega

theorem lt_total {a b : K} (h : a ≠ b) : lt a b = true ∨ lt b a = true := by
  rw [lt_iff, lt_iff]
  have : a.1 ≠ b.1 ∨ a.2.1 ≠ b.2.1 ∨ a.2.2 ≠ b.2.2 := by
    by_cases h1 : a.1 = b.1
    · by_cases h2 : a.2.1 = b.2.1
      · by_cases h3 : a.2.2 = b.2.2
        · exfalso; apply h
          obtain ⟨a1, a2, a3⟩ := a; obtain ⟨b1, b2, b3⟩ := b
          simp at h1 h2 h3; subst h1; subst h2; subst h3; rfl
        · exact Or.inr (Or.inr h3)
      · exact Or.inr (Or.inl h2)
    · exact Or.inl h1
  omega

theorem lt_asymm {a b : K} (h : lt a b = true) : lt b a = false := by
  cases h' : lt b a with
  | false => rfl
  | true => have := lt_trans h h'; rw [lt_irrefl] at this; cases this

theorem mem_ins (r : K → K → Bool) (a x : K) (l : List K) : x ∈ ins r a l ↔ x = a ∨ x ∈ l := by
  induction l with
  | nil => simp [ins]
  | cons b t ih =>
    simp only [ins]; split
    · simp only [List.mem_cons, ih]
      constructor
      · rintro (h | h | h)
        · exact Or.inr (Or.inl h)
        · exact Or.inl h
        · exact Or.inr (Or.inr h)
      · rintro (h | h | h)
        · exact Or.inr (Or.inl h)
        · exact Or.inl h
        · exact Or.inr (Or.inr h)
    · simp

theorem mem_sort (r : K → K → Bool) (x : K) (l : List K) : x ∈ sort r l ↔ x ∈ l := by
  induction l with
  | nil => simp [sort]
  | cons a t ih => simp only [sort, List.foldr_cons] at ih ⊢; rw [mem_ins]; simp [ih]

/-- strictly increasing -/
def SSorted : List K → Prop
  | [] => True
  | a :: t => (∀ b ∈ t, lt a b = true) ∧ SSorted t

theorem ssorted_ins (a : K) (l : List K) (h : SSorted l) (ha : a ∉ l) : SSorted (ins lt a l) := by
  induction l with
  | nil => simp [ins, SSorted]
  | cons b t ih =>
    have hab : a ≠ b := fun e => ha (by simp [e])
    have hat : a ∉ t := fun e => ha (List.mem_cons_of_mem _ e)
    simp only [ins]; split
    · rename_i hba
      refine ⟨?_, ih h.2 hat⟩
      intro x hx
      rcases (mem_ins lt a x t).1 hx with e | e
      · subst e; exact hba
      · exact h.1 x e
    · rename_i hba
      have hlt : lt a b = true := by
        rcases lt_total hab with e | e
        · exact e
        · exact absurd e hba
      refine ⟨?_, h⟩
      intro x hx
      rcases List.mem_cons.1 hx with e | e
      · subst e; exact hlt
      · exact lt_trans hlt (h.1 x e)

theorem ssorted_sort (l : List K) (hn : l.Nodup) : SSorted (sort lt l) := by
  induction l with
  | nil => simp [sort, SSorted]
  | cons a t ih =>
    have hn' := List.nodup_cons.1 hn
    simp only [sort, List.foldr_cons]
    exact ssorted_ins a _ (ih hn'.2) (fun h => hn'.1 ((mem_sort lt a t).1 h))

theorem ssorted_ext : ∀ (l₁ l₂ : List K), SSorted l₁ → SSorted l₂ → (∀ x, x ∈ l₁ ↔ x ∈ l₂) → l₁ = l₂
  | [], [], _, _, _ => rfl
  | [], b :: _, _, _, h => by have := (h b).mpr (by simp); cases this
  | a :: _, [], _, _, h => by have := (h a).mp (by simp); cases this
  | a :: as, b :: bs, h₁, h₂, h => by
    have hab : a = b := by
      have ha := (h a).mp (by simp)
      have hb := (h b).mpr (by simp)
      rcases List.mem_cons.mp ha with ha | ha
      · exact ha
      · rcases List.mem_cons.mp hb with hb | hb
        · exact hb.symm
        · have h1 := h₂.1 a ha
          have h2 := h₁.1 b hb
          rw [lt_asymm h1] at h2; cases h2
    subst hab
    have hna : a ∉ as := fun hm => by have := h₁.1 a hm; rw [lt_irrefl] at this; cases this
    have hnb : a ∉ bs := fun hm => by have := h₂.1 a hm; rw [lt_irrefl] at this; cases this
    have : as = bs := ssorted_ext as bs h₁.2 h₂.2 (by
      intro x
      constructor
      · intro hx
        rcases List.mem_cons.mp ((h x).mp (List.mem_cons_of_mem _ hx)) with e | e
        · subst e; exact absurd hx hna
        · exact e
      · intro hx
        rcases List.mem_cons.mp ((h x).mpr (List.mem_cons_of_mem _ hx)) with e | e
        · subst e; exact absurd hx hnb
        · exact e)
    rw [this]

/-- **the order of the response cases does not depend on the iteration order of the map**: two listings of the same
    entries (distinct (folded code, content type, real code) triples — the map has one entry per real code and per
    content type) sort to the same sequence -/
theorem sort_order_independent (l₁ l₂ : List K) (hp : l₁.Perm l₂) (hn : l₁.Nodup) :
    sort lt l₁ = sort lt l₂ :=
  ssorted_ext _ _ (ssorted_sort l₁ hn) (ssorted_sort l₂ (hp.nodup_iff.1 hn))
    (fun x => by rw [mem_sort, mem_sort]; exact hp.mem_iff)

/-- before the fix two entries that carry their code (folded to 999) and share the content type tie, and the stable
    sort keeps whatever order the map iteration produced -/
theorem old_order_depends_on_iteration :
    sort ltOld [(999, 1, 404), (999, 1, 400)] ≠ sort ltOld [(999, 1, 400), (999, 1, 404)] := by decide

example : sort lt [(999, 1, 404), (200, 1, 200), (999, 1, 400)] = [(200, 1, 200), (999, 1, 400), (999, 1, 404)] := by
  decide

def keysOf (s : String) : List K :=
  if s == "-" then [] else (s.splitOn ",").filterMap fun t =>
    match t.splitOn ":" with
    | [a, b, c] => do
      let x ← a.toNat?
      let y ← b.toNat?
      let z ← c.toNat?
      pure (x, y, z)
    | _ => none
/-- `rsort f:t:c,f:t:c,…` → the sorted sequence -/
def sortLine (p : String) : String :=
  let r := sort lt (keysOf p.trimAscii.toString)
  if r.isEmpty then "-" else ",".intercalate (r.map fun k => toString k.1 ++ ":" ++ toString k.2.1 ++ ":" ++ toString k.2.2)

end RespOrder
