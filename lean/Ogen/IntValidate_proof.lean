/-! Proof calibration for C03: validate.Int.Validate's `if v < 0 { v *= -1 }; uint64(v) % m` is |v| mod m,
    including the wrap at minInt64. -/
namespace IntVal

/-- Go: `if v < 0 { v *= -1 }` on int64, then `uint64(v)` -/
def absU (v : BitVec 64) : BitVec 64 := if v.slt 0 then -v else v

theorem absU_toNat (v : BitVec 64) : (absU v).toNat = v.toInt.natAbs := by
  unfold absU
  by_cases h : v.slt 0 = true
  · simp only [h, if_true]
    have hneg : v.toInt < 0 := by
      simp [BitVec.slt] at h; exact h
    rw [BitVec.toNat_neg]
    rw [BitVec.toInt_eq_toNat_cond] at hneg ⊢
    have := v.isLt
    split at hneg <;> split <;> omega
  · have h' : v.slt 0 = false := by simpa using h
    simp only [h', Bool.false_eq_true, if_false]
    have hpos : 0 ≤ v.toInt := by
      simp [BitVec.slt] at h'; exact h'
    rw [BitVec.toInt_eq_toNat_cond] at hpos ⊢
    have := v.isLt
    split at hpos <;> split <;> omega

/-- the multipleOf test of validate.Int: passes iff the mathematical value is a multiple of m -/
theorem multipleOf_iff (v : BitVec 64) (m : BitVec 64) (hm : m ≠ 0) :
    ((absU v) % m = 0) ↔ (m.toNat : Int) ∣ v.toInt := by
  have hm' : m.toNat ≠ 0 := by
    intro h; apply hm; exact BitVec.eq_of_toNat_eq (by simpa using h)
  constructor
  · intro h
    have : ((absU v) % m).toNat = 0 := by rw [h]; rfl
    rw [BitVec.toNat_umod, absU_toNat] at this
    have hd : m.toNat ∣ v.toInt.natAbs := Nat.dvd_of_mod_eq_zero this
    exact Int.ofNat_dvd_left.mpr hd
  · intro h
    apply BitVec.eq_of_toNat_eq
    rw [BitVec.toNat_umod, absU_toNat]
    have hd : m.toNat ∣ v.toInt.natAbs := Int.ofNat_dvd_left.mp h
    simpa using Nat.mod_eq_zero_of_dvd hd

example : absU (BitVec.ofInt 64 (-9223372036854775808)) = BitVec.ofNat 64 9223372036854775808 := by decide
#print axioms multipleOf_iff
end IntVal
