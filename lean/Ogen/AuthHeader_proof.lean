/-!
# `findAuthorization` of the generated server (security.tmpl) — model and characterisation (C09 / C15)

```go
func findAuthorization(h http.Header, prefix string) (string, bool) {
	v, ok := h["Authorization"]; if !ok { return "", false }
	for _, vv := range v {
		scheme, value, ok := strings.Cut(vv, " ")
		if !ok || !strings.EqualFold(scheme, prefix) { continue }
		return value, true
	}
	return "", false
}
```
Header values are byte strings. `strings.EqualFold` compares under Unicode simple case folding; for the two
prefixes the template uses (`Basic`, `Bearer`) the only non-ASCII code points that fold to one of their letters are
U+017F (long s, folds to `s`) and U+212A (Kelvin sign, folds to `k`).  The model works on code points (the driver
decodes UTF-8; a value that is not valid UTF-8 is compared through U+FFFD like Go does) and folds exactly the ASCII
letters plus these two.
-/
namespace AuthH

abbrev Str := List Nat   -- code points

/-- `strings.Cut(s, " ")` -/
def cut : Str → Option (Str × Str)
  | [] => none
  | c :: rest => if c = 32 then some ([], rest) else
      match cut rest with
      | some (a, b) => some (c :: a, b)
      | none => none

/-- simple case folding restricted to what can fold into an ASCII letter -/
def fold (c : Nat) : Nat :=
  if 65 ≤ c ∧ c ≤ 90 then c + 32 else if c = 0x17F then 115 else if c = 0x212A then 107 else c

def eqFold : Str → Str → Bool
  | [], [] => true
  | a :: as, b :: bs => fold a == fold b && eqFold as bs
  | _, _ => false

/-- the loop over the header's values -/
def find (prefix_ : Str) : List Str → Option Str
  | [] => none
  | v :: vs =>
    match cut v with
    | some (scheme, value) => if eqFold scheme prefix_ then some value else find prefix_ vs
    | none => find prefix_ vs

/-- what it means for a header value to carry credentials of a scheme: `scheme SP credentials`, the scheme name
    (no space in it) equal to the prefix up to case -/
def Carries (prefix_ : Str) (v tok : Str) : Prop :=
  ∃ scheme, v = scheme ++ 32 :: tok ∧ 32 ∉ scheme ∧ eqFold scheme prefix_ = true

theorem cut_spec (s a b : Str) : cut s = some (a, b) ↔ (s = a ++ 32 :: b ∧ 32 ∉ a) := by
  induction s generalizing a b with
  | nil => simp [cut]
  | cons c rest ih =>
    simp only [cut]
    by_cases hc : c = 32
    · subst hc
      simp only [if_true, Option.some.injEq, Prod.mk.injEq]
      constructor
      · rintro ⟨rfl, rfl⟩; simp
      · rintro ⟨h, hn⟩
        cases a with
        | nil => simp at h; exact ⟨rfl, h⟩
        | cons x xs =>
          simp at h
          exact absurd (h.1 ▸ List.mem_cons_self) hn
    · simp only [hc, if_false]
      cases hcut : cut rest with
      | none =>
        simp only [false_iff, reduceCtorEq]
        rintro ⟨h, hn⟩
        cases a with
        | nil => simp at h; exact hc h.1
        | cons x xs =>
          simp at h
          have := (ih xs b).mpr ⟨h.2, fun hm => hn (List.mem_cons_of_mem _ hm)⟩
          rw [hcut] at this; cases this
      | some p =>
        obtain ⟨a', b'⟩ := p
        have h' := (ih a' b').mp hcut
        simp only [Option.some.injEq, Prod.mk.injEq]
        constructor
        · rintro ⟨rfl, rfl⟩
          refine ⟨by simp [h'.1], ?_⟩
          intro hm
          rcases List.mem_cons.mp hm with e | e
          · exact hc e.symm
          · exact h'.2 e
        · rintro ⟨h, hn⟩
          cases a with
          | nil => simp at h; exact absurd h.1 hc
          | cons x xs =>
            simp at h
            have := (ih xs b).mpr ⟨h.2, fun hm => hn (List.mem_cons_of_mem _ hm)⟩
            rw [hcut] at this
            cases this
            exact ⟨by rw [h.1], rfl⟩

theorem cut_none (s : Str) : cut s = none ↔ 32 ∉ s := by
  induction s with
  | nil => simp [cut]
  | cons c rest ih =>
    simp only [cut]
    by_cases hc : c = 32
    · subst hc; simp
    · simp only [hc, if_false]
      cases hcut : cut rest with
      | none => simp [ih.mp hcut, Ne.symm hc]
      | some p =>
        obtain ⟨a, b⟩ := p
        have hs := (cut_spec rest a b).mp hcut
        simp only [reduceCtorEq, false_iff]
        intro hn
        apply hn
        rw [hs.1]
        simp

/-- a value carries credentials of the scheme iff `cut` + `eqFold` say so, and then the token is the rest -/
theorem carries_iff (prefix_ v tok : Str) :
    Carries prefix_ v tok ↔ ∃ scheme, cut v = some (scheme, tok) ∧ eqFold scheme prefix_ = true := by
  constructor
  · rintro ⟨scheme, hv, hn, he⟩
    exact ⟨scheme, (cut_spec v scheme tok).mpr ⟨hv, hn⟩, he⟩
  · rintro ⟨scheme, hc, he⟩
    have := (cut_spec v scheme tok).mp hc
    exact ⟨scheme, this.1, this.2, he⟩

/-- the token of a value is unique (the scheme is what stands before the first space) -/
theorem carries_unique (prefix_ v t₁ t₂ : Str) (h₁ : Carries prefix_ v t₁) (h₂ : Carries prefix_ v t₂) : t₁ = t₂ := by
  obtain ⟨s₁, c₁, _⟩ := (carries_iff _ _ _).mp h₁
  obtain ⟨s₂, c₂, _⟩ := (carries_iff _ _ _).mp h₂
  rw [c₁] at c₂; cases c₂; rfl

/-- **`findAuthorization` returns exactly the credentials of the first value that carries the scheme** -/
theorem find_iff (prefix_ : Str) (vs : List Str) (tok : Str) :
    find prefix_ vs = some tok ↔
      ∃ pre v post, vs = pre ++ v :: post ∧ Carries prefix_ v tok ∧ ∀ w ∈ pre, ∀ t, ¬ Carries prefix_ w t := by
  induction vs with
  | nil => simp [find]
  | cons v vs ih =>
    simp only [find]
    cases hcut : cut v with
    | none =>
      have hno : ∀ t, ¬ Carries prefix_ v t := by
        intro t hc
        obtain ⟨s, c, _⟩ := (carries_iff _ _ _).mp hc
        rw [hcut] at c; cases c
      rw [ih]
      constructor
      · rintro ⟨pre, w, post, rfl, hc, hp⟩
        refine ⟨v :: pre, w, post, rfl, hc, ?_⟩
        intro x hx t
        rcases List.mem_cons.mp hx with e | e
        · subst e; exact hno t
        · exact hp x e t
      · rintro ⟨pre, w, post, hv, hc, hp⟩
        cases pre with
        | nil => simp at hv; obtain ⟨rfl, rfl⟩ := hv; exact absurd hc (hno tok)
        | cons p pre =>
          simp at hv
          obtain ⟨rfl, rfl⟩ := hv
          exact ⟨pre, w, post, rfl, hc, fun x hx t => hp x (List.mem_cons_of_mem _ hx) t⟩
    | some p =>
      obtain ⟨scheme, value⟩ := p
      by_cases he : eqFold scheme prefix_ = true
      · simp only [he, if_true, Option.some.injEq]
        have hcar : Carries prefix_ v value := (carries_iff _ _ _).mpr ⟨scheme, hcut, he⟩
        constructor
        · rintro rfl
          exact ⟨[], v, vs, rfl, hcar, fun _ h => by cases h⟩
        · rintro ⟨pre, w, post, hv, hc, hp⟩
          cases pre with
          | nil =>
            simp at hv; obtain ⟨rfl, rfl⟩ := hv
            exact carries_unique _ _ _ _ hcar hc
          | cons q pre =>
            simp at hv
            obtain ⟨rfl, rfl⟩ := hv
            exact absurd hcar (hp v List.mem_cons_self value)
      · have hno : ∀ t, ¬ Carries prefix_ v t := by
          intro t hc
          obtain ⟨s, c, e⟩ := (carries_iff _ _ _).mp hc
          rw [hcut] at c; cases c; exact he e
        simp only [he, Bool.false_eq_true, if_false]
        rw [ih]
        constructor
        · rintro ⟨pre, w, post, rfl, hc, hp⟩
          refine ⟨v :: pre, w, post, rfl, hc, ?_⟩
          intro x hx t
          rcases List.mem_cons.mp hx with e | e
          · subst e; exact hno t
          · exact hp x e t
        · rintro ⟨pre, w, post, hv, hc, hp⟩
          cases pre with
          | nil => simp at hv; obtain ⟨rfl, rfl⟩ := hv; exact absurd hc (hno tok)
          | cons q pre =>
            simp at hv
            obtain ⟨rfl, rfl⟩ := hv
            exact ⟨pre, w, post, rfl, hc, fun x hx t => hp x (List.mem_cons_of_mem _ hx) t⟩

/-- no value carries the scheme ⇒ no credentials (the handler is not reached through this scheme) -/
theorem find_none_iff (prefix_ : Str) (vs : List Str) :
    find prefix_ vs = none ↔ ∀ v ∈ vs, ∀ t, ¬ Carries prefix_ v t := by
  constructor
  · intro h v hv t hc
    obtain ⟨pre, post, rfl⟩ := List.append_of_mem hv
    -- take the first carrying value
    have : ∃ tok, find prefix_ (pre ++ v :: post) = some tok := by
      clear h hv
      induction pre with
      | nil =>
        obtain ⟨s, c, e⟩ := (carries_iff _ _ _).mp hc
        exact ⟨t, by simp [find, c, e]⟩
      | cons p pre ih =>
        obtain ⟨tok, ht⟩ := ih
        simp only [List.cons_append, find]
        cases cut p with
        | none => exact ⟨tok, ht⟩
        | some q =>
          obtain ⟨a, b⟩ := q
          by_cases he : eqFold a prefix_ = true
          · exact ⟨b, by simp [he]⟩
          · exact ⟨tok, by simp [he, ht]⟩
    obtain ⟨tok, ht⟩ := this
    rw [h] at ht; cases ht
  · intro h
    cases hf : find prefix_ vs with
    | none => rfl
    | some tok =>
      obtain ⟨pre, v, post, rfl, hc, _⟩ := (find_iff _ _ _).mp hf
      exact absurd hc (h v (by simp) tok)

/-! examples: `Bearer tok`, `bearer tok`, `BearerXtok`, `Bearer=tok`, two values -/
def s (x : String) : Str := x.toList.map Char.toNat

example : find (s "Bearer") [s "Bearer tok"] = some (s "tok") := by decide
example : find (s "Bearer") [s "bearer tok"] = some (s "tok") := by decide
example : find (s "Bearer") [s "BearerXtok"] = none := by decide
example : find (s "Bearer") [s "Bearer=tok", s "Basic dTpw"] = none := by decide
example : find (s "Bearer") [s "Basic dTpw", s "BEARER a b"] = some (s "a b") := by decide
example : find (s "Basic") [[66, 97, 0x17F, 105, 99, 32, 120]] = some [120] := by decide

end AuthH
