/-! Feasibility probe: functional model of gen/route_tree.go addRoute + route_node.go addChild. -/
namespace Tree
abbrev Bytes := List UInt8

structure Route where
  method : String
  path : String
deriving Repr

inductive Node where
  | mk (pfx : Bytes) (head : UInt8) (paramName : Option Bytes) (children : List Node) (routes : List Route)

namespace Node
def pfx : Node → Bytes | mk p _ _ _ _ => p
def head : Node → UInt8 | mk _ h _ _ _ => h
def paramName : Node → Option Bytes | mk _ _ n _ _ => n
def children : Node → List Node | mk _ _ _ c _ => c
def routes : Node → List Route | mk _ _ _ _ r => r
def isParam (n : Node) : Bool := n.paramName.isSome
end Node

def lcp : Bytes → Bytes → Nat
  | a :: as, b :: bs => if a = b then 1 + lcp as bs else 0
  | _, _ => 0

def indexOf (b : UInt8) : Bytes → Option Nat
  | [] => none
  | c :: cs => if c = b then some 0 else (indexOf b cs).map (· + 1)

inductive Part where
  | none                      -- no '{'
  | param (start stop : Nat)  -- stop is one past '}'
  | bad

def nextPathPart (s : Bytes) : Part :=
  match indexOf 0x7b s with
  | .none => .none
  | some st =>
    match indexOf 0x7d s with
    | .none => .bad
    | some e => if e < st then .bad else .param st (e + 1)

def eqFold (a b : String) : Bool := a.toUpper == b.toUpper

/-- Routes.AddRoute: refuse a case-insensitively equal method, keep sorted by method. -/
def addMethod (rs : List Route) (m : Route) : Except String (List Route) :=
  if rs.any (fun r => eqFold r.method m.method) then .error "duplicate method"
  else .ok ((rs ++ [m]).mergeSort (fun a b => a.method ≤ b.method))

def sortChildren (cs : List Node) : List Node := cs.mergeSort (fun a b => a.head ≤ b.head)

/-- addChild's recursion for a brand-new chain; `selfPfx` is the prefix the caller put into the
    node literal (`path` for nodes created by addRoute/tail, `[]` for the inner parameter node). -/
def mkChain (fuel : Nat) (path : Bytes) (selfPfx : Bytes) (selfParam : Option Bytes) (m : Route) : Except String Node :=
  match fuel with
  | 0 => .error "fuel"
  | fuel + 1 =>
    match nextPathPart path with
    | .bad => .error "parse"
    | .none => .ok (.mk selfPfx (path.headD 0) selfParam [] [m])
    | .param st e =>
      let name := (path.drop (st + 1)).take (e - st - 2)
      if st = 0 then
        let rest := path.drop e
        if rest.isEmpty then .ok (.mk selfPfx (path.headD 0) (some name) [] [m])
        else do
          let child ← mkChain fuel rest rest none m
          .ok (.mk selfPfx (path.headD 0) (some name) [child] [])
      else do
        let rest := path.drop st
        let child ← mkChain fuel rest [] (some name) m
        .ok (.mk (path.take st) (path.headD 0) selfParam [child] [])

def replaceFirst (cs : List Node) (h : UInt8) (n : Node) : List Node :=
  match cs with
  | [] => []
  | c :: cs => if c.head = h then n :: cs else c :: replaceFirst cs h n

/-- the loop of RouteTree.addRoute, one level per recursive call -/
def insert (fuel : Nat) (n : Node) (path : Bytes) (m : Route) : Except String Node :=
  match fuel with
  | 0 => .error "fuel"
  | fuel + 1 =>
    match n with
    | .mk p h pn cs rs =>
      if path.isEmpty then do
        let rs' ← addMethod rs m
        .ok (.mk p h pn cs rs')
      else
        let hd := path.headD 0
        match nextPathPart path with
        | .bad => .error "parse"
        | part =>
          let pend := match part with | .param _ e => e | _ => 0
          match cs.find? (fun c => c.head = hd) with
          | none => do
            let ch ← mkChain (path.length + 1) path path none m
            .ok (.mk p h pn (sortChildren (cs ++ [ch])) rs)
          | some c =>
            if c.isParam then do
              let c' ← insert fuel c (path.drop pend) m
              .ok (.mk p h pn (replaceFirst cs hd c') rs)
            else
              let cp := lcp path c.pfx
              if cp = c.pfx.length then do
                let c' ← insert fuel c (path.drop cp) m
                .ok (.mk p h pn (replaceFirst cs hd c') rs)
              else
                let old := Node.mk (c.pfx.drop cp) ((c.pfx.drop cp).headD 0) c.paramName c.children c.routes
                let rest := path.drop cp
                if rest.isEmpty then
                  .ok (.mk p h pn (replaceFirst cs hd (.mk (path.take cp) hd none [old] [m])) rs)
                else do
                  let ch ← mkChain (rest.length + 1) rest rest none m
                  .ok (.mk p h pn (replaceFirst cs hd (.mk (path.take cp) hd none (sortChildren [old, ch]) [])) rs)

def strOf (b : Bytes) : String := String.ofList (b.map (fun c => Char.ofNat c.toNat))

partial def dump (level : Nat) (n : Node) : String :=
  let rs := ",".intercalate (n.routes.map (fun r => r.method ++ ":" ++ r.path))
  let pn := match n.paramName with | some x => strOf x | none => ""
  s!"{level}[\"{strOf n.pfx}\",\"{pn}\",{rs}]" ++ String.join (n.children.map (dump (level + 1)))

def bytesOf (s : String) : Bytes := s.toList.map (fun c => c.toNat.toUInt8)

def runLine (line : String) : String := Id.run do
  let f := (line.splitOn " ").filter (· ≠ "")
  let mut root : Node := .mk [] 0 none [] []
  let mut errs := ""
  let mut i := 0
  let mut any := false
  while 2 * i + 1 < f.length do
    let m := f[2*i]!
    let p := f[2*i+1]!
    any := true
    match insert 1000 root (bytesOf p) ⟨m, p⟩ with
    | .ok r => root := r
    | .error _ => errs := errs ++ s!"ERR({i});"
    i := i + 1
  return errs ++ (if any then dump 0 root else "")

end Tree
