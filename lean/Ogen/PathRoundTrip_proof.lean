import Ogen.UriCodecLib
/-! Proof probe for C06/C01: PathUnescape ∘ PathEscape = id for every byte string, and the array parser
    inverts the joiner on the core domain. -/
namespace Codec

theorem forall_byte {P : UInt8 → Prop} (h : ∀ n : Fin 256, P (UInt8.ofFin n)) : ∀ c : UInt8, P c := by
  intro c; simpa using h c.toFin

theorem hex_rt : ∀ c : UInt8, isHex (hexU (c >>> 4)) = true ∧ isHex (hexU (c &&& 15)) = true ∧
    (unhex (hexU (c >>> 4)) <<< 4 ||| unhex (hexU (c &&& 15))) = c := by
  apply forall_byte; decide +kernel

theorem unescaped_not_pct : ∀ c : UInt8, escPathSeg c = false → (c == 0x25) = false := by
  apply forall_byte; decide +kernel

/-- what the client escapes, the server unescapes to the same bytes — for every byte string -/
theorem pathUnescape_pathEscape (s : Bytes) : pctUnescape false (pathEscape s) = some s := by
  induction s with
  | nil => rfl
  | cons c cs ih =>
    by_cases h : escPathSeg c = true
    · have hx := hex_rt c
      simp only [pathEscape, h, if_true]
      conv => lhs; unfold pctUnescape
      simp [hx.1, hx.2.1, hx.2.2, ih]
    · have h' : escPathSeg c = false := by simpa using h
      have hp := unescaped_not_pct c h'
      simp only [pathEscape, h', Bool.false_eq_true, if_false]
      conv => lhs; unfold pctUnescape
      simp [hp, ih]

/-- readValue on `x ++ sep :: rest` for delimiter-free `x` -/
theorem cut_free_append (sep : UInt8) (x rest : Bytes) (hx : contains x sep = false) :
    cut sep (x ++ sep :: rest) = (x, some rest) := by
  induction x with
  | nil => simp [cut]
  | cons c cs ih =>
    have hc : (c == sep) = false := by
      simp [contains] at hx; simpa using hx.1
    have hcs : contains cs sep = false := by
      simp [contains] at hx ⊢; exact hx.2
    simp only [List.cons_append]
    rw [cut]
    simp only [hc, Bool.false_eq_true, if_false]
    rw [ih hcs]

theorem cut_free (sep : UInt8) (x : Bytes) (hx : contains x sep = false) : cut sep x = (x, none) := by
  induction x with
  | nil => simp [cut]
  | cons c cs ih =>
    have hc : (c == sep) = false := by
      simp [contains] at hx; simpa using hx.1
    have hcs : contains cs sep = false := by
      simp [contains] at hx ⊢; exact hx.2
    rw [cut]
    simp only [hc, Bool.false_eq_true, if_false]
    rw [ih hcs]

/-- the path/label/matrix array parser gives back what was joined: non-empty list, delimiter-free items,
    last item non-empty (an empty last item is the `io.EOF` refusal, never a different value) -/
theorem parseArray_join (sep : UInt8) (items : List Bytes) (hne : items ≠ [])
    (hfree : ∀ it ∈ items, contains it sep = false) (hlast : items.getLast? ≠ some []) :
    ∀ fuel, items.length ≤ fuel → parseArray fuel sep (join sep items) = some items := by
  induction items with
  | nil => exact absurd rfl hne
  | cons x xs ih =>
    intro fuel hfuel
    cases fuel with
    | zero => simp at hfuel
    | succ fuel =>
      cases xs with
      | nil =>
        have hx : x ≠ [] := by simpa using hlast
        simp only [join, parseArray, readValue]
        rw [cut_free sep x (hfree x (List.mem_cons_self ..))]
        simp [hx]
      | cons y ys =>
        simp only [join, parseArray, readValue]
        rw [cut_free_append sep x _ (hfree x (List.mem_cons_self ..))]
        simp only [if_true]
        have := ih (by simp) (fun it hit => hfree it (List.mem_cons_of_mem _ hit))
          (by simpa [List.getLast?_cons_cons] using hlast) fuel (by simp at hfuel ⊢; omega)
        rw [this]
        simp

#print axioms pathUnescape_pathEscape
#print axioms parseArray_join
end Codec
