import Ogen.RouterLookupLib
/-! Proof probe for C05, the no-slash clause: if every parameter node of the tree is a leaf or is followed only by
    `/` (every `{param}` of the route set spans a whole path segment), no extracted argument contains a slash.
    (With other bytes after a parameter the clause is false: K5.) -/
namespace Tree

def tailsOf (c : Node) : List UInt8 := (c.children.filter (fun d => !d.isParam)).map (·.head)

/-- parameter nodes are followed by `/` only -/
inductive SegParams : Node → Prop
  | mk {n} : (n.isParam = true → ∀ b ∈ tailsOf n, b = 0x2f) → (∀ c ∈ n.children, SegParams c) → SegParams n

theorem SegParams.here {n} (h : SegParams n) : n.isParam = true → ∀ b ∈ tailsOf n, b = 0x2f := by
  cases h with | mk h1 _ => exact h1
theorem SegParams.kids {n} (h : SegParams n) : ∀ c ∈ n.children, SegParams c := by
  cases h with | mk _ h2 => exact h2

theorem cutAt_prefix (p : UInt8 → Bool) (s : Bytes) : ∀ b ∈ (cutAt p s).1, p b = false := by
  induction s with
  | nil => intro b hb; simp [cutAt] at hb
  | cons c cs ih =>
    intro b hb
    unfold cutAt at hb
    split at hb
    · simp at hb
    · rename_i hc
      simp only [List.mem_cons] at hb
      rcases hb with rfl | hb
      · simpa using hc
      · exact ih b hb

def NoSlashArgs (r : R) : Prop := ∀ a ∈ r.2, ∀ b ∈ a, b ≠ 0x2f

theorem viaStatic_ns {recEdge statics elem r}
    (hrec : ∀ c ∈ statics, ∀ rest r, recEdge c rest = some r → NoSlashArgs r)
    (h : viaStatic recEdge statics elem = some r) : NoSlashArgs r := by
  unfold viaStatic at h
  split at h
  · cases h
  · split at h
    · cases h
    · rename_i c hfind
      split at h
      · cases h
      · exact hrec c (List.mem_of_find?_eq_some hfind) _ r h

theorem viaParam_ns {recEdge c elem r}
    (hrec : ∀ rest r, recEdge c rest = some r → NoSlashArgs r)
    (htails : ∀ b ∈ tailsOf c, b = 0x2f)
    (h : viaParam recEdge c elem = some r) : NoSlashArgs r := by
  unfold viaParam at h
  simp only at h
  split at h
  · split at h
    · cases h
    · rename_i hns
      cases hE : recEdge c [] with
      | none => simp [hE] at h
      | some r' =>
        simp [hE] at h
        subst h
        intro a ha b hb
        simp only [List.mem_cons] at ha
        rcases ha with rfl | ha
        · intro hb2
          apply hns
          simp only [List.any_eq_true, decide_eq_true_eq]
          exact ⟨b, hb, hb2⟩
        · exact hrec [] r' hE a ha b hb
  · rename_i hne
    generalize hcut : cutAt _ elem = cu at h
    cases hE : recEdge c cu.2 with
    | none => simp [hE] at h
    | some r' =>
      simp [hE] at h
      subst h
      intro a ha b hb
      simp only [List.mem_cons] at ha
      rcases ha with rfl | ha
      · -- the cut stops at the first tail byte, and the tails are exactly '/'
        have hpre := cutAt_prefix (fun b => ((c.children.filter (fun d => !d.isParam)).map (·.head)).any (· = b)) elem
        rw [hcut] at hpre
        have hb' := hpre b hb
        intro hb2
        subst hb2
        -- some tail exists and it is '/'
        have : ∃ t, t ∈ tailsOf c := by
          cases ht : tailsOf c with
          | nil => exfalso; apply hne; unfold tailsOf at ht; simp [ht]
          | cons t _ => exact ⟨t, by simp⟩
        obtain ⟨t, ht⟩ := this
        have ht2 := htails t ht
        subst ht2
        unfold tailsOf at ht
        simp only [List.any_eq_false, decide_eq_true_eq] at hb'
        exact hb' _ ht rfl
      · exact hrec cu.2 r' hE a ha b hb

/-- **no unescaped slash in any extracted argument** when parameters span whole segments -/
theorem edge_no_slash (fuel : Nat) : ∀ n elem r, SegParams n → edge fuel n elem = some r → NoSlashArgs r := by
  induction fuel with
  | zero => intro n elem r _ h; simp [edge] at h
  | succ fuel ih =>
    intro n elem r hseg h
    unfold edge at h
    split at h
    · split at h
      · cases h; intro a ha; cases ha
      · cases h
    · split at h
      · cases h; intro a ha; cases ha
      · simp only at h
        split at h
        · cases h
        · split at h
          · rename_i r' hs
            cases h
            exact viaStatic_ns (fun c hc rest r hr =>
              ih c rest r (hseg.kids c (List.mem_filter.mp hc).1) hr) hs
          · split at h
            · cases h
            · rename_i c rest hfil
              have hmem : c ∈ n.children.filter (fun c => c.isParam) := by rw [hfil]; exact List.mem_cons_self ..
              have hc := List.mem_filter.mp hmem
              exact viaParam_ns (fun rest r hr => ih c rest r (hseg.kids c hc.1) hr)
                ((hseg.kids c hc.1).here (by simpa using hc.2)) h

#print axioms edge_no_slash
end Tree
