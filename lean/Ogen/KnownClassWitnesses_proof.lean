import Ogen.UriCodecLib
namespace Codec
/-- W3: header array `[]` comes back as `[""]` -/
theorem w3_witness : roundTrip ⟨.header, .simple, false, .arr, [0x70]⟩ (.arr []) = .ok (.arr [[]]) := by rfl
/-- W1: query/form/explode=false `[""]` comes back as `[]` -/
theorem w1_witness : roundTrip ⟨.query, .form, false, .arr, [0x70]⟩ (.arr [[]]) = .ok (.arr []) := by rfl
/-- W2: query/pipeDelimited/explode=false `[]` comes back as `[""]` -/
theorem w2_witness : roundTrip ⟨.query, .pipe, false, .arr, [0x70]⟩ (.arr []) = .ok (.arr [[]]) := by rfl
/-- W4: cookie/form/explode=false `[]` comes back as `[""]` -/
theorem w4_witness : roundTrip ⟨.cookie, .form, false, .arr, [0x70]⟩ (.arr []) = .ok (.arr [[]]) := by rfl
/-- P1 (before D13): an object without fields panics in every path style -/
theorem p1_witness : roundTrip ⟨.path, .simple, false, .obj, [0x70]⟩ (.obj []) = .panic := by rfl
end Codec
