import Ogen.UriCodecLib
namespace Codec
/-- W3: header array `[]` comes back as `[""]` -/
theorem w3_witness : roundTrip ⟨.header, .simple, false, .arr, [0x70]⟩ (.arr []) = .ok (.arr [[]]) := by rfl
/-- W1: query/form/explode=false `[""]` comes back as `[]` -/
theorem w1_witness : roundTrip ⟨.query, .form, false, .arr, [0x70]⟩ (.arr [[]]) = .ok (.arr []) := by rfl
/-- W2: query/pipeDelimited/explode=false `[]` comes back as `[""]` -/
theorem w2_witness : roundTrip ⟨.query, .pipe, false, .arr, [0x70]⟩ (.arr []) = .ok (.arr [[]]) := by rfl
/-- W4: cookie/form/explode=false `[]` comes back as `[""]` -/
theorem w4_witness : roundTrip ⟨.cookie, .form, false, .arr, [0x70]⟩ (.arr []) = .ok (.arr [[]]) := by rfl
/-- P1 (D13, fixed): an object without fields is refused by the path encoder (it used to panic) -/
theorem p1_refused : roundTrip ⟨.path, .simple, false, .obj, [0x70]⟩ (.obj []) = .encErr := by rfl
end Codec
