/-! C13, Unix timestamps in the four units: a model of `time.Unix`, `time.UnixMilli`, `time.UnixMicro` and the
    accessors `Unix()`, `UnixMilli()`, `UnixMicro()`, `UnixNano()` as `conv.ToUnix*` / `conv.Unix*ToString`
    compose them (the integer ↔ text part is `IntRoundTrip_proof`). An instant is `(sec, nsec)` with
    `0 ≤ nsec < 10⁹`, integers are unbounded (the int64 range is a hypothesis of the correspondence, not of the
    arithmetic). Go's `/` and `%` truncate toward zero; `time.Unix` normalises a negative remainder. -/
namespace UnixT

structure Instant where
  sec : Int
  nsec : Int
deriving DecidableEq, Repr

def Instant.WF (t : Instant) : Prop := 0 ≤ t.nsec ∧ t.nsec < 1000000000

/-- Go's truncated division and remainder by a positive constant -/
def goDiv (a b : Int) : Int := if 0 ≤ a then a / b else -((-a) / b)
def goMod (a b : Int) : Int := a - goDiv a b * b

/-- `time.Unix(sec, nsec)`: nsec outside [0, 1e9) is carried into sec -/
def unix (sec nsec : Int) : Instant :=
  if nsec < 0 ∨ nsec ≥ 1000000000 then
    let n := goDiv nsec 1000000000
    let sec := sec + n
    let nsec := nsec - n * 1000000000
    if nsec < 0 then ⟨sec - 1, nsec + 1000000000⟩ else ⟨sec, nsec⟩
  else ⟨sec, nsec⟩

/-- units per second and nanoseconds per unit -/
inductive Unit' where | seconds | milli | micro | nano deriving DecidableEq, Repr
def perSec : Unit' → Int | .seconds => 1 | .milli => 1000 | .micro => 1000000 | .nano => 1000000000
def nsPer : Unit' → Int | .seconds => 1000000000 | .milli => 1000000 | .micro => 1000 | .nano => 1

/-- `ToUnixSeconds/Milli/Micro/Nano` after the integer is parsed -/
def fromUnit (u : Unit') (n : Int) : Instant :=
  match u with
  | .seconds => unix n 0
  | .nano => unix 0 n
  | .milli => unix (goDiv n 1000) (goMod n 1000 * 1000000)
  | .micro => unix (goDiv n 1000000) (goMod n 1000000 * 1000)

/-- `t.Unix()`, `t.UnixMilli()`, `t.UnixMicro()`, `t.UnixNano()` -/
def toUnit (u : Unit') (t : Instant) : Int :=
  match u with
  | .seconds => t.sec
  | .milli => t.sec * 1000 + t.nsec / 1000000
  | .micro => t.sec * 1000000 + t.nsec / 1000
  | .nano => t.sec * 1000000000 + t.nsec

theorem unix_wf (sec nsec : Int) : (unix sec nsec).WF := by
  unfold unix Instant.WF goDiv
  split
  · simp only
    split <;> split <;> simp only <;> omega
  · simp only; omega

/-- `time.Unix` does not change the instant: sec·10⁹ + nsec is preserved -/
theorem unix_value (sec nsec : Int) :
    (unix sec nsec).sec * 1000000000 + (unix sec nsec).nsec = sec * 1000000000 + nsec := by
  unfold unix goDiv
  split
  · simp only
    split <;> split <;> simp only <;> omega
  · rfl

theorem fromUnit_wf (u : Unit') (n : Int) : (fromUnit u n).WF := by
  cases u <;> exact unix_wf _ _

/-- **text → value → text**: every integer comes back as itself, in every unit (negative ones included) -/
theorem to_from (u : Unit') (n : Int) : toUnit u (fromUnit u n) = n := by
  have hv := fun s ns => unix_value s ns
  have hw := fun s ns => unix_wf s ns
  cases u with
  | seconds =>
    have h1 := hv n 0; have h2 := hw n 0
    unfold Instant.WF at h2
    show (unix n 0).sec = n
    omega
  | nano =>
    have h1 := hv 0 n
    show (unix 0 n).sec * 1000000000 + (unix 0 n).nsec = n
    omega
  | milli =>
    have h1 := hv (goDiv n 1000) (goMod n 1000 * 1000000)
    have h2 := hw (goDiv n 1000) (goMod n 1000 * 1000000)
    unfold Instant.WF at h2
    show (unix _ _).sec * 1000 + (unix _ _).nsec / 1000000 = n
    generalize unix (goDiv n 1000) (goMod n 1000 * 1000000) = t at *
    unfold goMod at h1
    generalize goDiv n 1000 = q at *
    omega
  | micro =>
    have h1 := hv (goDiv n 1000000) (goMod n 1000000 * 1000)
    have h2 := hw (goDiv n 1000000) (goMod n 1000000 * 1000)
    unfold Instant.WF at h2
    show (unix _ _).sec * 1000000 + (unix _ _).nsec / 1000 = n
    generalize unix (goDiv n 1000000) (goMod n 1000000 * 1000) = t at *
    unfold goMod at h1
    generalize goDiv n 1000000 = q at *
    omega

/-- what `fromUnit` builds is a whole number of units -/
theorem fromUnit_whole (u : Unit') (n : Int) : (fromUnit u n).nsec % nsPer u = 0 := by
  cases u with
  | seconds =>
    show (unix n 0).nsec % 1000000000 = 0
    unfold unix; simp
  | nano => show (unix 0 n).nsec % 1 = 0; omega
  | milli =>
    show (unix (goDiv n 1000) (goMod n 1000 * 1000000)).nsec % 1000000 = 0
    generalize goMod n 1000 = m
    generalize goDiv n 1000 = q
    unfold unix goDiv
    split
    · simp only
      split <;> split <;> simp only <;> omega
    · simp only; omega
  | micro =>
    show (unix (goDiv n 1000000) (goMod n 1000000 * 1000)).nsec % 1000 = 0
    generalize goMod n 1000000 = m
    generalize goDiv n 1000000 = q
    unfold unix goDiv
    split
    · simp only
      split <;> split <;> simp only <;> omega
    · simp only; omega

/-- **value → text → value at the unit's resolution**: the instant comes back truncated to the unit (toward
    the past), i.e. unchanged when it is a whole number of units -/
theorem from_to (u : Unit') (t : Instant) (h : t.WF) :
    fromUnit u (toUnit u t) = ⟨t.sec, t.nsec - t.nsec % nsPer u⟩ := by
  have hw := fromUnit_wf u (toUnit u t)
  have ht := to_from u (toUnit u t)
  have hm := fromUnit_whole u (toUnit u t)
  unfold Instant.WF at h hw
  generalize hr : fromUnit u (toUnit u t) = r at *
  obtain ⟨rs, rn⟩ := r
  cases u <;> simp only [toUnit, nsPer] at * <;> congr 1 <;> omega

/-- whole instants round-trip exactly -/
theorem from_to_exact (u : Unit') (t : Instant) (h : t.WF) (hu : t.nsec % nsPer u = 0) :
    fromUnit u (toUnit u t) = t := by
  rw [from_to u t h, hu]; simp

/-! non-vacuity -/
example : fromUnit .milli (-1) = ⟨-1, 999000000⟩ := by decide
example : toUnit .milli ⟨-1, 999000000⟩ = -1 := by decide
example : fromUnit .micro 1700000000123456 = ⟨1700000000, 123456000⟩ := by decide
example : fromUnit .nano (-1) = ⟨-1, 999999999⟩ := by decide

/-! line protocol: `unixt <unit> <integer>` ↦ `sec nsec back` -/
def parseIntS (s : String) : Option Int :=
  if s.startsWith "-" then (s.drop 1).toNat?.map (fun n => -(n : Int)) else s.toNat?.map (fun n => (n : Int))

def unixLine (line : String) : String :=
  match (line.splitOn " ").filter (· ≠ "") with
  | [u, n] =>
    let unit : Option Unit' := match u with
      | "seconds" => some .seconds | "milli" => some .milli | "micro" => some .micro | "nano" => some .nano | _ => none
    match unit, parseIntS n with
    | some un, some v =>
      let t := fromUnit un v
      s!"{t.sec} {t.nsec} {toUnit un t}"
    | _, _ => "bad"
  | _ => "bad"
end UnixT
