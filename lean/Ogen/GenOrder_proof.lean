import Ogen.GenOrderLib
/-!
# C10 — the generator's result does not depend on map order, schedule or pool content (proofs)

* `klt` is a strict total order on byte strings; `sortedKeys l` is strictly sorted and has exactly the members
  of `l`; two strictly sorted lists with the same members are equal ⇒ `sortedKeys_canonical`.
* the depth-first walk `visit g roots []` returns exactly the nodes reachable from the roots (`mem_visit_iff`);
  reachability only depends on *which* nodes are roots ⇒ `collect_root_order`.
* writes of pairwise different names commute ⇒ `runWrites_perm`.
* `getBuffer` resets ⇒ `generate_pool_irrelevant`.
* composition ⇒ `writeSource_world_irrelevant`.
-/
namespace GenOrder

/-! ## the order on keys -/

theorem klt_irrefl : ∀ a : Key, klt a a = false
  | [] => rfl
  | a :: as => by
    have : ¬ a < a := by simp [UInt8.lt_iff_toNat_lt]
    simp [klt, this, klt_irrefl as]

theorem klt_trans : ∀ a b c : Key, klt a b = true → klt b c = true → klt a c = true
  | [], [], _ => by simp [klt]
  | [], _ :: _, [] => by simp [klt]
  | [], _ :: _, _ :: _ => by simp [klt]
  | _ :: _, [], _ => by simp [klt]
  | _ :: _, _ :: _, [] => by simp [klt]
  | a :: as, b :: bs, c :: cs => by
    simp only [klt, UInt8.lt_iff_toNat_lt]
    intro h1 h2
    by_cases hab : a.toNat < b.toNat
    · by_cases hbc : b.toNat < c.toNat
      · have : a.toNat < c.toNat := by omega
        simp [this]
      · simp [hbc] at h2
        have hcb : b.toNat ≤ c.toNat := h2.1
        have : a.toNat < c.toNat := by omega
        simp [this]
    · simp [hab] at h1
      have hba : a.toNat ≤ b.toNat := h1.1
      by_cases hbc : b.toNat < c.toNat
      · have : a.toNat < c.toNat := by omega
        simp [this]
      · simp [hbc] at h2
        have hcb : b.toNat ≤ c.toNat := h2.1
        have h3 : ¬ a.toNat < c.toNat := by omega
        have h4 : ¬ c.toNat < a.toNat := by omega
        simp [h3, h4]
        exact klt_trans as bs cs h1.2 h2.2

theorem klt_total : ∀ a b : Key, klt a b = false → klt b a = false → a = b
  | [], [] => by simp
  | [], _ :: _ => by simp [klt]
  | _ :: _, [] => by simp [klt]
  | a :: as, b :: bs => by
    simp only [klt, UInt8.lt_iff_toNat_lt]
    intro h1 h2
    by_cases hab : a.toNat < b.toNat
    · simp [hab] at h1
    · by_cases hba : b.toNat < a.toNat
      · simp [hba] at h2
      · simp [hab, hba] at h1 h2
        have : a = b := UInt8.toNat_inj.mp (by omega)
        rw [this, klt_total as bs h1 h2]

theorem klt_asymm (a b : Key) (h : klt a b = true) : klt b a = false := by
  cases hb : klt b a
  · rfl
  · have := klt_trans a b a h hb
    rw [klt_irrefl] at this
    cases this

/-! ## strictly sorted lists -/

def SSorted : List Key → Prop
  | [] => True
  | x :: xs => (∀ y ∈ xs, klt x y = true) ∧ SSorted xs

theorem mem_insertKey (k x : Key) (l : List Key) : x ∈ insertKey k l ↔ x = k ∨ x ∈ l := by
  induction l with
  | nil => simp [insertKey]
  | cons a l ih =>
    simp only [insertKey]
    split
    · simp
    · split
      · rename_i h; subst h; simp
      · simp [ih]
        constructor
        · rintro (h | h | h) <;> simp [h]
        · rintro (h | h | h) <;> simp [h]

theorem ssorted_insertKey (k : Key) (l : List Key) (h : SSorted l) : SSorted (insertKey k l) := by
  induction l with
  | nil => simp [insertKey, SSorted]
  | cons a l ih =>
    simp only [insertKey]
    split
    · rename_i hka
      refine ⟨?_, h⟩
      intro y hy
      cases hy with
      | head => exact hka
      | tail _ hy => exact klt_trans _ _ _ hka (h.1 y hy)
    · split
      · exact h
      · rename_i hka hne
        refine ⟨?_, ih h.2⟩
        intro y hy
        rcases (mem_insertKey k y l).mp hy with hy | hy
        · subst hy
          cases hak : klt a y
          · exact absurd (klt_total y a (by simpa using hka) hak) hne
          · rfl
        · exact h.1 y hy

theorem mem_sortedKeys (x : Key) (l : List Key) : x ∈ sortedKeys l ↔ x ∈ l := by
  induction l with
  | nil => simp [sortedKeys]
  | cons a l ih =>
    have : sortedKeys (a :: l) = insertKey a (sortedKeys l) := rfl
    rw [this, mem_insertKey, ih]; simp

theorem ssorted_sortedKeys (l : List Key) : SSorted (sortedKeys l) := by
  induction l with
  | nil => simp [sortedKeys, SSorted]
  | cons a l ih => exact ssorted_insertKey a _ ih

/-- a strictly sorted list is determined by its members -/
theorem ssorted_ext : ∀ (l₁ l₂ : List Key), SSorted l₁ → SSorted l₂ → (∀ x, x ∈ l₁ ↔ x ∈ l₂) → l₁ = l₂
  | [], [], _, _, _ => rfl
  | [], b :: _, _, _, h => by have := (h b).mpr (by simp); cases this
  | a :: _, [], _, _, h => by have := (h a).mp (by simp); cases this
  | a :: as, b :: bs, h₁, h₂, h => by
    have hab : a = b := by
      have ha := (h a).mp (by simp)
      have hb := (h b).mpr (by simp)
      rcases List.mem_cons.mp ha with ha | ha
      · exact ha
      · rcases List.mem_cons.mp hb with hb | hb
        · exact hb.symm
        · have h1 := h₂.1 a ha
          have h2 := h₁.1 b hb
          rw [klt_asymm _ _ h1] at h2; cases h2
    subst hab
    have hna : a ∉ as := fun hm => by have := h₁.1 a hm; rw [klt_irrefl] at this; cases this
    have hnb : a ∉ bs := fun hm => by have := h₂.1 a hm; rw [klt_irrefl] at this; cases this
    have : as = bs := ssorted_ext as bs h₁.2 h₂.2 (by
      intro x
      constructor
      · intro hx
        rcases List.mem_cons.mp ((h x).mp (List.mem_cons_of_mem _ hx)) with e | e
        · subst e; exact absurd hx hna
        · exact e
      · intro hx
        rcases List.mem_cons.mp ((h x).mpr (List.mem_cons_of_mem _ hx)) with e | e
        · subst e; exact absurd hx hnb
        · exact e)
    rw [this]

/-- **`SortedKeys` is canonical**: the result only depends on *which* keys the map holds, not on the order
    (or multiplicity) in which a loop produced them -/
theorem sortedKeys_canonical (l₁ l₂ : List Key) (h : ∀ x, x ∈ l₁ ↔ x ∈ l₂) : sortedKeys l₁ = sortedKeys l₂ :=
  ssorted_ext _ _ (ssorted_sortedKeys l₁) (ssorted_sortedKeys l₂)
    (fun x => by rw [mem_sortedKeys, mem_sortedKeys]; exact h x)

theorem sortedKeys_perm (l₁ l₂ : List Key) (h : l₁.Perm l₂) : sortedKeys l₁ = sortedKeys l₂ :=
  sortedKeys_canonical _ _ (fun _ => h.mem_iff)

/-! ## the walk visits exactly the reachable types -/

/-- reachable from the roots through references (only real nodes count; `nil` is skipped) -/
inductive Reach (g : Graph) (roots : List Nat) : Nat → Prop
  | root {n} : n ∈ roots → n < g.size → Reach g roots n
  | step {m c} : Reach g roots m → c ∈ g.kids m → c < g.size → Reach g roots c

/-- every reference of a seen node is seen or pending -/
def Inv (g : Graph) (w seen : List Nat) : Prop :=
  ∀ m ∈ seen, ∀ c ∈ g.kids m, c < g.size → c ∈ seen ∨ c ∈ w

theorem visit_closed (g : Graph) (w seen : List Nat) (h : Inv g w seen) : Inv g [] (visit g w seen) := by
  fun_induction visit g w seen with
  | case1 seen => exact h
  | case2 n w seen hc ih =>
    apply ih
    intro m hm c hcm hcs
    rcases List.mem_cons.mp hm with e | hm
    · subst e; right; exact List.mem_append_left _ hcm
    · rcases h m hm c hcm hcs with h1 | h1
      · left; exact List.mem_cons_of_mem _ h1
      · rcases List.mem_cons.mp h1 with e | h1
        · subst e; left; exact List.mem_cons_self
        · right; exact List.mem_append_right _ h1
  | case3 n w seen hc ih =>
    apply ih
    intro m hm c hcm hcs
    rcases h m hm c hcm hcs with h1 | h1
    · left; exact h1
    · rcases List.mem_cons.mp h1 with e | h1
      · subst e
        left
        by_cases hin : c ∈ seen
        · exact hin
        · exact absurd ⟨hcs, hin⟩ hc
      · right; exact h1

theorem visit_keeps (g : Graph) (w seen : List Nat) :
    (∀ x ∈ seen, x ∈ visit g w seen) ∧ (∀ x ∈ w, x < g.size → x ∈ visit g w seen) := by
  fun_induction visit g w seen with
  | case1 seen => exact ⟨fun _ h => h, fun _ h => by cases h⟩
  | case2 n w seen hc ih =>
    refine ⟨fun x hx => ih.1 x (List.mem_cons_of_mem _ hx), ?_⟩
    intro x hx hxs
    rcases List.mem_cons.mp hx with e | hx
    · subst e; exact ih.1 x List.mem_cons_self
    · exact ih.2 x (List.mem_append_right _ hx) hxs
  | case3 n w seen hc ih =>
    refine ⟨ih.1, ?_⟩
    intro x hx hxs
    rcases List.mem_cons.mp hx with e | hx
    · subst e
      by_cases hin : x ∈ seen
      · exact ih.1 x hin
      · exact absurd ⟨hxs, hin⟩ hc
    · exact ih.2 x hx hxs

theorem visit_sound (g : Graph) (roots w seen : List Nat)
    (hs : ∀ x ∈ seen, Reach g roots x) (hw : ∀ x ∈ w, x < g.size → Reach g roots x) :
    ∀ x ∈ visit g w seen, Reach g roots x := by
  fun_induction visit g w seen with
  | case1 seen => exact hs
  | case2 n w seen hc ih =>
    have hn : Reach g roots n := hw n List.mem_cons_self hc.1
    apply ih
    · intro x hx
      rcases List.mem_cons.mp hx with e | hx
      · subst e; exact hn
      · exact hs x hx
    · intro x hx hxs
      rcases List.mem_append.mp hx with hx | hx
      · exact Reach.step hn hx hxs
      · exact hw x (List.mem_cons_of_mem _ hx) hxs
  | case3 n w seen hc ih =>
    exact ih hs (fun x hx hxs => hw x (List.mem_cons_of_mem _ hx) hxs)

/-- **the walk returns exactly the reachable nodes**, whatever the order of the roots -/
theorem mem_visit_iff (g : Graph) (roots : List Nat) (n : Nat) :
    n ∈ visit g roots [] ↔ Reach g roots n := by
  constructor
  · exact visit_sound g roots roots [] (fun _ h => by cases h) (fun x hx hxs => Reach.root hx hxs) n
  · intro h
    induction h with
    | root hr hs => exact (visit_keeps g roots []).2 _ hr hs
    | step _ hk hs ih =>
      have hcl := visit_closed g roots [] (fun _ h => by cases h)
      rcases hcl _ ih _ hk hs with h | h
      · exact h
      · cases h

theorem reach_congr (g : Graph) (r₁ r₂ : List Nat) (h : ∀ n, n ∈ r₁ → n ∈ r₂) (n : Nat)
    (hr : Reach g r₁ n) : Reach g r₂ n := by
  induction hr with
  | root hr hs => exact Reach.root (h _ hr) hs
  | step _ hk hs ih => exact Reach.step ih hk hs

/-- **`collectStrings` does not depend on the order in which the type maps are ranged over** -/
theorem collect_root_order (g : Graph) (r₁ r₂ : List Nat) (h : ∀ n, n ∈ r₁ ↔ n ∈ r₂) :
    collect g r₁ = collect g r₂ := by
  unfold collect
  apply sortedKeys_canonical
  intro x
  simp only [List.mem_flatMap, mem_visit_iff]
  constructor
  · rintro ⟨n, hn, hx⟩; exact ⟨n, reach_congr g r₁ r₂ (fun n => (h n).mp) n hn, hx⟩
  · rintro ⟨n, hn, hx⟩; exact ⟨n, reach_congr g r₂ r₁ (fun n => (h n).mpr) n hn, hx⟩

/-- what `collect` returns: the sorted, duplicate-free strings of the reachable types -/
theorem mem_collect (g : Graph) (roots : List Nat) (x : Key) :
    x ∈ collect g roots ↔ ∃ n, Reach g roots n ∧ x ∈ g.strs n := by
  unfold collect
  rw [mem_sortedKeys]
  simp only [List.mem_flatMap, mem_visit_iff]

theorem collect_sorted (g : Graph) (roots : List Nat) : SSorted (collect g roots) :=
  ssorted_sortedKeys _

/-! ## parallel writers -/

theorem lookup_foldl_write (ws : List (Key × Key)) (fs : FS) (name : Key) :
    lookup (ws.foldl write fs) name =
      match lookup ws.reverse name with
      | some c => some c
      | none => lookup fs name := by
  induction ws generalizing fs with
  | nil => simp [lookup]
  | cons w ws ih =>
    rw [List.foldl_cons, ih]
    have hrev : ∀ (l : FS) (w : Key × Key), lookup (l ++ [w]) name =
        match lookup l name with
        | some c => some c
        | none => if w.1 = name then some w.2 else none := by
      intro l w
      induction l with
      | nil => simp [lookup]
      | cons a l ih2 =>
        obtain ⟨an, ac⟩ := a
        simp only [List.cons_append, lookup]
        split
        · rfl
        · exact ih2
    rw [List.reverse_cons, hrev]
    cases lookup ws.reverse name with
    | some c => rfl
    | none =>
      obtain ⟨wn, wc⟩ := w
      simp only [write, lookup]
      split <;> rfl

/-- with pairwise different names, looking a name up finds the one write of that name -/
theorem lookup_of_mem (l : FS) (hn : (l.map (·.1)).Nodup) (name c : Key) (hm : (name, c) ∈ l) :
    lookup l name = some c := by
  induction l with
  | nil => cases hm
  | cons a l ih =>
    obtain ⟨an, ac⟩ := a
    simp only [List.map_cons, List.nodup_cons] at hn
    rcases List.mem_cons.mp hm with e | hm
    · cases e; simp [lookup]
    · have : an ≠ name := by
        intro e; subst e
        exact hn.1 (List.mem_map.mpr ⟨(an, c), hm, rfl⟩)
      simp [lookup, this, ih hn.2 hm]

theorem lookup_none (l : FS) (name : Key) (h : ∀ c, (name, c) ∉ l) : lookup l name = none := by
  induction l with
  | nil => rfl
  | cons a l ih =>
    obtain ⟨an, ac⟩ := a
    have : an ≠ name := by
      intro e; subst e; exact h ac List.mem_cons_self
    simp [lookup, this]
    exact ih (fun c hc => h c (List.mem_cons_of_mem _ hc))

/-- what is on disk after all tasks finished: for every written name the content its task produced -/
theorem lookup_runWrites (ws : List (Key × Key)) (hn : (ws.map (·.1)).Nodup) (name : Key) :
    (∀ c, (name, c) ∈ ws → lookup (runWrites ws) name = some c) ∧
    ((∀ c, (name, c) ∉ ws) → lookup (runWrites ws) name = none) := by
  unfold runWrites
  rw [lookup_foldl_write]
  have hn' : (ws.reverse.map (·.1)).Nodup := by
    exact ((List.reverse_perm ws).map _).nodup_iff.mpr hn
  constructor
  · intro c hc
    rw [lookup_of_mem ws.reverse hn' name c (List.mem_reverse.mpr hc)]
  · intro h
    rw [lookup_none ws.reverse name (fun c hc => h c (List.mem_reverse.mp hc))]
    rfl

/-- **the order in which the template tasks finish does not matter** (each writes its own file) -/
theorem runWrites_perm (ws ws' : List (Key × Key)) (hn : (ws.map (·.1)).Nodup) (hp : ws.Perm ws')
    (name : Key) : lookup (runWrites ws) name = lookup (runWrites ws') name := by
  have hn' : (ws'.map (·.1)).Nodup := (hp.map _).nodup_iff.mp hn
  by_cases h : ∃ c, (name, c) ∈ ws
  · obtain ⟨c, hc⟩ := h
    rw [(lookup_runWrites ws hn name).1 c hc, (lookup_runWrites ws' hn' name).1 c (hp.mem_iff.mp hc)]
  · have h1 : ∀ c, (name, c) ∉ ws := fun c hc => h ⟨c, hc⟩
    have h2 : ∀ c, (name, c) ∉ ws' := fun c hc => h ⟨c, hp.mem_iff.mpr hc⟩
    rw [(lookup_runWrites ws hn name).2 h1, (lookup_runWrites ws' hn' name).2 h2]

/-- and it *does* matter when two tasks write one name: the hypothesis is needed -/
theorem runWrites_same_name_matters :
    lookup (runWrites [([1], [10]), ([1], [20])]) [1] ≠ lookup (runWrites [([1], [20]), ([1], [10])]) [1] := by
  decide

/-! ## buffer pool -/

theorem getBuffer_empty (pool : List Key) (pick : Nat) : getBuffer pool pick = [] := by
  simp [getBuffer]

/-- **what a task renders does not depend on what earlier generations left in the pool** -/
theorem generate_pool_irrelevant {α} (render : α → Key) (pool : List Key) (pick : Nat) (cfg : α) :
    generate render pool pick cfg = render cfg := by
  simp [generate, getBuffer_empty]

/-! ## composition -/

/-- the writes a world performs -/
def worldWrites (g : Graph) (ts : Array Tmpl) (w : World) : List (Key × Key) :=
  w.sched.filterMap (fun i => (ts[i]?).map (fun t =>
    (t.file, generate t.render w.pool (w.pick i) (collect g w.rootOrder))))

theorem worldWrites_eq (g : Graph) (ts : Array Tmpl) (w : World) :
    worldWrites g ts w = w.sched.filterMap (fun i => (ts[i]?).map (fun t =>
      (t.file, t.render (collect g w.rootOrder)))) := by
  unfold worldWrites
  simp [generate_pool_irrelevant]

/-- **two runs of `WriteSource` on the same IR leave the same files**, when
    the maps hold the same types (in whatever order they are ranged over), every task runs once in each run (in
    whatever order they finish), and the file names of the templates differ — regardless of pool content and of
    which buffer a task happens to get -/
theorem writeSource_world_irrelevant (g : Graph) (ts : Array Tmpl) (w₁ w₂ : World)
    (hroots : ∀ n, n ∈ w₁.rootOrder ↔ n ∈ w₂.rootOrder)
    (hsched : w₁.sched.Perm w₂.sched)
    (hnames : ((w₁.sched.filterMap (fun i => (ts[i]?).map (fun t : Tmpl => t.file)))).Nodup)
    (name : Key) :
    lookup (writeSource g ts w₁) name = lookup (writeSource g ts w₂) name := by
  have e1 : writeSource g ts w₁ = runWrites (worldWrites g ts w₁) := rfl
  have e2 : writeSource g ts w₂ = runWrites (worldWrites g ts w₂) := rfl
  rw [e1, e2, worldWrites_eq, worldWrites_eq, collect_root_order g _ _ hroots]
  apply runWrites_perm
  · rw [List.map_filterMap]
    have : (fun i : Nat => Option.map (fun x : Key × Key => x.1)
        ((ts[i]?).map (fun t : Tmpl => (t.file, t.render (collect g w₂.rootOrder))))) =
        (fun i : Nat => (ts[i]?).map (fun t : Tmpl => t.file)) := by
      funext i; cases ts[i]? <;> rfl
    rw [this]; exact hnames
  · exact hsched.filterMap _

end GenOrder
