/-!
# C19 — concurrent use of one generated client / server: the non-interference argument (model + proofs)

The generated code keeps per-request state in locals (decoded parameters, body, encoder) and only *reads*
package-level state after `init` (the `regexMap` / `ratMap` tables, the server / client configuration).
`Machine` is that shape: an atomic step of a request is a function of the immutable globals and of the request's
own state.  A schedule is the list of request numbers in the order in which the Go scheduler lets them take
steps.  `interleaving_irrelevant`: after any schedule, request `i` is in the state it reaches alone after the
same number of its own steps — so the outcome of a call that ran to completion does not depend on what ran
concurrently.  The premise is exactly "no step writes shared state": `SharedMachine` allows it and
`shared_write_is_schedule_dependent` exhibits two schedules with the same step counts and different outcomes.
Buffers taken from a pool are shared state of a restricted kind: `PoolMachine` hands a request an arbitrary
left-over buffer; with the reset-on-get discipline (`jx.GetEncoder` / `GetDecoder`) outcomes do not depend on
which buffer that was (`pool_choice_irrelevant`).

What the model cannot exhibit: the Go memory model (a data race is not an interleaving of atomic steps) — the
race-detector stress of `harness/cmd/corr/c19.go` is the check for that clause.
-/
namespace Conc

structure Machine (G L : Type) where
  step : G → L → L

/-- run a schedule: entry `i` lets request `i` take one step -/
def runSched {G L} (m : Machine G L) (g : G) (st : Nat → L) : List Nat → (Nat → L)
  | [] => st
  | i :: rest => runSched m g (fun j => if j = i then m.step g (st j) else st j) rest

def iter {α} (f : α → α) : Nat → α → α
  | 0, a => a
  | n + 1, a => iter f n (f a)

/-- **non-interference**: whatever the interleaving, request `i` ends where it ends when it runs alone for as
    many steps as the schedule gave it -/
theorem interleaving_irrelevant {G L} (m : Machine G L) (g : G) (st : Nat → L) (sched : List Nat) (i : Nat) :
    runSched m g st sched i = iter (m.step g) (sched.count i) (st i) := by
  induction sched generalizing st with
  | nil => rfl
  | cons j rest ih =>
    rw [runSched, ih]
    by_cases h : i = j
    · subst h; simp [List.count_cons, iter]
    · have : (j == i) = false := by simp; exact fun e => h e.symm
      simp [List.count_cons, this, h]

/-- running alone: the schedule that only contains `i` -/
theorem alone {G L} (m : Machine G L) (g : G) (st : Nat → L) (n i : Nat) :
    runSched m g st (List.replicate n i) i = iter (m.step g) n (st i) := by
  rw [interleaving_irrelevant]; simp

/-- **every call's outcome equals the outcome it has when run alone** -/
theorem outcome_as_alone {G L} (m : Machine G L) (g : G) (st : Nat → L) (sched : List Nat) (i : Nat) :
    runSched m g st sched i = runSched m g st (List.replicate (sched.count i) i) i := by
  rw [interleaving_irrelevant, alone]

/-- two schedules that give `i` the same number of steps agree on `i` -/
theorem schedules_agree {G L} (m : Machine G L) (g : G) (st : Nat → L) (s₁ s₂ : List Nat) (i : Nat)
    (h : s₁.count i = s₂.count i) : runSched m g st s₁ i = runSched m g st s₂ i := by
  rw [interleaving_irrelevant, interleaving_irrelevant, h]

/-- other requests' initial states do not matter either (no leakage of parameters or bodies) -/
theorem others_irrelevant {G L} (m : Machine G L) (g : G) (st st' : Nat → L) (sched : List Nat) (i : Nat)
    (h : st i = st' i) : runSched m g st sched i = runSched m g st' sched i := by
  rw [interleaving_irrelevant, interleaving_irrelevant, h]

/-! ### the premise is needed: a step that may write shared state -/

structure SharedMachine (S L : Type) where
  step : S → L → S × L

def runShared {S L} (m : SharedMachine S L) (s : S) (st : Nat → L) : List Nat → S × (Nat → L)
  | [] => (s, st)
  | i :: rest =>
    let (s', l') := m.step s (st i)
    runShared m s' (fun j => if j = i then l' else st j) rest

/-- a "last request seen" cell: each request stores its number and reads the cell back later -/
def leaky : SharedMachine Nat (Nat × Nat × Nat) where
  step := fun cell (me, pc, seen) => if pc = 0 then (me, (me, 1, seen)) else (cell, (me, 2, cell))

theorem shared_write_is_schedule_dependent :
    let st : Nat → Nat × Nat × Nat := fun i => (i, 0, 0)
    ((runShared leaky 0 st [1, 1, 2, 2]).2 1).2.2 ≠ ((runShared leaky 0 st [1, 2, 1, 2]).2 1).2.2 := by
  decide

/-! ### pooled buffers with reset-on-get -/

/-- a request's use of a pooled buffer: take one (whatever the pool hands out), reset it, write the rendering of
    the request's own data into it, read the result, give it back -/
def usePooled {D} (render : D → List UInt8) (handedOut : List UInt8) (d : D) : List UInt8 × List UInt8 :=
  let buf := handedOut.take 0      -- reset
  let buf := buf ++ render d
  (buf, buf)                        -- (result read by the request, buffer returned to the pool)

/-- **no leakage through pooled buffers**: the result does not depend on the buffer that was handed out -/
theorem pool_choice_irrelevant {D} (render : D → List UInt8) (b₁ b₂ : List UInt8) (d : D) :
    (usePooled render b₁ d).1 = (usePooled render b₂ d).1 := by
  simp [usePooled]

/-- without the reset it would -/
def usePooledNoReset {D} (render : D → List UInt8) (handedOut : List UInt8) (d : D) : List UInt8 :=
  handedOut ++ render d

theorem no_reset_leaks : usePooledNoReset (fun (d : Nat) => [d.toUInt8]) [7] 1 ≠
    usePooledNoReset (fun (d : Nat) => [d.toUInt8]) [] 1 := by decide

end Conc
