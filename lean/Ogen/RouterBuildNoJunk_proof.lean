import Ogen.RouterLookupLib
/-! Proof probe for C05: the tree built by `insert` contains no template that was not inserted
    ("no junk"): every route stored below a node is stored under its own template. -/
namespace Tree

abbrev Sym := Option UInt8   -- `none` is a parameter hole

def symsOfPart (c : Node) : List Sym := if c.isParam then [none] else c.pfx.map some

mutual
def tb : Node → List (List Sym × List Route)
  | .mk _ _ _ cs rs => ([], rs) :: tbL cs
def tbL : List Node → List (List Sym × List Route)
  | [] => []
  | c :: cs => (tb c).map (fun (t, r) => (symsOfPart c ++ t, r)) ++ tbL cs
end

theorem mem_tbL {x : List Sym × List Route} {cs : List Node} :
    x ∈ tbL cs ↔ ∃ c ∈ cs, ∃ y ∈ tb c, x = (symsOfPart c ++ y.1, y.2) := by
  induction cs with
  | nil => simp [tbL]
  | cons d ds ih =>
    simp only [tbL, List.mem_append, List.mem_map, ih, List.mem_cons]
    constructor
    · rintro (⟨y, hy, rfl⟩ | ⟨c, hc, y, hy, rfl⟩)
      · exact ⟨d, Or.inl rfl, y, hy, rfl⟩
      · exact ⟨c, Or.inr hc, y, hy, rfl⟩
    · rintro ⟨c, (rfl | hc), y, hy, rfl⟩
      · exact Or.inl ⟨y, hy, rfl⟩
      · exact Or.inr ⟨c, hc, y, hy, rfl⟩

theorem mem_tb {x : List Sym × List Route} {n : Node} :
    x ∈ tb n ↔ x = ([], n.routes) ∨ ∃ c ∈ n.children, ∃ y ∈ tb c, x = (symsOfPart c ++ y.1, y.2) := by
  cases n with
  | mk p h pn cs rs => simp [tb, mem_tbL, Node.routes, Node.children]

/-- every stored route sits under its own template; `key` is the template of a route, `pre` what has
    been consumed above this node -/
def NoJunk (key : Route → List Sym) (pre : List Sym) (n : Node) : Prop :=
  ∀ x ∈ tb n, ∀ r ∈ x.2, key r = pre ++ x.1

theorem noJunk_child {key pre n c} (h : NoJunk key pre n) (hc : c ∈ n.children) :
    NoJunk key (pre ++ symsOfPart c) c := by
  intro y hy r hr
  have := h (symsOfPart c ++ y.1, y.2) (mem_tb.mpr (Or.inr ⟨c, hc, y, hy, rfl⟩)) r hr
  simpa [List.append_assoc] using this

theorem noJunk_of_children {key pre} {n : Node}
    (hself : ∀ r ∈ n.routes, key r = pre)
    (hch : ∀ c ∈ n.children, NoJunk key (pre ++ symsOfPart c) c) : NoJunk key pre n := by
  intro x hx r hr
  rcases mem_tb.mp hx with rfl | ⟨c, hc, y, hy, rfl⟩
  · simpa using hself r hr
  · have := hch c hc y hy r hr
    simpa [List.append_assoc] using this

theorem mem_addMethod {rs m rs'} (h : addMethod rs m = .ok rs') {r} (hr : r ∈ rs') : r ∈ rs ∨ r = m := by
  unfold addMethod at h
  split at h
  · cases h
  · cases h
    have := (List.mergeSort_perm (rs ++ [m]) _).mem_iff.mp hr
    simpa using this

theorem mem_sortChildren {c : Node} {cs : List Node} : c ∈ sortChildren cs ↔ c ∈ cs :=
  (List.mergeSort_perm cs _).mem_iff

theorem mem_replaceFirst {cs : List Node} {h : UInt8} {n c : Node} (hc : c ∈ replaceFirst cs h n) :
    c = n ∨ c ∈ cs := by
  induction cs with
  | nil => simp [replaceFirst] at hc
  | cons d ds ih =>
    simp only [replaceFirst] at hc
    split at hc
    · rcases List.mem_cons.mp hc with rfl | hmem
      · exact Or.inl rfl
      · exact Or.inr (List.mem_cons_of_mem _ hmem)
    · rcases List.mem_cons.mp hc with rfl | hmem
      · exact Or.inr (List.mem_cons_self ..)
      · rcases ih hmem with rfl | h'
        · exact Or.inl rfl
        · exact Or.inr (List.mem_cons_of_mem _ h')


/-! ### templates as strings -/
def noBrace (s : Bytes) : Prop := ∀ c ∈ s, c ≠ 0x7b ∧ c ≠ 0x7d

inductive Syms : Bytes → List Sym → Prop
  | static {a} : noBrace a → Syms a (a.map some)
  | param {a name rest t} : noBrace a → noBrace name → Syms rest t →
      Syms (a ++ 0x7b :: (name ++ 0x7d :: rest)) (a.map some ++ none :: t)

theorem indexOf_none {b : UInt8} {s : Bytes} (h : ∀ c ∈ s, c ≠ b) : indexOf b s = none := by
  induction s with
  | nil => rfl
  | cons c cs ih =>
    have hc : c ≠ b := h c (List.mem_cons_self ..)
    simp [indexOf, hc, ih (fun d hd => h d (List.mem_cons_of_mem _ hd))]

theorem indexOf_append {b : UInt8} {a r : Bytes} (h : ∀ c ∈ a, c ≠ b) : indexOf b (a ++ b :: r) = some a.length := by
  induction a with
  | nil => simp [indexOf]
  | cons c cs ih =>
    have hc : c ≠ b := h c (List.mem_cons_self ..)
    simp [indexOf, hc, ih (fun d hd => h d (List.mem_cons_of_mem _ hd))]

theorem indexOf_skip {b : UInt8} {a r : Bytes} (h : ∀ c ∈ a, c ≠ b) :
    indexOf b (a ++ r) = (indexOf b r).map (· + a.length) := by
  induction a with
  | nil => simp
  | cons c cs ih =>
    have hc : c ≠ b := h c (List.mem_cons_self ..)
    simp only [List.cons_append, indexOf, hc, if_false, ih (fun d hd => h d (List.mem_cons_of_mem _ hd))]
    cases indexOf b r <;> simp [Nat.add_assoc]

theorem npp_static {a : Bytes} (h : noBrace a) : nextPathPart a = .none := by
  unfold nextPathPart
  rw [indexOf_none (fun c hc => (h c hc).1)]

theorem npp_param {a name rest : Bytes} (ha : noBrace a) (hn : noBrace name) :
    nextPathPart (a ++ 0x7b :: (name ++ 0x7d :: rest)) = .param a.length (a.length + name.length + 2) := by
  unfold nextPathPart
  rw [indexOf_append (fun c hc => (ha c hc).1)]
  have h2 : indexOf 0x7d (a ++ 0x7b :: (name ++ 0x7d :: rest)) = some (a.length + 1 + name.length) := by
    rw [indexOf_skip (fun c hc => (ha c hc).2)]
    have : indexOf (0x7d : UInt8) (0x7b :: (name ++ 0x7d :: rest)) = some (name.length + 1) := by
      simp only [indexOf]
      rw [if_neg (by decide)]
      rw [indexOf_append (fun c hc => (hn c hc).2)]
      simp
    rw [this]; simp; omega
  rw [h2]
  simp only
  rw [if_neg (by omega)]
  congr 1; omega


theorem syms_nil' {s : Bytes} {t : List Sym} (h : Syms s t) (hs : s = []) : t = [] := by
  cases h with
  | static _ => subst hs; rfl
  | param _ _ _ => simp at hs

theorem syms_nil {t : List Sym} (h : Syms [] t) : t = [] := syms_nil' h rfl

theorem noBrace_head_ne {a : Bytes} (ha : noBrace a) (hne : a ≠ []) : a.head? ≠ some 0x7b := by
  cases a with
  | nil => exact absurd rfl hne
  | cons c cs =>
    have := (ha c (List.mem_cons_self ..)).1
    simpa using this

theorem tb_leaf (p : Bytes) (h : UInt8) (pn : Option Bytes) (rs : List Route) :
    tb (.mk p h pn [] rs) = [([], rs)] := by simp [tb, tbL]

theorem tb_single (p : Bytes) (h : UInt8) (pn : Option Bytes) (c : Node) :
    tb (.mk p h pn [c] []) = ([], []) :: (tb c).map (fun (t, r) => (symsOfPart c ++ t, r)) := by
  simp [tb, tbL]

theorem symsOfPart_param (p : Bytes) (h : UInt8) (nm : Bytes) (cs : List Node) (rs : List Route) :
    symsOfPart (.mk p h (some nm) cs rs) = [none] := by simp [symsOfPart, Node.isParam, Node.paramName]
theorem symsOfPart_static (p : Bytes) (h : UInt8) (cs : List Node) (rs : List Route) :
    symsOfPart (.mk p h none cs rs) = p.map some := by simp [symsOfPart, Node.isParam, Node.paramName, Node.pfx]

theorem bind_ok {ε α β : Type} {x : Except ε α} {f : α → Except ε β} {b : β} (h : (x >>= f) = .ok b) :
    ∃ a, x = .ok a ∧ f a = .ok b := by
  cases x with
  | error e => simp [bind, Except.bind] at h
  | ok a => exact ⟨a, rfl, by simpa [bind, Except.bind] using h⟩

theorem mkChain_spec (fuel : Nat) : ∀ (path selfPfx : Bytes) (selfParam : Option Bytes) (m : Route) (ch : Node)
    (sp : List Sym), Syms path sp → (selfParam = none → selfPfx = path) →
    (selfParam.isSome = true → path.head? = some 0x7b) →
    mkChain fuel path selfPfx selfParam m = .ok ch →
    ∀ x ∈ tb ch, ∀ r ∈ x.2, r = m ∧ symsOfPart ch ++ x.1 = sp := by
  induction fuel with
  | zero => intro _ _ _ _ _ _ _ _ _ h; simp [mkChain] at h
  | succ fuel ih =>
    intro path selfPfx selfParam m ch sp hs h1 h2 h
    unfold mkChain at h
    cases hs with
    | @static a ha =>
      rw [npp_static ha] at h
      simp only at h
      cases h
      intro x hx r hr
      rw [tb_leaf] at hx
      simp only [List.mem_singleton] at hx
      subst hx
      simp only [List.mem_singleton] at hr
      refine ⟨hr, ?_⟩
      cases hsp : selfParam with
      | none =>
        have := h1 hsp
        subst this
        simp [symsOfPart_static]
      | some nm =>
        have hh := h2 (by simp [hsp])
        by_cases hne : path = []
        · simp [hne] at hh
        · exact absurd hh (noBrace_head_ne ha hne)
    | @param a name rest t ha hn hrest =>
      rw [npp_param ha hn] at h
      simp only at h
      by_cases ha0 : a.length = 0
      · have ha' : a = [] := List.eq_nil_of_length_eq_zero ha0
        subst ha'
        simp only [List.length_nil, Nat.zero_add, List.nil_append, if_true] at h
        have hdrop : List.drop (name.length + 2) (0x7b :: (name ++ 0x7d :: rest)) = rest := by
          have : name.length + 2 = (0x7b :: (name ++ [0x7d])).length := by simp
          rw [this]
          have h' : (0x7b : UInt8) :: (name ++ 0x7d :: rest) = (0x7b :: (name ++ [0x7d])) ++ rest := by simp
          rw [h', List.drop_left]
        rw [hdrop] at h
        by_cases hr0 : rest.isEmpty = true
        · simp only [hr0, if_true] at h
          cases h
          have : rest = [] := by simpa using hr0
          subst this
          have ht := syms_nil hrest
          subst ht
          intro x hx r hr
          rw [tb_leaf] at hx
          simp only [List.mem_singleton] at hx
          subst hx
          simp only [List.mem_singleton] at hr
          exact ⟨hr, by simp [symsOfPart_param]⟩
        · simp only [hr0, Bool.false_eq_true, if_false] at h
          obtain ⟨child, hc, hf⟩ := bind_ok h
          cases hf
          have ihc := ih rest rest none m child t hrest (fun _ => rfl) (by simp) hc
          intro x hx r hr
          rw [tb_single] at hx
          rcases List.mem_cons.mp hx with rfl | hx
          · cases hr
          · obtain ⟨y, hy, rfl⟩ := List.mem_map.mp hx
            obtain ⟨hrm, hsy⟩ := ihc y hy r hr
            refine ⟨hrm, ?_⟩
            rw [symsOfPart_param]
            simp only [List.nil_append, List.map_nil, List.cons_append]
            rw [hsy]
      · simp only [ha0, if_false] at h
        have hdrop : List.drop a.length (a ++ 0x7b :: (name ++ 0x7d :: rest)) = 0x7b :: (name ++ 0x7d :: rest) := List.drop_left
        have htake : List.take a.length (a ++ 0x7b :: (name ++ 0x7d :: rest)) = a := List.take_left
        rw [hdrop, htake] at h
        obtain ⟨child, hc, hf⟩ := bind_ok h
        cases hf
        have hs' : Syms (0x7b :: (name ++ 0x7d :: rest)) (none :: t) := by
          have := Syms.param (a := []) (by intro c hc; cases hc) hn hrest
          simpa using this
        have ihc := ih _ [] _ m child (none :: t) hs' (by intro h; cases h) (by simp) hc
        have hsn : selfParam = none := by
          cases hsp : selfParam with
          | none => rfl
          | some nm =>
            have hh := h2 (by simp [hsp])
            have hne : a ≠ [] := by intro h; apply ha0; simp [h]
            have : (a ++ 0x7b :: (name ++ 0x7d :: rest)).head? = a.head? := by
              cases a with
              | nil => exact absurd rfl hne
              | cons c cs => simp
            rw [this] at hh
            exact absurd hh (noBrace_head_ne ha hne)
        subst hsn
        intro x hx r hr
        rw [tb_single] at hx
        rcases List.mem_cons.mp hx with rfl | hx
        · cases hr
        · obtain ⟨y, hy, rfl⟩ := List.mem_map.mp hx
          obtain ⟨hrm, hsy⟩ := ihc y hy r hr
          refine ⟨hrm, ?_⟩
          rw [symsOfPart_static]
          simp only [List.append_assoc]
          rw [hsy]


/-! ### string lemmas for the descents -/
theorem noBrace_append {a b : Bytes} : noBrace (a ++ b) ↔ noBrace a ∧ noBrace b := by
  simp only [noBrace, List.mem_append]
  constructor
  · intro h; exact ⟨fun c hc => h c (Or.inl hc), fun c hc => h c (Or.inr hc)⟩
  · rintro ⟨h1, h2⟩ c (hc | hc)
    · exact h1 c hc
    · exact h2 c hc

theorem syms_noBrace' {s : Bytes} {t : List Sym} (h : Syms s t) (hs : noBrace s) : t = s.map some := by
  cases h with
  | static _ => rfl
  | @param a name rest t _ _ _ =>
    have := (hs 0x7b (by simp)).1
    exact absurd rfl this

theorem syms_strip' {s p r : Bytes} {sp : List Sym} (h : Syms s sp) (hs : s = p ++ r) (hp : noBrace p) :
    ∃ t', Syms r t' ∧ sp = p.map some ++ t' := by
  cases h with
  | @static a ha =>
    subst hs
    have := noBrace_append.mp ha
    exact ⟨r.map some, Syms.static this.2, by simp⟩
  | @param a name rest t ha hn hrest =>
    rcases List.append_eq_append_iff.mp hs with ⟨a', h1, h2⟩ | ⟨c', h1, h2⟩
    · -- p = a ++ a'
      cases a' with
      | nil =>
        simp at h1 h2
        subst h1
        refine ⟨none :: t, ?_, rfl⟩
        rw [← h2]
        have := Syms.param (a := []) (by intro c hc; cases hc) hn hrest
        simpa using this
      | cons x xs =>
        simp at h2
        have hx : x ∈ p := by rw [h1]; simp
        have := (hp x hx).1
        exact absurd h2.1.symm this
    · -- a = p ++ c'
      subst h1
      have hc' := (noBrace_append.mp ha).2
      refine ⟨c'.map some ++ none :: t, ?_, by simp⟩
      rw [h2]
      exact Syms.param hc' hn hrest

theorem lcp_le_left (p q : Bytes) : lcp p q ≤ p.length := by
  induction p generalizing q with
  | nil => simp [lcp]
  | cons a as ih =>
    cases q with
    | nil => simp [lcp]
    | cons b bs =>
      simp only [lcp]
      split
      · have := ih bs; simp; omega
      · simp

theorem lcp_take (p q : Bytes) : p.take (lcp p q) = q.take (lcp p q) := by
  induction p generalizing q with
  | nil => simp [lcp]
  | cons a as ih =>
    cases q with
    | nil => simp [lcp]
    | cons b bs =>
      simp only [lcp]
      split
      · rename_i hab
        subst hab
        rw [Nat.add_comm]
        simp [List.take_succ_cons, ih bs]
      · simp

theorem lcp_pos {p q : Bytes} {h : UInt8} (hp : p.head? = some h) (hq : q.head? = some h) : 0 < lcp p q := by
  cases p with
  | nil => simp at hp
  | cons a as =>
    cases q with
    | nil => simp at hq
    | cons b bs =>
      simp at hp hq
      subst hp; subst hq
      simp [lcp]; omega

theorem tb_congr (p p' : Bytes) (h h' : UInt8) (pn pn' : Option Bytes) (cs : List Node) (rs : List Route) :
    tb (.mk p h pn cs rs) = tb (.mk p' h' pn' cs rs) := by simp [tb]


/-! ### well-formedness of children, and the invariant of `insert` -/
def WFc (c : Node) : Prop :=
  (c.isParam = true → c.head = 0x7b) ∧
  (c.isParam = false → c.pfx ≠ [] ∧ c.pfx.head? = some c.head ∧ noBrace c.pfx)

inductive WF : Node → Prop
  | mk {p h pn cs rs} : (∀ c ∈ cs, WFc c) → (∀ c ∈ cs, WF c) → WF (.mk p h pn cs rs)

theorem WF.children {n : Node} (h : WF n) : ∀ c ∈ n.children, WFc c ∧ WF c := by
  cases h with
  | mk h1 h2 => exact fun c hc => ⟨h1 c hc, h2 c hc⟩

theorem path_head_of_ne {path : Bytes} (h : path ≠ []) : path.head? = some (path.headD 0) := by
  cases path with
  | nil => exact absurd rfl h
  | cons c cs => rfl

/-- descent through a parameter child: the path must start with `{name}` -/
theorem syms_param_head {path : Bytes} {sp : List Sym} (hs : Syms path sp) (hh : path.head? = some 0x7b) :
    ∃ name rest t, path = 0x7b :: (name ++ 0x7d :: rest) ∧ noBrace name ∧ Syms rest t ∧ sp = none :: t := by
  cases hs with
  | @static a ha =>
    by_cases hne : path = []
    · simp [hne] at hh
    · exact absurd hh (noBrace_head_ne ha hne)
  | @param a name rest t ha hn hrest =>
    cases a with
    | nil => exact ⟨name, rest, t, by simp, hn, hrest, by simp⟩
    | cons c cs =>
      have := (ha c (List.mem_cons_self ..)).1
      simp at hh
      exact absurd hh this

theorem noJunk_replace {key pre p h pn cs rs hd c'}
    (hn : NoJunk key pre (.mk p h pn cs rs))
    (hc' : NoJunk key (pre ++ symsOfPart c') c') :
    NoJunk key pre (.mk p h pn (replaceFirst cs hd c') rs) := by
  apply noJunk_of_children
  · intro r hr
    have := hn ([], rs) (by simp [tb]) r hr
    simpa using this
  · intro c hc
    rcases mem_replaceFirst hc with rfl | hmem
    · exact hc'
    · exact noJunk_child hn hmem

theorem noJunk_chain {key pre ch m sp}
    (hkey : key m = pre ++ sp)
    (hspec : ∀ x ∈ tb ch, ∀ r ∈ x.2, r = m ∧ symsOfPart ch ++ x.1 = sp) :
    NoJunk key (pre ++ symsOfPart ch) ch := by
  intro x hx r hr
  obtain ⟨hrm, hsy⟩ := hspec x hx r hr
  subst hrm
  rw [hkey, ← hsy, List.append_assoc]

theorem insert_shape {fuel n path m n'} (h : insert fuel n path m = .ok n') : symsOfPart n' = symsOfPart n := by
  cases fuel with
  | zero => simp [insert] at h
  | succ fuel =>
    cases n with
    | mk p hd pn cs rs =>
    unfold insert at h
    simp only at h
    split at h
    · obtain ⟨_, _, hf⟩ := bind_ok h
      cases hf; rfl
    · split at h
      · cases h
      · split at h
        · obtain ⟨_, _, hf⟩ := bind_ok h
          cases hf; rfl
        · split at h
          · obtain ⟨_, _, hf⟩ := bind_ok h
            cases hf; rfl
          · split at h
            · obtain ⟨_, _, hf⟩ := bind_ok h
              cases hf; rfl
            · split at h
              · cases h; rfl
              · obtain ⟨_, _, hf⟩ := bind_ok h
                cases hf; rfl

theorem lcp_full {p q : Bytes} (h : lcp p q = q.length) : p = q ++ p.drop q.length := by
  have h1 := lcp_take p q
  rw [h] at h1
  simp at h1
  calc p = p.take q.length ++ p.drop q.length := (List.take_append_drop _ _).symm
    _ = q ++ p.drop q.length := by rw [h1]

theorem insert_noJunk (key : Route → List Sym) (fuel : Nat) :
    ∀ (n : Node) (path : Bytes) (m : Route) (n' : Node) (pre sp : List Sym),
    WF n → NoJunk key pre n → Syms path sp → key m = pre ++ sp →
    insert fuel n path m = .ok n' → NoJunk key pre n' := by
  induction fuel with
  | zero => intro _ _ _ _ _ _ _ _ _ _ h; simp [insert] at h
  | succ fuel ih =>
    intro n path m n' pre sp hwf hnj hs hkey h
    cases n with
    | mk p hd0 pn cs rs =>
    unfold insert at h
    simp only at h
    by_cases hpe : path.isEmpty = true
    · -- route ends here
      simp only [hpe, if_true] at h
      obtain ⟨rs', hrs', hf⟩ := bind_ok h
      cases hf
      have hp : path = [] := by simpa using hpe
      subst hp
      have hsp := syms_nil hs
      subst hsp
      apply noJunk_of_children
      · intro r hr
        rcases mem_addMethod hrs' hr with hmem | rfl
        · have := hnj ([], rs) (by simp [tb]) r hmem
          simpa using this
        · simpa using hkey
      · intro c hc
        exact noJunk_child hnj hc
    · simp only [hpe, Bool.false_eq_true, if_false] at h
      have hpne : path ≠ [] := by intro h'; apply hpe; simp [h']
      split at h
      · cases h
      · rename_i part hnb
        -- which child?
        split at h
        · -- no child with this head: new chain
          obtain ⟨ch, hch, hf⟩ := bind_ok h
          cases hf
          have hspec := mkChain_spec _ path path none m ch sp hs (fun _ => rfl) (by simp) hch
          apply noJunk_of_children
          · intro r hr
            have := hnj ([], rs) (by simp [tb]) r hr
            simpa using this
          · intro c hc
            have hc' : c ∈ cs ++ [ch] := mem_sortChildren.mp hc
            rcases List.mem_append.mp hc' with hmem | hmem
            · exact noJunk_child hnj hmem
            · simp only [List.mem_singleton] at hmem
              subst hmem
              exact noJunk_chain hkey hspec
        · rename_i c hfind
          have hcmem : c ∈ cs := List.mem_of_find?_eq_some hfind
          have hchead : c.head = path.headD 0 := by
            have := List.find?_some hfind
            simpa using this
          have hcwf := hwf.children c hcmem
          split at h
          · -- parameter child: skip `{name}`
            rename_i hcp
            obtain ⟨c', hc', hf⟩ := bind_ok h
            cases hf
            have hh : path.head? = some 0x7b := by
              rw [path_head_of_ne hpne, ← hchead, hcwf.1.1 hcp]
            obtain ⟨name, rest, t, hpath, hn, hrest, hspt⟩ := syms_param_head hs hh
            subst hpath; subst hspt
            have hnpp := npp_param (a := []) (rest := rest) (by intro c hc; cases hc) hn
            simp only [List.nil_append, List.length_nil, Nat.zero_add] at hnpp
            rw [hnpp] at hc'
            simp only at hc'
            have hdrop : List.drop (name.length + 2) (0x7b :: (name ++ 0x7d :: rest)) = rest := by
              have : name.length + 2 = (0x7b :: (name ++ [0x7d])).length := by simp
              rw [this]
              have h' : (0x7b : UInt8) :: (name ++ 0x7d :: rest) = (0x7b :: (name ++ [0x7d])) ++ rest := by simp
              rw [h', List.drop_left]
            rw [hdrop] at hc'
            have hsym : symsOfPart c = [none] := by simp [symsOfPart, hcp]
            have hnjc : NoJunk key (pre ++ [none]) c := by
              have := noJunk_child hnj hcmem
              rwa [hsym] at this
            have := ih c rest m c' (pre ++ [none]) t hcwf.2 hnjc hrest (by simp [hkey]) hc'
            apply noJunk_replace hnj
            rw [insert_shape hc', hsym]
            exact this
          · -- static child
            rename_i hcp
            have hcs : c.isParam = false := by simpa using hcp
            obtain ⟨hpfx_ne, hpfx_head, hpfx_nb⟩ := hcwf.1.2 hcs
            have hsymc : symsOfPart c = c.pfx.map some := by simp [symsOfPart, hcs]
            split at h
            · -- the child's prefix is fully matched: descend
              rename_i hfull
              obtain ⟨c', hc', hf⟩ := bind_ok h
              cases hf
              have hpath := lcp_full hfull
              obtain ⟨t', hst', hspt⟩ := syms_strip' hs hpath hpfx_nb
              rw [hfull] at hc'
              have hnjc : NoJunk key (pre ++ c.pfx.map some) c := by
                have := noJunk_child hnj hcmem
                rwa [hsymc] at this
              have := ih c _ m c' (pre ++ c.pfx.map some) t' hcwf.2 hnjc hst' (by rw [hkey, hspt, List.append_assoc]) hc'
              apply noJunk_replace hnj
              rw [insert_shape hc', hsymc]
              exact this
            · -- split the child at the common prefix
              rename_i hnotfull
              have hcp_le : lcp path c.pfx ≤ path.length := lcp_le_left _ _
              have htake : path.take (lcp path c.pfx) = c.pfx.take (lcp path c.pfx) := lcp_take _ _
              have hnb_take : noBrace (path.take (lcp path c.pfx)) := by
                rw [htake]
                intro x hx
                exact hpfx_nb x (List.mem_of_mem_take hx)
              have hpath : path = path.take (lcp path c.pfx) ++ path.drop (lcp path c.pfx) := (List.take_append_drop _ _).symm
              obtain ⟨t', hst', hspt⟩ := syms_strip' hs hpath hnb_take
              -- the old child, re-rooted under the common prefix
              have hold : NoJunk key (pre ++ (path.take (lcp path c.pfx)).map some ++
                    symsOfPart (Node.mk (c.pfx.drop (lcp path c.pfx)) ((c.pfx.drop (lcp path c.pfx)).headD 0) c.paramName c.children c.routes))
                  (Node.mk (c.pfx.drop (lcp path c.pfx)) ((c.pfx.drop (lcp path c.pfx)).headD 0) c.paramName c.children c.routes) := by
                have hpn : c.paramName = none := by
                  simp [Node.isParam] at hcs; exact hcs
                rw [hpn, symsOfPart_static, htake]
                have hnjc := noJunk_child hnj hcmem
                rw [hsymc] at hnjc
                intro x hx r hr
                have hx' : x ∈ tb c := by
                  cases c with
                  | mk cp ch cpn ccs crs =>
                    simp only [Node.children, Node.routes] at hx
                    rw [tb_congr _ cp _ ch _ cpn] at hx
                    exact hx
                have := hnjc x hx' r hr
                rw [this]
                have : c.pfx.map some = (c.pfx.take (lcp path c.pfx)).map some ++ (c.pfx.drop (lcp path c.pfx)).map some := by
                  rw [← List.map_append, List.take_append_drop]
                rw [this]
                simp [List.append_assoc]
              split at h
              · -- the new route ends at the split point
                rename_i hrest
                cases h
                have hrest' : path.drop (lcp path c.pfx) = [] := by simpa using hrest
                rw [hrest'] at hst'
                have ht' := syms_nil hst'
                subst ht'
                apply noJunk_replace hnj
                rw [symsOfPart_static]
                apply noJunk_of_children
                · intro r hr
                  simp only [Node.routes, List.mem_singleton] at hr
                  subst hr
                  rw [hkey, hspt]; simp
                · intro d hd
                  simp only [Node.children, List.mem_singleton] at hd
                  subst hd
                  exact hold
              · obtain ⟨ch, hch, hf⟩ := bind_ok h
                cases hf
                have hspec := mkChain_spec _ _ _ none m ch t' hst' (fun _ => rfl) (by simp) hch
                apply noJunk_replace hnj
                rw [symsOfPart_static]
                apply noJunk_of_children
                · intro r hr
                  simp only [Node.routes] at hr
                  cases hr
                · intro d hd
                  simp only [Node.children] at hd
                  have hd' := mem_sortChildren.mp hd
                  rcases List.mem_cons.mp hd' with rfl | hd''
                  · exact hold
                  · simp only [List.mem_singleton] at hd''
                    subst hd''
                    exact noJunk_chain (by rw [hkey, hspt, List.append_assoc]) hspec

#print axioms insert_noJunk

/-! ### well-formedness is preserved, so the invariant lifts to `build` -/
theorem lcp_le_right (p q : Bytes) : lcp p q ≤ q.length := by
  induction p generalizing q with
  | nil => simp [lcp]
  | cons a as ih =>
    cases q with
    | nil => simp [lcp]
    | cons b bs =>
      simp only [lcp]
      split
      · have := ih bs; simp; omega
      · simp

theorem head?_take {l : Bytes} {n : Nat} (hn : 0 < n) : (l.take n).head? = l.head? := by
  cases l with
  | nil => simp
  | cons c cs =>
    cases n with
    | zero => omega
    | succ k => simp [List.take_succ_cons]

theorem mkChain_wf (fuel : Nat) : ∀ (path selfPfx : Bytes) (selfParam : Option Bytes) (m : Route) (ch : Node)
    (sp : List Sym), Syms path sp → path ≠ [] → (selfParam = none → selfPfx = path) →
    (selfParam.isSome = true → path.head? = some 0x7b) →
    mkChain fuel path selfPfx selfParam m = .ok ch → WFc ch ∧ WF ch := by
  induction fuel with
  | zero => intro _ _ _ _ _ _ _ _ _ _ h; simp [mkChain] at h
  | succ fuel ih =>
    intro path selfPfx selfParam m ch sp hs hne h1 h2 h
    unfold mkChain at h
    cases hs with
    | @static a ha =>
      rw [npp_static ha] at h
      simp only at h
      cases h
      cases hsp : selfParam with
      | none =>
        have := h1 hsp
        subst this
        refine ⟨⟨by simp [Node.isParam, Node.paramName], fun _ => ⟨hne, path_head_of_ne hne, ha⟩⟩, WF.mk (by simp) (by simp)⟩
      | some nm =>
        have hh := h2 (by simp [hsp])
        exact absurd hh (noBrace_head_ne ha hne)
    | @param a name rest t ha hn hrest =>
      rw [npp_param ha hn] at h
      simp only at h
      by_cases ha0 : a.length = 0
      · have ha' : a = [] := List.eq_nil_of_length_eq_zero ha0
        subst ha'
        simp only [List.length_nil, Nat.zero_add, List.nil_append, if_true] at h
        have hdrop : List.drop (name.length + 2) (0x7b :: (name ++ 0x7d :: rest)) = rest := by
          have : name.length + 2 = (0x7b :: (name ++ [0x7d])).length := by simp
          rw [this]
          have h' : (0x7b : UInt8) :: (name ++ 0x7d :: rest) = (0x7b :: (name ++ [0x7d])) ++ rest := by simp
          rw [h', List.drop_left]
        rw [hdrop] at h
        by_cases hr0 : rest.isEmpty = true
        · simp only [hr0, if_true] at h
          cases h
          exact ⟨⟨fun _ => by simp [Node.head], fun hp => by simp [Node.isParam, Node.paramName] at hp⟩, WF.mk (by simp) (by simp)⟩
        · simp only [hr0, Bool.false_eq_true, if_false] at h
          obtain ⟨child, hc, hf⟩ := bind_ok h
          cases hf
          have hrne : rest ≠ [] := by intro h'; apply hr0; simp [h']
          have ihc := ih rest rest none m child t hrest hrne (fun _ => rfl) (by simp) hc
          refine ⟨⟨fun _ => by simp [Node.head], fun hp => by simp [Node.isParam, Node.paramName] at hp⟩, WF.mk ?_ ?_⟩
          · intro c hc; simp only [List.mem_singleton] at hc; subst hc; exact ihc.1
          · intro c hc; simp only [List.mem_singleton] at hc; subst hc; exact ihc.2
      · simp only [ha0, if_false] at h
        have hdrop : List.drop a.length (a ++ 0x7b :: (name ++ 0x7d :: rest)) = 0x7b :: (name ++ 0x7d :: rest) := List.drop_left
        have htake : List.take a.length (a ++ 0x7b :: (name ++ 0x7d :: rest)) = a := List.take_left
        rw [hdrop, htake] at h
        obtain ⟨child, hc, hf⟩ := bind_ok h
        cases hf
        have hs' : Syms (0x7b :: (name ++ 0x7d :: rest)) (none :: t) := by
          have := Syms.param (a := []) (by intro c hc; cases hc) hn hrest
          simpa using this
        have ihc := ih _ [] _ m child (none :: t) hs' (by simp) (by intro h; cases h) (by simp) hc
        have hane : a ≠ [] := by intro h; apply ha0; simp [h]
        have hsn : selfParam = none := by
          cases hsp : selfParam with
          | none => rfl
          | some nm =>
            have hh := h2 (by simp [hsp])
            have : (a ++ 0x7b :: (name ++ 0x7d :: rest)).head? = a.head? := by
              cases a with
              | nil => exact absurd rfl hane
              | cons c cs => simp
            rw [this] at hh
            exact absurd hh (noBrace_head_ne ha hane)
        subst hsn
        have hhead : a.head? = some ((a ++ 0x7b :: (name ++ 0x7d :: rest)).headD 0) := by
          cases a with
          | nil => exact absurd rfl hane
          | cons c cs => simp
        refine ⟨⟨fun hp => by simp [Node.isParam, Node.paramName] at hp, fun _ => ⟨hane, hhead, ha⟩⟩, WF.mk ?_ ?_⟩
        · intro c hc; simp only [List.mem_singleton] at hc; subst hc; exact ihc.1
        · intro c hc; simp only [List.mem_singleton] at hc; subst hc; exact ihc.2

theorem insert_fields {fuel n path m n'} (h : insert fuel n path m = .ok n') :
    n'.pfx = n.pfx ∧ n'.head = n.head ∧ n'.paramName = n.paramName := by
  cases fuel with
  | zero => simp [insert] at h
  | succ fuel =>
    cases n with
    | mk p hd pn cs rs =>
    unfold insert at h
    simp only at h
    split at h
    · obtain ⟨_, _, hf⟩ := bind_ok h
      cases hf; exact ⟨rfl, rfl, rfl⟩
    · split at h
      · cases h
      · split at h
        · obtain ⟨_, _, hf⟩ := bind_ok h
          cases hf; exact ⟨rfl, rfl, rfl⟩
        · split at h
          · obtain ⟨_, _, hf⟩ := bind_ok h
            cases hf; exact ⟨rfl, rfl, rfl⟩
          · split at h
            · obtain ⟨_, _, hf⟩ := bind_ok h
              cases hf; exact ⟨rfl, rfl, rfl⟩
            · split at h
              · cases h; exact ⟨rfl, rfl, rfl⟩
              · obtain ⟨_, _, hf⟩ := bind_ok h
                cases hf; exact ⟨rfl, rfl, rfl⟩

theorem WFc_of_fields {c c' : Node} (h : c'.pfx = c.pfx ∧ c'.head = c.head ∧ c'.paramName = c.paramName)
    (hc : WFc c) : WFc c' := by
  obtain ⟨h1, h2, h3⟩ := h
  unfold WFc Node.isParam at *
  rw [h1, h2, h3]
  exact hc

theorem wf_replace {p h pn cs rs hd c'} (hwf : WF (.mk p h pn cs rs)) (h1 : WFc c') (h2 : WF c') :
    WF (.mk p h pn (replaceFirst cs hd c') rs) := by
  have hch := hwf.children
  refine WF.mk ?_ ?_
  · intro c hc
    rcases mem_replaceFirst hc with rfl | hmem
    · exact h1
    · exact (hch c hmem).1
  · intro c hc
    rcases mem_replaceFirst hc with rfl | hmem
    · exact h2
    · exact (hch c hmem).2

theorem insert_wf (fuel : Nat) : ∀ (n : Node) (path : Bytes) (m : Route) (n' : Node) (sp : List Sym),
    WF n → Syms path sp → insert fuel n path m = .ok n' → WF n' := by
  induction fuel with
  | zero => intro _ _ _ _ _ _ _ h; simp [insert] at h
  | succ fuel ih =>
    intro n path m n' sp hwf hs h
    cases n with
    | mk p hd0 pn cs rs =>
    have hch := hwf.children
    unfold insert at h
    simp only at h
    by_cases hpe : path.isEmpty = true
    · simp only [hpe, if_true] at h
      obtain ⟨rs', _, hf⟩ := bind_ok h
      cases hf
      exact WF.mk (fun c hc => (hch c hc).1) (fun c hc => (hch c hc).2)
    · simp only [hpe, Bool.false_eq_true, if_false] at h
      have hpne : path ≠ [] := by intro h'; apply hpe; simp [h']
      split at h
      · cases h
      · split at h
        · obtain ⟨ch, hchn, hf⟩ := bind_ok h
          cases hf
          have hcw := mkChain_wf _ path path none m ch sp hs hpne (fun _ => rfl) (by simp) hchn
          refine WF.mk ?_ ?_
          · intro c hc
            rcases List.mem_append.mp (mem_sortChildren.mp hc) with hmem | hmem
            · exact (hch c hmem).1
            · simp only [List.mem_singleton] at hmem; subst hmem; exact hcw.1
          · intro c hc
            rcases List.mem_append.mp (mem_sortChildren.mp hc) with hmem | hmem
            · exact (hch c hmem).2
            · simp only [List.mem_singleton] at hmem; subst hmem; exact hcw.2
        · rename_i c hfind
          have hcmem : c ∈ cs := List.mem_of_find?_eq_some hfind
          have hchead : c.head = path.headD 0 := by
            have := List.find?_some hfind
            simpa using this
          have hcwf := hch c hcmem
          split at h
          · rename_i hcp
            obtain ⟨c', hc', hf⟩ := bind_ok h
            cases hf
            have hh : path.head? = some 0x7b := by
              rw [path_head_of_ne hpne, ← hchead, hcwf.1.1 hcp]
            obtain ⟨name, rest, t, hpath, hn, hrest, hspt⟩ := syms_param_head hs hh
            subst hpath
            have hnpp := npp_param (a := []) (rest := rest) (by intro c hc; cases hc) hn
            simp only [List.nil_append, List.length_nil, Nat.zero_add] at hnpp
            rw [hnpp] at hc'
            simp only at hc'
            have hdrop : List.drop (name.length + 2) (0x7b :: (name ++ 0x7d :: rest)) = rest := by
              have : name.length + 2 = (0x7b :: (name ++ [0x7d])).length := by simp
              rw [this]
              have h' : (0x7b : UInt8) :: (name ++ 0x7d :: rest) = (0x7b :: (name ++ [0x7d])) ++ rest := by simp
              rw [h', List.drop_left]
            rw [hdrop] at hc'
            exact wf_replace hwf (WFc_of_fields (insert_fields hc') hcwf.1) (ih c rest m c' t hcwf.2 hrest hc')
          · rename_i hcp
            have hcs : c.isParam = false := by simpa using hcp
            obtain ⟨hpfx_ne, hpfx_head, hpfx_nb⟩ := hcwf.1.2 hcs
            split at h
            · rename_i hfull
              obtain ⟨c', hc', hf⟩ := bind_ok h
              cases hf
              have hpath := lcp_full hfull
              obtain ⟨t', hst', _⟩ := syms_strip' hs hpath hpfx_nb
              rw [hfull] at hc'
              exact wf_replace hwf (WFc_of_fields (insert_fields hc') hcwf.1) (ih c _ m c' t' hcwf.2 hst' hc')
            · rename_i hnotfull
              have hcp_pos : 0 < lcp path c.pfx := lcp_pos (path_head_of_ne hpne) (by rw [hpfx_head, hchead])
              have hcp_lt : lcp path c.pfx < c.pfx.length := by
                have := lcp_le_right path c.pfx
                omega
              have htake : path.take (lcp path c.pfx) = c.pfx.take (lcp path c.pfx) := lcp_take _ _
              have hnb_take : noBrace (path.take (lcp path c.pfx)) := by
                rw [htake]
                intro x hx
                exact hpfx_nb x (List.mem_of_mem_take hx)
              have hpath : path = path.take (lcp path c.pfx) ++ path.drop (lcp path c.pfx) := (List.take_append_drop _ _).symm
              obtain ⟨t', hst', _⟩ := syms_strip' hs hpath hnb_take
              have hpn : c.paramName = none := by
                simp [Node.isParam] at hcs; exact hcs
              rw [hpn] at h
              -- the re-rooted old child
              have hdrop_ne : c.pfx.drop (lcp path c.pfx) ≠ [] := by
                intro h'
                have := congrArg List.length h'
                simp at this
                omega
              have hold_c : WFc (Node.mk (c.pfx.drop (lcp path c.pfx)) ((c.pfx.drop (lcp path c.pfx)).headD 0) none c.children c.routes) := by
                refine ⟨fun hp => by simp [Node.isParam, Node.paramName] at hp, fun _ => ⟨hdrop_ne, path_head_of_ne hdrop_ne, ?_⟩⟩
                intro x hx
                exact hpfx_nb x (List.mem_of_mem_drop hx)
              have hold_wf : WF (Node.mk (c.pfx.drop (lcp path c.pfx)) ((c.pfx.drop (lcp path c.pfx)).headD 0) none c.children c.routes) := by
                have := hcwf.2.children
                exact WF.mk (fun d hd => (this d hd).1) (fun d hd => (this d hd).2)
              have hnew_c : ∀ (kids : List Node) (rts : List Route),
                  WFc (Node.mk (path.take (lcp path c.pfx)) (path.headD 0) none kids rts) := by
                intro kids rts
                refine ⟨fun hp => by simp [Node.isParam, Node.paramName] at hp, fun _ => ⟨?_, ?_, hnb_take⟩⟩
                · intro h'
                  have hl : (path.take (lcp path c.pfx)).length = 0 := by
                    have : path.take (lcp path c.pfx) = [] := h'
                    rw [this]; rfl
                  rw [List.length_take] at hl
                  have hpl : 0 < path.length := List.length_pos_iff.mpr hpne
                  omega
                · show (path.take (lcp path c.pfx)).head? = some (path.headD 0)
                  rw [head?_take hcp_pos, path_head_of_ne hpne]
              split at h
              · cases h
                refine wf_replace hwf (hnew_c _ _) (WF.mk ?_ ?_)
                · intro d hd; simp only [List.mem_singleton] at hd; subst hd; exact hold_c
                · intro d hd; simp only [List.mem_singleton] at hd; subst hd; exact hold_wf
              · rename_i hrest
                obtain ⟨ch, hchn, hf⟩ := bind_ok h
                cases hf
                have hrne : path.drop (lcp path c.pfx) ≠ [] := by intro h'; apply hrest; simp [h']
                have hcw := mkChain_wf _ _ _ none m ch t' hst' hrne (fun _ => rfl) (by simp) hchn
                refine wf_replace hwf (hnew_c _ _) (WF.mk ?_ ?_)
                · intro d hd
                  rcases List.mem_cons.mp (mem_sortChildren.mp hd) with rfl | hd'
                  · exact hold_c
                  · simp only [List.mem_singleton] at hd'; subst hd'; exact hcw.1
                · intro d hd
                  rcases List.mem_cons.mp (mem_sortChildren.mp hd) with rfl | hd'
                  · exact hold_wf
                  · simp only [List.mem_singleton] at hd'; subst hd'; exact hcw.2

#print axioms insert_wf

/-! ### the whole route set -/
def buildFrom (fuel : Nat) (n : Node) : List (Bytes × Route) → Except String Node
  | [] => .ok n
  | (p, m) :: rest => do
    let n' ← insert fuel n p m
    buildFrom fuel n' rest

def emptyRoot : Node := .mk [] 0 none [] []

theorem buildFrom_inv (key : Route → List Sym) (fuel : Nat) :
    ∀ (routes : List (Bytes × Route)) (n n' : Node),
    (∀ pm ∈ routes, ∃ sp, Syms pm.1 sp ∧ key pm.2 = sp) →
    WF n → NoJunk key [] n → buildFrom fuel n routes = .ok n' → WF n' ∧ NoJunk key [] n' := by
  intro routes
  induction routes with
  | nil =>
    intro n n' _ hwf hnj h
    simp [buildFrom] at h
    subst h
    exact ⟨hwf, hnj⟩
  | cons pm rest ih =>
    intro n n' hr hwf hnj h
    obtain ⟨p, m⟩ := pm
    simp only [buildFrom] at h
    obtain ⟨n1, h1, h2⟩ := bind_ok h
    obtain ⟨sp, hs, hk⟩ := hr (p, m) (List.mem_cons_self ..)
    have hwf1 := insert_wf fuel n p m n1 sp hwf hs h1
    have hnj1 := insert_noJunk key fuel n p m n1 [] sp hwf hnj hs (by simpa using hk) h1
    exact ih n1 n' (fun pm hpm => hr pm (List.mem_cons_of_mem _ hpm)) hwf1 hnj1 h2

/-- **No junk in any router ogen builds**: whatever the route set, the order of insertion and the way
    prefixes get split, every route stored in the tree is stored under exactly its own template. -/
theorem build_noJunk (key : Route → List Sym) (fuel : Nat) (routes : List (Bytes × Route)) (n : Node)
    (hr : ∀ pm ∈ routes, ∃ sp, Syms pm.1 sp ∧ key pm.2 = sp)
    (h : buildFrom fuel emptyRoot routes = .ok n) : WF n ∧ NoJunk key [] n := by
  apply buildFrom_inv key fuel routes emptyRoot n hr
  · exact WF.mk (by simp) (by simp)
  · intro x hx r hr'
    simp [emptyRoot, tb, tbL] at hx
    subst hx
    simp at hr'
  · exact h

#print axioms build_noJunk

end Tree
