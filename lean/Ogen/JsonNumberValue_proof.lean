import Mathlib.Tactic.Ring
import Mathlib.Tactic.Linarith
import Mathlib.Tactic.FieldSimp
import Mathlib.Algebra.Order.Field.Power
import Mathlib.Data.Rat.Defs
import Ogen.JsonNumberModel
/-! Proof probe for C18, number half: the scaled-integer comparison that `equalNumber` (after D2) performs is
    equality of the rational values `±m·10^e`. -/
namespace JEqNum

/-- value of a parsed spelling -/
def val (n : Bool) (m : ℕ) (e : ℤ) : ℚ := (if n then -1 else 1) * (m : ℚ) * (10 : ℚ) ^ e

theorem scaled_iff (m1 m2 : ℕ) (e1 e2 : ℤ) :
    ((m1 : ℚ) * (10 : ℚ) ^ e1 = m2 * (10 : ℚ) ^ e2) ↔
      (m1 * 10 ^ (e1 - min e1 e2).toNat = m2 * 10 ^ (e2 - min e1 e2).toNat) := by
  set lo := min e1 e2 with hlo
  have h1 : e1 = lo + ((e1 - lo).toNat : ℤ) := by
    have : lo ≤ e1 := min_le_left _ _
    rw [Int.toNat_of_nonneg (by omega)]; ring
  have h2 : e2 = lo + ((e2 - lo).toNat : ℤ) := by
    have : lo ≤ e2 := min_le_right _ _
    rw [Int.toNat_of_nonneg (by omega)]; ring
  have h10 : (10 : ℚ) ≠ 0 := by norm_num
  have hlo0 : (10 : ℚ) ^ lo ≠ 0 := zpow_ne_zero _ h10
  generalize (e1 - lo).toNat = a at h1
  generalize (e2 - lo).toNat = b at h2
  rw [h1, h2, zpow_add₀ h10, zpow_add₀ h10, zpow_natCast, zpow_natCast]
  constructor
  · intro h
    have : ((m1 : ℚ) * 10 ^ a) * 10 ^ lo = ((m2 : ℚ) * 10 ^ b) * 10 ^ lo := by linarith
    have := mul_right_cancel₀ hlo0 this
    exact_mod_cast this
  · intro h
    have : ((m1 : ℚ) * 10 ^ a) = ((m2 : ℚ) * 10 ^ b) := by exact_mod_cast h
    calc (m1 : ℚ) * (10 ^ lo * 10 ^ a) = ((m1 : ℚ) * 10 ^ a) * 10 ^ lo := by ring
      _ = ((m2 : ℚ) * 10 ^ b) * 10 ^ lo := by rw [this]
      _ = (m2 : ℚ) * (10 ^ lo * 10 ^ b) := by ring

theorem val_zero_iff (n : Bool) (m : ℕ) (e : ℤ) : val n m e = 0 ↔ m = 0 := by
  unfold val
  have h10 : (10 : ℚ) ^ e ≠ 0 := zpow_ne_zero _ (by norm_num)
  cases n <;> simp [h10]

theorem scaled_zero_iff (m k : ℕ) : m * 10 ^ k = 0 ↔ m = 0 := by
  simp

/-- **the exact comparison is value equality** -/
theorem cmp_iff (n1 : Bool) (m1 : ℕ) (e1 : ℤ) (n2 : Bool) (m2 : ℕ) (e2 : ℤ) :
    cmp n1 m1 e1 n2 m2 e2 = true ↔ val n1 m1 e1 = val n2 m2 e2 := by
  unfold cmp
  simp only
  by_cases hz : m1 = 0 ∧ m2 = 0
  · obtain ⟨rfl, rfl⟩ := hz
    simp [val]
  · have hz' : ¬ (m1 * 10 ^ (e1 - min e1 e2).toNat = 0 ∧ m2 * 10 ^ (e2 - min e1 e2).toNat = 0) := by
      rw [scaled_zero_iff, scaled_zero_iff]; exact hz
    have hcond : (decide (m1 * 10 ^ (e1 - min e1 e2).toNat = 0) && decide (m2 * 10 ^ (e2 - min e1 e2).toNat = 0)) = false := by
      simpa using hz'
    rw [if_neg (by rw [hcond]; simp)]
    simp only [Bool.and_eq_true, beq_iff_eq]
    rw [← scaled_iff]
    have hp1 : (0 : ℚ) < (10 : ℚ) ^ e1 := zpow_pos (by norm_num) _
    have hp2 : (0 : ℚ) < (10 : ℚ) ^ e2 := zpow_pos (by norm_num) _
    have hm1 : (0 : ℚ) ≤ (m1 : ℚ) * 10 ^ e1 := by positivity
    have hm2 : (0 : ℚ) ≤ (m2 : ℚ) * 10 ^ e2 := by positivity
    unfold val
    constructor
    · rintro ⟨rfl, h⟩
      rw [mul_assoc, mul_assoc, h]
    · intro h
      cases n1 <;> cases n2 <;> simp at h ⊢
      · exact h
      · -- +x = -y with x, y ≥ 0 : both zero, excluded
        exfalso
        have hx : (m1 : ℚ) * 10 ^ e1 = 0 := by linarith
        have hy : (m2 : ℚ) * 10 ^ e2 = 0 := by linarith
        have a1 : m1 = 0 := by
          rcases mul_eq_zero.mp hx with h0 | h0
          · exact_mod_cast h0
          · exact absurd h0 (ne_of_gt hp1)
        have a2 : m2 = 0 := by
          rcases mul_eq_zero.mp hy with h0 | h0
          · exact_mod_cast h0
          · exact absurd h0 (ne_of_gt hp2)
        exact hz ⟨a1, a2⟩
      · exfalso
        have hx : (m1 : ℚ) * 10 ^ e1 = 0 := by linarith
        have hy : (m2 : ℚ) * 10 ^ e2 = 0 := by linarith
        have a1 : m1 = 0 := by
          rcases mul_eq_zero.mp hx with h0 | h0
          · exact_mod_cast h0
          · exact absurd h0 (ne_of_gt hp1)
        have a2 : m2 = 0 := by
          rcases mul_eq_zero.mp hy with h0 | h0
          · exact_mod_cast h0
          · exact absurd h0 (ne_of_gt hp2)
        exact hz ⟨a1, a2⟩
      · exact h

#print axioms cmp_iff

/-- hence the comparison is an equivalence relation on parsed spellings -/
theorem cmp_symm {n1 m1 e1 n2 m2 e2} (h : cmp n1 m1 e1 n2 m2 e2 = true) : cmp n2 m2 e2 n1 m1 e1 = true :=
  (cmp_iff ..).mpr ((cmp_iff ..).mp h).symm
theorem cmp_trans {n1 m1 e1 n2 m2 e2 n3 m3 e3} (h1 : cmp n1 m1 e1 n2 m2 e2 = true) (h2 : cmp n2 m2 e2 n3 m3 e3 = true) :
    cmp n1 m1 e1 n3 m3 e3 = true :=
  (cmp_iff ..).mpr (((cmp_iff ..).mp h1).trans ((cmp_iff ..).mp h2))
end JEqNum
