/-! C03, `validate.Float`: a model over exact rationals. A finite IEEE-754 double *is* a rational number;
    `v < t.Min`, `v == t.Min` on finite doubles are the comparisons of those rationals, and the multipleOf test is
    done by the real code itself in `big.Rat` (`SetFloat64(v).Quo(·, MultipleOf).IsInt()`), i.e. exactly. This file
    is core-only (the driver links it); the theorem is in `FloatValidate_proof.lean`. -/
namespace FloatV

inductive FVal where
  | nan | inf | fin (q : Rat)
deriving Repr

/-- the value of a binary64 bit pattern -/
def ofBits (b : UInt64) : FVal :=
  let sign : Bool := (b >>> 63) == 1
  let e : Nat := ((b >>> 52) &&& 0x7ff).toNat
  let m : Nat := (b &&& 0xfffffffffffff).toNat
  if e == 0x7ff then (if m == 0 then .inf else .nan)
  else
    -- subnormal: m · 2^-1074; normal: (2^52 + m) · 2^(e-1075)
    let mant : Nat := if e == 0 then m else m + 2 ^ 52
    let ex : Int := if e == 0 then -1074 else (e : Int) - 1075
    let mag : Rat := if ex ≥ 0 then (mant * 2 ^ ex.toNat : Nat) else (mant : Rat) / ((2 ^ (-ex).toNat : Nat) : Rat)
    .fin (if sign then -mag else mag)

structure Cfg where
  minSet : Bool
  min : Rat
  minExcl : Bool
  maxSet : Bool
  max : Rat
  maxExcl : Bool
  multSet : Bool
  mult : Rat

/-- `Float.validate` on a finite value -/
def validateFin (c : Cfg) (v : Rat) : Bool :=
  !(c.minSet && (v < c.min || (c.minExcl && v == c.min))) &&
  !(c.maxSet && (v > c.max || (c.maxExcl && v == c.max))) &&
  !(c.multSet && !((v / c.mult).den == 1))

/-- `Float.Validate`: NaN and ±Inf are refused first -/
def validate (c : Cfg) : FVal → Bool
  | .nan => false
  | .inf => false
  | .fin v => validateFin c v

/-! line protocol: `vfloat <vbits> <minSet> <minbits> <minExcl> <maxSet> <maxbits> <maxExcl> <multSet> <num> <den>` -/
def hexU64 (s : String) : UInt64 :=
  s.foldl (fun v d => v * 16 + (if d.isDigit then d.toNat - 48 else d.toNat - 87).toUInt64) 0

def ratOfBits (s : String) : Rat := match ofBits (hexU64 s) with | .fin q => q | _ => 0

def parseIntS (s : String) : Int :=
  if s.startsWith "-" then -((s.drop 1).toNat!) else s.toNat!

def floatLine (line : String) : String :=
  match (line.splitOn " ").filter (· ≠ "") with
  | [v, mns, mn, mne, mxs, mx, mxe, ms, num, den] =>
    let c : Cfg := ⟨mns == "1", ratOfBits mn, mne == "1", mxs == "1", ratOfBits mx, mxe == "1", ms == "1",
      (parseIntS num : Rat) / ((den.toNat! : Nat) : Rat)⟩
    if validate c (ofBits (hexU64 v)) then "ok" else "err"
  | _ => "bad"
end FloatV
