import Ogen.RouterEndToEnd_proof
/-! Proof probe for C05, the 405 clause: in a built tree a template has exactly one node, so the routes of the
    dispatched node include every inserted route of that template — the `Allow` header misses no defined method,
    and 405 is answered only when the method really is undefined for the template. -/
namespace Tree

theorem same_head_eq {cs : List Node} (hd : cs.Pairwise (fun a b => a.head ≠ b.head)) {a b : Node}
    (ha : a ∈ cs) (hb : b ∈ cs) (h : a.head = b.head) : a = b := by
  induction cs with
  | nil => cases ha
  | cons c rest ih =>
    rw [List.pairwise_cons] at hd
    rcases List.mem_cons.mp ha with rfl | ha'
    · rcases List.mem_cons.mp hb with rfl | hb'
      · rfl
      · exact absurd h (hd.1 b hb')
    · rcases List.mem_cons.mp hb with rfl | hb'
      · exact absurd h.symm (hd.1 a ha')
      · exact ih hd.2 ha' hb'

theorem map_some_append_cancel {a : Bytes} {x y : List Sym} (h : a.map some ++ x = a.map some ++ y) : x = y :=
  List.append_cancel_left h

/-- **one node per template** -/
theorem present_unique {n : Node} {sp : List Sym} {m : Route} (hp : Present n sp m) :
    WF n → Distinct n → ∀ rs, (sp, rs) ∈ tb n → m ∈ rs := by
  induction hp with
  | @here n r hr =>
    intro hwf _ rs hmem
    rcases mem_tb.mp hmem with h | ⟨c, hc, y, _, hy⟩
    · cases h; exact hr
    · exfalso
      have hsym : symsOfPart c ++ y.1 = [] := by
        have := congrArg Prod.fst hy; simpa using this.symm
      have hwc := (hwf.children c hc).1
      by_cases hcp : c.isParam = true
      · simp [symsOfPart, hcp] at hsym
      · have hcp' : c.isParam = false := by simpa using hcp
        simp only [symsOfPart, hcp', Bool.false_eq_true, if_false, List.append_eq_nil_iff, List.map_eq_nil_iff] at hsym
        exact (hwc.2 hcp').1 hsym.1
  | @static n c sp r hc hs _ ih =>
    intro hwf hdis rs hmem
    have hwc := (hwf.children c hc).1
    obtain ⟨hne, hhead, _⟩ := hwc.2 hs
    rcases mem_tb.mp hmem with h | ⟨c2, hc2, y, hy2, hy⟩
    · exfalso
      have := congrArg Prod.fst h
      simp only [List.append_eq_nil_iff, List.map_eq_nil_iff] at this
      exact hne this.1
    · have hsym : c.pfx.map some ++ sp = symsOfPart c2 ++ y.1 := by
        have := congrArg Prod.fst hy; simpa using this
      have hrs : rs = y.2 := by have := congrArg Prod.snd hy; simpa using this
      have hwc2 := (hwf.children c2 hc2).1
      -- the first symbol decides the child
      cases hpf : c.pfx with
      | nil => exact absurd hpf hne
      | cons b bs =>
        have hb : c.head = b := by rw [hpf] at hhead; simpa using hhead.symm
        by_cases hcp : c2.isParam = true
        · exfalso
          simp [symsOfPart, hcp, hpf] at hsym
        · have hcp' : c2.isParam = false := by simpa using hcp
          obtain ⟨hne2, hhead2, _⟩ := hwc2.2 hcp'
          cases hpf2 : c2.pfx with
          | nil => exact absurd hpf2 hne2
          | cons b2 bs2 =>
            have hb2 : c2.head = b2 := by rw [hpf2] at hhead2; simpa using hhead2.symm
            have hbb : b = b2 := by
              simp [symsOfPart, hcp', hpf, hpf2] at hsym
              exact hsym.1
            have hcc : c = c2 := same_head_eq hdis.here hc hc2 (by rw [hb, hb2, hbb])
            subst hcc
            have hsp : sp = y.1 := by
              simp only [symsOfPart, hs, Bool.false_eq_true, if_false] at hsym
              exact map_some_append_cancel hsym
            rw [hrs]
            exact ih (hwf.children c hc).2 (hdis.kids c hc) y.2 (by rw [hsp]; exact hy2)
  | @param n c sp r hc hp _ ih =>
    intro hwf hdis rs hmem
    have hwc := (hwf.children c hc).1
    rcases mem_tb.mp hmem with h | ⟨c2, hc2, y, hy2, hy⟩
    · exfalso
      have := congrArg Prod.fst h
      simp at this
    · have hsym : none :: sp = symsOfPart c2 ++ y.1 := by
        have := congrArg Prod.fst hy; simpa using this
      have hrs : rs = y.2 := by have := congrArg Prod.snd hy; simpa using this
      have hwc2 := (hwf.children c2 hc2).1
      by_cases hcp : c2.isParam = true
      · have hcc : c = c2 := same_head_eq hdis.here hc hc2 (by rw [hwc.1 hp, hwc2.1 hcp])
        subst hcc
        have hsp : sp = y.1 := by
          simp [symsOfPart, hp] at hsym
          exact hsym
        rw [hrs]
        exact ih (hwf.children c hc).2 (hdis.kids c hc) y.2 (by rw [hsp]; exact hy2)
      · exfalso
        have hcp' : c2.isParam = false := by simpa using hcp
        obtain ⟨hne2, _, _⟩ := hwc2.2 hcp'
        cases hpf2 : c2.pfx with
        | nil => exact absurd hpf2 hne2
        | cons b2 bs2 => simp [symsOfPart, hcp', hpf2] at hsym

#print axioms present_unique

/-- the method switch below a dispatched node -/
inductive Resp where
  | notFound
  | notAllowed (allow : List String)
  | handler (r : Route) (args : List Bytes)

def serve (fuel : Nat) (n : Node) (method : String) (elem : Bytes) : Resp :=
  match edge fuel n elem with
  | none => .notFound
  | some (rs, args) =>
    match rs.find? (fun r => r.method == method) with
    | some r => .handler r args
    | none => .notAllowed (rs.map (·.method))

/-- **C05, 405 clause**: if the tree built from `routes` answers 405 for a path, then the path instantiates a template
    `t` of the route set (with the extracted arguments), every inserted route of that template has its method in
    `Allow`, and the request's method is not among them -/
theorem allow_complete (key : Route → List Sym) (fuel0 : Nat) (routes : List (Bytes × Route)) (n : Node)
    (hr : ∀ pm ∈ routes, ∃ sp, Syms pm.1 sp ∧ key pm.2 = sp)
    (hb : buildFrom fuel0 emptyRoot routes = .ok n)
    (fuel : Nat) (method : String) (elem : Bytes) (allow : List String)
    (h : serve fuel n method elem = .notAllowed allow) :
    ∃ t args, Fill t args elem ∧ method ∉ allow ∧
      ∀ pm ∈ routes, key pm.2 = t → pm.2.method ∈ allow := by
  unfold serve at h
  cases he : edge fuel n elem with
  | none => simp [he] at h
  | some res =>
    obtain ⟨rs, args⟩ := res
    simp only [he] at h
    cases hf : rs.find? (fun r => r.method == method) with
    | some r => simp [hf] at h
    | none =>
      simp only [hf] at h
      cases h
      obtain ⟨t, ht, hfill⟩ := edge_good fuel n elem (rs, args) he
      have hr' : ∀ pm ∈ routes, ∃ sp, Syms pm.1 sp := fun pm hpm => let ⟨sp, hs, _⟩ := hr pm hpm; ⟨sp, hs⟩
      obtain ⟨hwf, hdis, hpres⟩ := build_present fuel0 routes n hr' hb
      refine ⟨t, args, hfill, ?_, ?_⟩
      · intro hmem
        obtain ⟨r, hrm, hrm2⟩ := List.mem_map.mp hmem
        have := List.find?_eq_none.mp hf r hrm
        simp [hrm2] at this
      · intro pm hpm hkey
        obtain ⟨sp, hs, hk⟩ := hr pm hpm
        have hp := hpres pm hpm sp hs
        have : sp = t := by rw [← hk, hkey]
        subst this
        exact List.mem_map.mpr ⟨pm.2, present_unique hp hwf hdis rs ht, rfl⟩

#print axioms allow_complete

/-- **every stored route was inserted.** `build_noJunk` holds for *any* key function that is right on the inserted
    routes; were a stored route `r` not inserted, a key that is wrong on `r` alone would still satisfy the hypothesis,
    and `build_noJunk` would contradict it. -/
theorem stored_inserted (key : Route → List Sym) (fuel0 : Nat) (routes : List (Bytes × Route)) (n : Node)
    (hr : ∀ pm ∈ routes, ∃ sp, Syms pm.1 sp ∧ key pm.2 = sp)
    (hb : buildFrom fuel0 emptyRoot routes = .ok n)
    {t : List Sym} {rs : List Route} (ht : (t, rs) ∈ tb n) {r : Route} (hrm : r ∈ rs) :
    ∃ pm ∈ routes, pm.2 = r := by
  classical
  by_cases hex : ∃ pm ∈ routes, pm.2 = r
  · exact hex
  · exfalso
    let key' : Route → List Sym := fun r' => if r' = r then t ++ [some 0] else key r'
    have hr' : ∀ pm ∈ routes, ∃ sp, Syms pm.1 sp ∧ key' pm.2 = sp := by
      intro pm hpm
      obtain ⟨sp, hs, hk⟩ := hr pm hpm
      refine ⟨sp, hs, ?_⟩
      have hne : pm.2 ≠ r := fun h => hex ⟨pm, hpm, h⟩
      simp only [key', hne, if_false]
      exact hk
    obtain ⟨_, hnj⟩ := build_noJunk key' fuel0 routes n hr' hb
    have := hnj (t, rs) ht r hrm
    simp [key'] at this

#print axioms stored_inserted

/-- **C05, 405 clause, both inclusions**: `Allow` is exactly the set of methods of the inserted routes of the
    dispatched template -/
theorem allow_exact (key : Route → List Sym) (fuel0 : Nat) (routes : List (Bytes × Route)) (n : Node)
    (hr : ∀ pm ∈ routes, ∃ sp, Syms pm.1 sp ∧ key pm.2 = sp)
    (hb : buildFrom fuel0 emptyRoot routes = .ok n)
    (fuel : Nat) (method : String) (elem : Bytes) (allow : List String)
    (h : serve fuel n method elem = .notAllowed allow) :
    ∃ t args, Fill t args elem ∧ method ∉ allow ∧
      ∀ m', m' ∈ allow ↔ ∃ pm ∈ routes, key pm.2 = t ∧ pm.2.method = m' := by
  unfold serve at h
  cases he : edge fuel n elem with
  | none => simp [he] at h
  | some res =>
    obtain ⟨rs, args⟩ := res
    simp only [he] at h
    cases hf : rs.find? (fun r => r.method == method) with
    | some r => simp [hf] at h
    | none =>
      simp only [hf] at h
      cases h
      obtain ⟨t, ht, hfill⟩ := edge_good fuel n elem (rs, args) he
      have hr' : ∀ pm ∈ routes, ∃ sp, Syms pm.1 sp := fun pm hpm => let ⟨sp, hs, _⟩ := hr pm hpm; ⟨sp, hs⟩
      obtain ⟨hwf, hdis, hpres⟩ := build_present fuel0 routes n hr' hb
      obtain ⟨_, hnj⟩ := build_noJunk key fuel0 routes n hr hb
      refine ⟨t, args, hfill, ?_, ?_⟩
      · intro hmem
        obtain ⟨r, hrm, hrm2⟩ := List.mem_map.mp hmem
        have := List.find?_eq_none.mp hf r hrm
        simp [hrm2] at this
      · intro m'
        constructor
        · intro hm
          obtain ⟨r, hrm, hrm2⟩ := List.mem_map.mp hm
          obtain ⟨pm, hpm, hpr⟩ := stored_inserted key fuel0 routes n hr hb ht hrm
          have hk := hnj (t, rs) ht r hrm
          simp only [List.nil_append] at hk
          exact ⟨pm, hpm, by rw [hpr]; exact hk, by rw [hpr]; exact hrm2⟩
        · rintro ⟨pm, hpm, hkey, hmeth⟩
          obtain ⟨sp, hs, hk⟩ := hr pm hpm
          have hp := hpres pm hpm sp hs
          have : sp = t := by rw [← hk, hkey]
          subst this
          exact List.mem_map.mpr ⟨pm.2, present_unique hp hwf hdis rs ht, hmeth⟩

#print axioms allow_exact
end Tree
