import Ogen.JsonEqual_feasibility
import Ogen.JsonNumberLadder_proof
/-! Ties the spelling-level number ladder `numEqS` (about which `numEqS_iff` is proved) to the text-level `numEq`
    of `JsonEqual_feasibility.lean` (which was compared with the repaired `json.Equal` on 299 986 pairs): render
    every spelling of a small grammar-complete family and compare the two verdicts on all ordered pairs. -/
open JEqNum

def digitsStr (ds : List Nat) : String := String.ofList (ds.map (fun d => Char.ofNat (48 + d)))
def render (s : Spell) : String :=
  (if s.neg then "-" else "") ++ digitsStr s.int ++
  (match s.frac with | none => "" | some f => "." ++ digitsStr f) ++
  (match s.exp with
   | none => ""
   | some (up, sg, ds) => (if up then "E" else "e") ++ (match sg with | none => "" | some false => "+" | some true => "-") ++ digitsStr ds)

def ints : List (List Nat) := [[0], [1], [7], [1, 0], [1, 0, 0], [9, 9], [1, 2, 3]]
def fracs : List (Option (List Nat)) := [none, some [0], some [5], some [0, 0], some [1, 0], some [0, 1], some [2, 3, 0]]
def exps : List (Option (Bool × Option Bool × List Nat)) :=
  [none, some (false, none, [0]), some (true, some false, [1]), some (false, some true, [1]), some (false, some true, [2]),
   some (true, none, [2]), some (false, some true, [0]), some (false, none, [1, 0]), some (false, some true, [0, 3])]
def spells : List Spell := Id.run do
  let mut out := []
  for n in [false, true] do
    for i in ints do
      for f in fracs do
        for e in exps do
          out := ⟨n, i, f, e⟩ :: out
  return out

def mismatches : List (String × String) := Id.run do
  let mut bad := []
  for a in spells do
    for b in spells do
      if numEqS a b != JEq.numEq (render a) (render b) then bad := (render a, render b) :: bad
  return bad

#eval (spells.length, spells.length * spells.length, mismatches.length, mismatches.take 5)
#eval (spells.filter (fun a => (spells.filter (fun b => numEqS a b)).length > 1)).length
