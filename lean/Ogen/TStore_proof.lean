/-! C02, type-name conflict detection: a model of `gen/tstorage.go` (`saveType`, `saveRef`, `saveWType`, `merge`)
    over a table name ↦ type. The theorems say what "conflict detection instead of silent overwrite" amounts to in
    the code as it is: a binding is only ever replaced by a *generic* type (`Opt…`, `Nil…`, `OptNil…`), through
    `merge` only by a generic of the same base; every other second declaration of a name is an error, names never
    disappear, and a non-generic type that is in the table is the only type that was ever stored under its name.
    The one overwrite that is *not* refused — `saveType` of a generic over a non-generic binding of the same name —
    is exhibited as a witness (`generic_over_struct_witness`); on the real generator it is the known class K12
    (`component=string` with an optional string elsewhere). -/
namespace TStore

structure Ty where
  name : String
  generic : Bool
  base : Nat
  id : Nat
deriving DecidableEq, Repr

abbrev Table := List (String × Ty)

def get (tb : Table) (n : String) : Option Ty := tb.lookup n
def put (tb : Table) (t : Ty) : Table := (t.name, t) :: tb.filter (fun p => p.1 != t.name)

structure Store where
  types : Table := []
  refs : List (String × Ty) := []
  wrefs : List String := []
deriving DecidableEq

/-- `sameBase` for a generic `t` against the stored `c` (generic-of-primitive types of the driver) -/
def sameBase (t c : Ty) : Bool := c.generic && t.base == c.base

def saveType (s : Store) (t : Ty) : Option Store :=
  match get s.types t.name with
  | some _ => if t.generic then some { s with types := put s.types t } else none
  | none => some { s with types := put s.types t }

def saveRef (s : Store) (ref : String) (t : Ty) : Option Store :=
  if (s.refs.lookup ref).isSome then none
  else if (get s.types t.name).isSome then none
  else some { s with refs := (ref, t) :: s.refs, types := put s.types t }

def saveWType (s : Store) (ref : String) (t : Ty) : Option Store :=
  if s.wrefs.contains ref then none
  else if (get s.types t.name).isSome then none
  else some { s with wrefs := ref :: s.wrefs, types := put s.types t }

/-- may the binding `(n, t)` of the other store be merged into `tb`? -/
def mergeOk (tb : Table) (p : String × Ty) : Bool :=
  match get tb p.1 with
  | none => true
  | some c => p.2.generic && sameBase p.2 c

def merge (s o : Store) : Option Store :=
  if o.refs.any (fun p => (s.refs.lookup p.1).isSome || (get s.types p.2.name).isSome) then none
  else if !(o.types.all (mergeOk s.types)) then none
  else if o.wrefs.any (fun r => s.wrefs.contains r) then none
  else some { refs := o.refs ++ s.refs, wrefs := o.wrefs ++ s.wrefs,
              types := o.types.foldr (fun p tb => put tb p.2) s.types }

/-! ### table lemmas -/
theorem lookup_filter_ne (tb : Table) (n m : String) :
    (tb.filter (fun p => p.1 != n)).lookup m = if m = n then none else tb.lookup m := by
  induction tb with
  | nil => simp
  | cons p tb ih =>
    obtain ⟨k, v⟩ := p
    by_cases hk : k = n
    · subst hk
      by_cases hm : m = k
      · subst hm; simp [List.filter, ih]
      · have : (m == k) = false := by simpa using hm
        simp [List.filter, ih, hm, List.lookup, this]
    · have hkn : (k != n) = true := by simpa using hk
      by_cases hmk : m = k
      · subst hmk
        simp [List.filter, hkn, List.lookup, hk]
      · have : (m == k) = false := by simpa using hmk
        simp [List.filter, hkn, List.lookup, this, ih]

theorem get_put (tb : Table) (t : Ty) (m : String) :
    get (put tb t) m = if m = t.name then some t else get tb m := by
  unfold get put
  by_cases h : m = t.name
  · subst h; simp [List.lookup]
  · have : (m == t.name) = false := by simpa using h
    simp [List.lookup, this, lookup_filter_ne, h]

/-! ### what one successful operation can do to a binding -/

/-- the relation "the table changed from `a` to `b` in a permitted way": every old binding is kept or replaced
    by a generic type -/
def Keeps (a b : Table) : Prop :=
  ∀ n c, get a n = some c → get b n = some c ∨ ∃ t, get b n = some t ∧ t.generic = true

/-- a new non-generic binding only ever fills an empty slot -/
def NoNonGenericOverwrite (a b : Table) : Prop :=
  ∀ n t, get b n = some t → t.generic = false → get a n = none ∨ get a n = some t

theorem put_keeps (tb : Table) (t : Ty) (h : get tb t.name = none ∨ t.generic = true) : Keeps tb (put tb t) := by
  intro n c hc
  rw [get_put]
  by_cases hn : n = t.name
  · subst hn
    rcases h with h | h
    · rw [h] at hc; cases hc
    · exact Or.inr ⟨t, by simp, h⟩
  · simp [hn, hc]

theorem put_nno (tb : Table) (t : Ty) (h : get tb t.name = none ∨ t.generic = true) :
    NoNonGenericOverwrite tb (put tb t) := by
  intro n u hu hg
  rw [get_put] at hu
  by_cases hn : n = t.name
  · subst hn
    simp at hu
    subst hu
    rcases h with h | h
    · exact Or.inl h
    · rw [h] at hg; cases hg
  · simp [hn] at hu
    exact Or.inr hu

theorem saveType_ok (s s' : Store) (t : Ty) (h : saveType s t = some s') :
    s'.types = put s.types t ∧ (get s.types t.name = none ∨ t.generic = true) := by
  unfold saveType at h
  split at h
  · split at h
    · rename_i hg; cases h; exact ⟨rfl, Or.inr hg⟩
    · cases h
  · rename_i hn; cases h; exact ⟨rfl, Or.inl hn⟩

theorem saveRef_ok (s s' : Store) (ref : String) (t : Ty) (h : saveRef s ref t = some s') :
    s'.types = put s.types t ∧ get s.types t.name = none := by
  unfold saveRef at h
  split at h
  · cases h
  · split at h
    · cases h
    · rename_i hn
      cases h
      refine ⟨rfl, ?_⟩
      cases hg : get s.types t.name with
      | none => rfl
      | some c => simp [hg] at hn

theorem saveWType_ok (s s' : Store) (ref : String) (t : Ty) (h : saveWType s ref t = some s') :
    s'.types = put s.types t ∧ get s.types t.name = none := by
  unfold saveWType at h
  split at h
  · cases h
  · split at h
    · cases h
    · rename_i hn
      cases h
      refine ⟨rfl, ?_⟩
      cases hg : get s.types t.name with
      | none => rfl
      | some c => simp [hg] at hn

/-- **a non-generic declaration never replaces anything and is replaced only by a generic one** — `saveType` -/
theorem saveType_sound (s s' : Store) (t : Ty) (h : saveType s t = some s') :
    Keeps s.types s'.types ∧ NoNonGenericOverwrite s.types s'.types := by
  obtain ⟨he, hc⟩ := saveType_ok s s' t h
  rw [he]; exact ⟨put_keeps _ _ hc, put_nno _ _ hc⟩

/-- `saveRef` and `saveWType` only ever fill an empty slot -/
theorem saveRef_sound (s s' : Store) (ref : String) (t : Ty) (h : saveRef s ref t = some s') :
    Keeps s.types s'.types ∧ NoNonGenericOverwrite s.types s'.types := by
  obtain ⟨he, hc⟩ := saveRef_ok s s' ref t h
  rw [he]; exact ⟨put_keeps _ _ (Or.inl hc), put_nno _ _ (Or.inl hc)⟩

theorem saveWType_sound (s s' : Store) (ref : String) (t : Ty) (h : saveWType s ref t = some s') :
    Keeps s.types s'.types ∧ NoNonGenericOverwrite s.types s'.types := by
  obtain ⟨he, hc⟩ := saveWType_ok s s' ref t h
  rw [he]; exact ⟨put_keeps _ _ (Or.inl hc), put_nno _ _ (Or.inl hc)⟩

/-! ### merge -/
def foldPut (o tb : Table) : Table := o.foldr (fun p tb => put tb p.2) tb
theorem foldPut_cons (p : String × Ty) (o tb : Table) : foldPut (p :: o) tb = put (foldPut o tb) p.2 := rfl

/-- every entry of the other table is keyed by its own type name (true of every table built by `put`) -/
def Keyed (o : Table) : Prop := ∀ p ∈ o, p.1 = p.2.name

theorem keyed_put (tb : Table) (t : Ty) (h : Keyed tb) : Keyed (put tb t) := by
  intro p hp
  unfold put at hp
  rcases List.mem_cons.mp hp with hp | hp
  · subst hp; rfl
  · exact h p (List.mem_filter.mp hp).1

/-- merging bindings that are each new or a same-base generic keeps the permitted-change relation, and a binding
    that changes does so to a generic of the same base -/
theorem foldPut_sound (o tb : Table) (hk : Keyed o) (hok : ∀ p ∈ o, mergeOk tb p = true) :
    ∀ n, get (foldPut o tb) n = get tb n ∨
      ∃ p ∈ o, get (foldPut o tb) n = some p.2 ∧ p.1 = n ∧ mergeOk tb p = true := by
  induction o with
  | nil => intro n; exact Or.inl rfl
  | cons p o ih =>
    intro n
    have hk' : Keyed o := fun q hq => hk q (List.mem_cons_of_mem _ hq)
    have hok' : ∀ q ∈ o, mergeOk tb q = true := fun q hq => hok q (List.mem_cons_of_mem _ hq)
    simp only [foldPut_cons, get_put]
    by_cases hn : n = p.2.name
    · refine Or.inr ⟨p, List.mem_cons_self, by simp [hn], ?_, hok p List.mem_cons_self⟩
      rw [hk p List.mem_cons_self, hn]
    · simp only [hn, if_false]
      rcases ih hk' hok' n with h | ⟨q, hq, h1, h2, h3⟩
      · exact Or.inl h
      · exact Or.inr ⟨q, List.mem_cons_of_mem _ hq, h1, h2, h3⟩

theorem merge_types (s o s' : Store) (h : merge s o = some s') :
    s'.types = foldPut o.types s.types ∧ ∀ p ∈ o.types, mergeOk s.types p = true := by
  unfold merge at h
  split at h
  · cases h
  · split at h
    · cases h
    · rename_i hall
      split at h
      · cases h
      · cases h
        refine ⟨rfl, ?_⟩
        have : o.types.all (mergeOk s.types) = true := by simpa using hall
        exact fun p hp => (List.all_eq_true.mp this) p hp

/-- **merge replaces a binding only by a generic type of the same base**, and adds the others -/
theorem merge_sound (s o s' : Store) (hk : Keyed o.types) (h : merge s o = some s') :
    Keeps s.types s'.types ∧ NoNonGenericOverwrite s.types s'.types ∧
    (∀ n c t, get s.types n = some c → get s'.types n = some t → t ≠ c →
        t.generic = true ∧ c.generic = true ∧ t.base = c.base) := by
  obtain ⟨he, hok⟩ := merge_types s o s' h
  rw [he]
  have key := foldPut_sound o.types s.types hk hok
  refine ⟨?_, ?_, ?_⟩
  · intro n c hc
    rcases key n with h1 | ⟨p, _, h1, h2, h3⟩
    · exact Or.inl (by rw [h1]; exact hc)
    · refine Or.inr ⟨p.2, h1, ?_⟩
      unfold mergeOk at h3
      rw [h2, hc] at h3
      simp only [Bool.and_eq_true] at h3
      exact h3.1
  · intro n t ht hg
    rcases key n with h1 | ⟨p, _, h1, h2, h3⟩
    · exact Or.inr (by rw [← h1]; exact ht)
    · rw [h1] at ht
      cases ht
      unfold mergeOk at h3
      rw [h2] at h3
      cases hg' : get s.types n with
      | none => exact Or.inl rfl
      | some c =>
        rw [hg'] at h3
        simp only [Bool.and_eq_true] at h3
        rw [h3.1] at hg; cases hg
  · intro n c t hc ht hne
    rcases key n with h1 | ⟨p, _, h1, h2, h3⟩
    · rw [h1, hc] at ht; cases ht; exact absurd rfl hne
    · rw [h1] at ht
      cases ht
      unfold mergeOk sameBase at h3
      rw [h2, hc] at h3
      simp only [Bool.and_eq_true, beq_iff_eq] at h3
      exact ⟨h3.1, h3.2.1, h3.2.2⟩

/-! ### runs of operations on the global store -/
inductive Op where
  | type (t : Ty)
  | ref (r : String) (t : Ty)
  | wtype (r : String) (t : Ty)
  | merge (o : Store)

def Op.keyed : Op → Prop
  | .merge o => Keyed o.types
  | _ => True

def apply (s : Store) : Op → Option Store
  | .type t => saveType s t
  | .ref r t => saveRef s r t
  | .wtype r t => saveWType s r t
  | .merge o => merge s o

theorem apply_sound (s s' : Store) (op : Op) (hk : op.keyed) (h : apply s op = some s') :
    Keeps s.types s'.types ∧ NoNonGenericOverwrite s.types s'.types := by
  cases op with
  | type t => exact saveType_sound s s' t h
  | ref r t => exact saveRef_sound s s' r t h
  | wtype r t => exact saveWType_sound s s' r t h
  | merge o => exact ⟨(merge_sound s o s' hk h).1, (merge_sound s o s' hk h).2.1⟩

/-- all operations succeed, one after the other -/
def run (s : Store) : List Op → Option Store
  | [] => some s
  | op :: ops => match apply s op with
    | some s' => run s' ops
    | none => none

/-- names never disappear -/
theorem keeps_bound {a b : Table} (h : Keeps a b) (n : String) (hb : (get a n).isSome) : (get b n).isSome := by
  cases ha : get a n with
  | none => rw [ha] at hb; cases hb
  | some c => rcases h n c ha with h1 | ⟨t, h1, _⟩ <;> simp [h1]

/-- **no silent overwrite along any successful run**: a non-generic type found in the table at the end is what
    was there from the moment its name was first bound — at the start of the run the name was unbound or bound
    to this very type -/
theorem run_no_silent_overwrite (ops : List Op) (s s' : Store) (hk : ∀ op ∈ ops, op.keyed)
    (h : run s ops = some s') (n : String) (t : Ty) (ht : get s'.types n = some t) (hg : t.generic = false) :
    get s.types n = none ∨ get s.types n = some t := by
  induction ops generalizing s with
  | nil => simp only [run, Option.some.injEq] at h; subst h; exact Or.inr ht
  | cons op ops ih =>
    unfold run at h
    cases ha : apply s op with
    | none => rw [ha] at h; cases h
    | some s1 =>
      rw [ha] at h
      have hs := apply_sound s s1 op (hk op List.mem_cons_self) ha
      rcases ih s1 (fun o ho => hk o (List.mem_cons_of_mem _ ho)) h with h1 | h1
      · -- unbound after the first step, hence unbound before it
        cases hb : get s.types n with
        | none => exact Or.inl rfl
        | some c =>
          have := keeps_bound hs.1 n (by simp [hb])
          rw [h1] at this; cases this
      · exact hs.2 n t h1 hg

/-- the one overwrite that is not refused: `saveType` of a generic type over a non-generic binding of the same
    name (the generator's HACK branch has no `sameBase` test) -/
theorem generic_over_struct_witness :
    ∃ s s' c t, saveType s t = some s' ∧ get s.types "OptString" = some c ∧ c.generic = false ∧
      get s'.types "OptString" = some t ∧ t ≠ c :=
  ⟨{ types := [("OptString", ⟨"OptString", false, 0, 1⟩)] },
   { types := [("OptString", ⟨"OptString", true, 0, 2⟩)] },
   ⟨"OptString", false, 0, 1⟩, ⟨"OptString", true, 0, 2⟩, by decide, by decide, rfl, by decide, by decide⟩

/-- non-vacuity: a run that succeeds, with a conflict-free merge, and one that is refused -/
example : (run {} [.type ⟨"A", false, 0, 1⟩, .ref "r1" ⟨"B", false, 0, 2⟩,
    .merge { types := [("OptA", ⟨"OptA", true, 0, 3⟩)] }]).isSome = true := by decide
example : run {} [.type ⟨"A", false, 0, 1⟩, .type ⟨"A", false, 0, 2⟩] = none := by decide

/-! ### line protocol: `tstore <op>:<name>:<generic 0|1>:<base>:<ref|->:<id> …`; the driver keeps a global and a
    local store like the hook does -/
def showTable (tb : Table) : List String :=
  let names := (tb.map (·.1)).eraseDups
  let sorted := names.toArray.qsort (· < ·) |>.toList
  sorted.filterMap fun n => (get tb n).map fun t => n ++ "=" ++ toString t.id

def stepLine (st : Store × Store × List String) (w : String) : Store × Store × List String :=
  let (s, l, out) := st
  match w.splitOn ":" with
  | [op, name, g, b, ref, id] =>
    let t : Ty := ⟨name, g == "1", b.toNat!, id.toNat!⟩
    let res (r : Option Store) (keep : Store) : Store × String := match r with
      | some s' => (s', "ok")
      | none => (keep, "err")
    match op with
    | "type" => let (s', o) := res (saveType s t) s; (s', l, out ++ [o])
    | "ref" => let (s', o) := res (saveRef s ref t) s; (s', l, out ++ [o])
    | "wtype" => let (s', o) := res (saveWType s ref t) s; (s', l, out ++ [o])
    | "ltype" => let (l', o) := res (saveType l t) l; (s, l', out ++ [o])
    | "lref" => let (l', o) := res (saveRef l ref t) l; (s, l', out ++ [o])
    | "merge" => let (s', o) := res (merge s l) s; (s', {}, out ++ [o])
    | _ => (s, l, out ++ ["bad-op"])
  | _ => (s, l, out ++ ["bad-op"])

def tstoreLine (line : String) : String :=
  let ws := (line.splitOn " ").filter (· ≠ "")
  let (s, _, out) := ws.foldl stepLine (({} : Store), ({} : Store), [])
  " ".intercalate (out ++ showTable s.types)

end TStore
