import Ogen.JsonEqualGeneric_model
/-! C04 model: the JSON codec that `gen/_template/json/encoders_struct.tmpl`, `encoders_generic.tmpl` and
    `encode.tmpl` / `decode.tmpl` render for the fragment *integers, strings, booleans, arrays (items may be
    nullable), objects with named properties, each property required or optional, nullable or not* — over
    JSON syntax trees (jx's tokenizer and writer are outside; the tie compares syntax trees).

    A value is held in the state the API exposes: a member is `omitted` (an unset `Opt…`, a nil optional
    slice), `null` (a `Nil…` / `OptNil…` with `Null` set) or a value; see `OptNilStates_proof` for why the
    state and not the Go struct is what round-trips.

    The struct decoder is the streaming loop of the template: members are visited in the order of the text,
    a known name decodes into its field, an unknown name is skipped, afterwards the required-fields mask is
    checked. Duplicate member names are outside the model (the generated code decodes a repeated member into
    the value the first occurrence left behind, the model decodes it afresh); the theorems assume unique
    names and the correspondence never sends duplicates. -/
namespace JCodec
open JEqG

abbrev Json := J Int

inductive Ty where
  | int | str | bool
  | arr (nul : Bool) (item : Ty)
  /-- name, required, nullable, type -/
  | obj (fields : List (String × Bool × Bool × Ty))

abbrev Field := String × Bool × Bool × Ty

inductive Val where
  | omitted | null
  | int (i : Int) | str (s : String) | bool (b : Bool)
  | arr (xs : List Val)
  /-- one state per field, in field order -/
  | obj (ms : List Val)

def Val.isOmitted : Val → Bool
  | .omitted => true
  | _ => false

/-! ## encoder -/
mutual
def encode : Ty → Val → Json
  | _, .int i => .num i
  | _, .str s => .str s
  | _, .bool b => .bool b
  | .arr _ t, .arr xs => .arr (encodeItems t xs)
  | .obj fs, .obj ms => .obj (encodeFields fs ms)
  | _, _ => .null
def encodeItems (t : Ty) : List Val → List Json
  | [] => []
  | x :: xs => encode t x :: encodeItems t xs
/-- `if s.F.Set { e.FieldStart(name); s.F.Encode(e) }` field by field, in declaration order -/
def encodeFields : List Field → List Val → List (String × Json)
  | (n, _, _, t) :: fs, m :: ms =>
    match m with
    | .omitted => encodeFields fs ms
    | _ => (n, encode t m) :: encodeFields fs ms
  | _, _ => []
end

/-! ## decoder -/
/-- `switch string(k)`: the first field of that name, with its index -/
def findIdx : List Field → String → Nat → Option (Nat × Bool × Ty)
  | [], _, _ => none
  | (n, _, nul, t) :: fs, k, i => if n == k then some (i, nul, t) else findIdx fs k (i + 1)

/-- a member or item position: `null` is taken by the `Nil…` wrapper when there is one and refused otherwise
    (every plain decoder refuses `null`), anything else goes to the decoder of the type (`r`) -/
def memberOf (nul : Bool) (j : Json) (r : Option Val) : Option Val :=
  match j with
  | .null => if nul then some .null else none
  | _ => r

/-- `requiredBitSet` against the mask: every required field was seen -/
def requiredOk : List Field → List Val → Bool
  | (_, req, _, _) :: fs, m :: ms => (!req || !m.isOmitted) && requiredOk fs ms
  | [], [] => true
  | _, _ => false

mutual
def decode : Ty → Json → Option Val
  | .int, .num n => some (.int n)
  | .str, .str s => some (.str s)
  | .bool, .bool b => some (.bool b)
  | .arr nul t, .arr xs => (decodeItems nul t xs).map .arr
  | .obj fs, .obj kvs =>
    match decodeMembers fs (fs.map fun _ => .omitted) kvs with
    | some st => if requiredOk fs st then some (.obj st) else none
    | none => none
  | _, _ => none
def decodeItems (nul : Bool) (t : Ty) : List Json → Option (List Val)
  | [] => some []
  | x :: xs =>
    match memberOf nul x (decode t x), decodeItems nul t xs with
    | some v, some vs => some (v :: vs)
    | _, _ => none
def decodeMembers (fs : List Field) (st : List Val) : List (String × Json) → Option (List Val)
  | [] => some st
  | (k, jv) :: rest =>
    match findIdx fs k 0 with
    | none => decodeMembers fs st rest
    | some (i, nul, t) =>
      match memberOf nul jv (decode t jv) with
      | none => none
      | some v => decodeMembers fs (st.set i v) rest
end

/-! ## what the schema says (the specification the codec is measured against) -/
def names (fs : List Field) : List String := fs.map (·.1)

/-- property names are distinct at every level (they are keys of one `properties` object) -/
def Ty.WF : Ty → Prop
  | .arr _ t => t.WF
  | .obj fs => (names fs).Nodup ∧ WFs fs
  | _ => True
where WFs : List Field → Prop
  | [] => True
  | (_, _, _, t) :: fs => t.WF ∧ WFs fs

/-- a member or item position of a value: `omitted` only where the member is optional, `null` only where it is
    nullable, anything else must be a value of the type (`p`) -/
def memberOk (req nul : Bool) (x : Val) (p : Prop) : Prop :=
  match x with
  | .omitted => req = false
  | .null => nul = true
  | _ => p

mutual
/-- a value of the type: what the generated Go type can hold, in states -/
def WT : Ty → Val → Prop
  | .int, .int _ => True
  | .str, .str _ => True
  | .bool, .bool _ => True
  | .arr nul t, .arr xs => WTItems nul t xs
  | .obj fs, .obj ms => WTFields fs ms
  | _, _ => False
def WTItems (nul : Bool) (t : Ty) : List Val → Prop
  | [] => True
  | x :: xs => memberOk true nul x (WT t x) ∧ WTItems nul t xs
def WTFields : List Field → List Val → Prop
  | [], [] => True
  | (_, req, nul, t) :: fs, m :: ms => memberOk req nul m (WT t m) ∧ WTFields fs ms
  | _, _ => False
end

/-- a member or item position of a document: `null` only where the schema says `nullable`, anything else must be
    admitted by the schema of the position (`p`) -/
def slotOk (nul : Bool) (j : Json) (p : Prop) : Prop :=
  match j with
  | .null => nul = true
  | _ => p

mutual
/-- **the schema as a predicate on documents** (by recursion on the schema): the right JSON type, every item
    admitted, every required property present, every present property admitted, `null` only where nullable;
    properties the schema does not name are free -/
def Valid : Ty → Json → Prop
  | .int, .num _ => True
  | .str, .str _ => True
  | .bool, .bool _ => True
  | .arr nul t, .arr xs => ∀ x ∈ xs, slotOk nul x (Valid t x)
  | .obj fs, .obj kvs => ValidFields fs kvs
  | _, _ => False
def ValidFields : List Field → List (String × Json) → Prop
  | [], _ => True
  | (n, req, nul, t) :: fs, kvs =>
    (match lookupJ kvs n with
     | none => req = false
     | some j => slotOk nul j (Valid t j)) ∧ ValidFields fs kvs
end

/-! member names are unique at every level of the document -/
mutual
def UniqueKeys : Json → Prop
  | .arr xs => UniqueKeysL xs
  | .obj kvs => (kvs.map (·.1)).Nodup ∧ UniqueKeysM kvs
  | _ => True
def UniqueKeysL : List Json → Prop
  | [] => True
  | x :: xs => UniqueKeys x ∧ UniqueKeysL xs
def UniqueKeysM : List (String × Json) → Prop
  | [] => True
  | (_, v) :: r => UniqueKeys v ∧ UniqueKeysM r
end
end JCodec
