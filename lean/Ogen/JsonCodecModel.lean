import Ogen.JsonEqualGeneric_model
/-! C04 model: the JSON codec that `gen/_template/json/encoders_struct.tmpl`, `encoders_generic.tmpl` and
    `encode.tmpl` / `decode.tmpl` render for the fragment *integers, strings, booleans, arrays (items may be
    nullable), objects with named properties, each property required or optional, nullable or not* — over
    JSON syntax trees (jx's tokenizer and writer are outside; the tie compares syntax trees).

    A value is held in the state the API exposes: a member is `omitted` (an unset `Opt…`, a nil optional
    slice), `null` (a `Nil…` / `OptNil…` with `Null` set) or a value; see `OptNilStates_proof` for why the
    state and not the Go struct is what round-trips.

    The struct decoder is the streaming loop of the template: members are visited in the order of the text,
    a known name decodes into its field, an unknown name is skipped, afterwards the required-fields mask is
    checked. Duplicate member names are outside the model (the generated code decodes a repeated member into
    the value the first occurrence left behind, the model decodes it afresh); the theorems assume unique
    names and the correspondence never sends duplicates. -/
namespace JCodec
open JEqG

/-- a JSON number as the integer decoders see it: an integer literal, or a literal with a fraction or an exponent
    part (which no integer decoder takes, whatever its value) -/
inductive Num where
  | int (n : Int)
  | frac

instance (n : Nat) : OfNat Num n := ⟨.int n⟩

abbrev Json := J Num

/-- the range of Go's `int` (64 bits), which `type: integer` without a format is generated as -/
def inRange (n : Int) : Bool := decide (-9223372036854775808 ≤ n) && decide (n ≤ 9223372036854775807)

/-- numeric keywords of an integer schema -/
structure IntC where
  min : Option Int := none
  max : Option Int := none
  exMin : Bool := false
  exMax : Bool := false
  /-- `multipleOf` (positive) -/
  mult : Option Nat := none

/-- `minLength`/`maxLength` (in code points) of a string schema, `minItems`/`maxItems` of an array schema -/
structure LenC where
  min : Nat := 0
  max : Option Nat := none

inductive Val where
  | omitted | null
  | int (i : Int) | str (s : String) | bool (b : Bool)
  | arr (xs : List Val)
  /-- one state per field, in field order -/
  | obj (ms : List Val)

/-- presence of a property: named in `required`, optional, or optional with a schema `default` (the decoder sets
    it before it reads the document: `setDefaults()`) -/
inductive Pres where
  | req | opt
  | dflt (d : Val)

def Pres.isReq : Pres → Bool
  | .req => true
  | _ => false
/-- the member may be in the state `omitted` -/
def Pres.mayOmit : Pres → Bool
  | .opt => true
  | _ => false
def Pres.isDflt : Pres → Bool
  | .dflt _ => true
  | _ => false
/-- the state of the field before the document is read -/
def Pres.init : Pres → Val
  | .dflt d => d
  | _ => .omitted

inductive Ty where
  | int (c : IntC) | str (c : LenC) | bool
  | arr (c : LenC) (nul : Bool) (item : Ty)
  /-- `closed` = `additionalProperties: false`; fields: name, presence, nullable, type -/
  | obj (closed : Bool) (fields : List (String × Pres × Bool × Ty))

abbrev Field := String × Pres × Bool × Ty

def initState (f : Field) : Val := f.2.1.init

def Val.isOmitted : Val → Bool
  | .omitted => true
  | _ => false

/-! ## encoder -/
mutual
def encode : Ty → Val → Json
  | _, .int i => .num (.int i)
  | _, .str s => .str s
  | _, .bool b => .bool b
  | .arr _ _ t, .arr xs => .arr (encodeItems t xs)
  | .obj _ fs, .obj ms => .obj (encodeFields fs ms)
  | _, _ => .null
def encodeItems (t : Ty) : List Val → List Json
  | [] => []
  | x :: xs => encode t x :: encodeItems t xs
/-- `if s.F.Set { e.FieldStart(name); s.F.Encode(e) }` field by field, in declaration order -/
def encodeFields : List Field → List Val → List (String × Json)
  | (n, _, _, t) :: fs, m :: ms =>
    match m with
    | .omitted => encodeFields fs ms
    | _ => (n, encode t m) :: encodeFields fs ms
  | _, _ => []
end

/-! ## decoder -/
/-- `switch string(k)`: the first field of that name, with its index -/
def findIdx : List Field → String → Nat → Option (Nat × Bool × Ty)
  | [], _, _ => none
  | (n, _, nul, t) :: fs, k, i => if n == k then some (i, nul, t) else findIdx fs k (i + 1)

/-- a member or item position: `null` is taken by the `Nil…` wrapper when there is one and refused otherwise
    (every plain decoder refuses `null`), anything else goes to the decoder of the type (`r`) -/
def memberOf (nul : Bool) (j : Json) (r : Option Val) : Option Val :=
  match j with
  | .null => if nul then some .null else none
  | _ => r

/-- `requiredBitSet` against the mask: every required field was seen -/
def requiredOk : List Field → List Val → Bool
  | (_, req, _, _) :: fs, m :: ms => (!req.isReq || !m.isOmitted) && requiredOk fs ms
  | [], [] => true
  | _, _ => false

mutual
def decode : Ty → Json → Option Val
  | .int _, .num (.int n) => if inRange n then some (.int n) else none
  | .str _, .str s => some (.str s)
  | .bool, .bool b => some (.bool b)
  | .arr _ nul t, .arr xs => (decodeItems nul t xs).map .arr
  | .obj closed fs, .obj kvs =>
    match decodeMembers closed fs (fs.map initState) kvs with
    | some st => if requiredOk fs st then some (.obj st) else none
    | none => none
  | _, _ => none
def decodeItems (nul : Bool) (t : Ty) : List Json → Option (List Val)
  | [] => some []
  | x :: xs =>
    match memberOf nul x (decode t x), decodeItems nul t xs with
    | some v, some vs => some (v :: vs)
    | _, _ => none
def decodeMembers (closed : Bool) (fs : List Field) (st : List Val) : List (String × Json) → Option (List Val)
  | [] => some st
  | (k, jv) :: rest =>
    match findIdx fs k 0 with
    | none => if closed then none else decodeMembers closed fs st rest   -- `unexpected field` / `d.Skip()`
    | some (i, nul, t) =>
      match memberOf nul jv (decode t jv) with
      | none => none
      | some v => decodeMembers closed fs (st.set i v) rest
end

/-! ## what the schema says (the specification the codec is measured against) -/
def names (fs : List Field) : List String := fs.map (·.1)

/-- a member or item position of a value: `omitted` only where the member is optional, `null` only where it is
    nullable, anything else must be a value of the type (`p`) -/
def memberOk (req nul : Bool) (x : Val) (p : Prop) : Prop :=
  match x with
  | .omitted => req = false
  | .null => nul = true
  | _ => p

mutual
/-- a value of the type: what the generated Go type can hold, in states -/
def WT : Ty → Val → Prop
  | .int _, .int n => inRange n = true
  | .str _, .str _ => True
  | .bool, .bool _ => True
  | .arr _ nul t, .arr xs => WTItems nul t xs
  | .obj _ fs, .obj ms => WTFields fs ms
  | _, _ => False
def WTItems (nul : Bool) (t : Ty) : List Val → Prop
  | [] => True
  | x :: xs => memberOk true nul x (WT t x) ∧ WTItems nul t xs
def WTFields : List Field → List Val → Prop
  | [], [] => True
  | (_, req, nul, t) :: fs, m :: ms => memberOk (!req.mayOmit) nul m (WT t m) ∧ WTFields fs ms
  | _, _ => False
end

/-- a member or item position of a document: `null` only where the schema says `nullable`, anything else must be
    admitted by the schema of the position (`p`) -/
def slotOk (nul : Bool) (j : Json) (p : Prop) : Prop :=
  match j with
  | .null => nul = true
  | _ => p

mutual
/-- **the schema as a predicate on documents** (by recursion on the schema): the right JSON type, every item
    admitted, every required property present, every present property admitted, `null` only where nullable;
    properties the schema does not name are free unless the object is closed -/
def Valid : Ty → Json → Prop
  | .int _, .num (.int n) => inRange n = true
  | .str _, .str _ => True
  | .bool, .bool _ => True
  | .arr _ nul t, .arr xs => ∀ x ∈ xs, slotOk nul x (Valid t x)
  | .obj closed fs, .obj kvs => ValidFields fs kvs ∧ (closed = true → ∀ kv ∈ kvs, kv.1 ∈ names fs)
  | _, _ => False
def ValidFields : List Field → List (String × Json) → Prop
  | [], _ => True
  | (n, req, nul, t) :: fs, kvs =>
    (match lookupJ kvs n with
     | none => req.isReq = false
     | some j => slotOk nul j (Valid t j)) ∧ ValidFields fs kvs
end

/-! ## validation keywords (C03): what `Validate()` of the generated types checks after decoding, and what the
    schema says about documents -/
def IntC.ok (c : IntC) (n : Int) : Bool :=
  (match c.min with | none => true | some m => if c.exMin then decide (m < n) else decide (m ≤ n)) &&
  (match c.max with | none => true | some m => if c.exMax then decide (n < m) else decide (n ≤ m)) &&
  (match c.mult with | none => true | some d => n % (d : Int) == 0)

def LenC.ok (c : LenC) (n : Nat) : Bool :=
  decide (c.min ≤ n) && (match c.max with | none => true | some m => decide (n ≤ m))

mutual
/-- the generated `Validate()`: numeric bounds and `multipleOf`, string length in code points, item counts, then
    the members; an unset or null member is skipped -/
def validate : Ty → Val → Bool
  | .int c, .int n => c.ok n
  | .str c, .str s => c.ok s.length
  | .arr c _ t, .arr xs => c.ok xs.length && validateItems t xs
  | .obj _ fs, .obj ms => validateFields fs ms
  | _, _ => true
def validateItems (t : Ty) : List Val → Bool
  | [] => true
  | x :: xs => validate t x && validateItems t xs
def validateFields : List Field → List Val → Bool
  | (_, _, _, t) :: fs, m :: ms => validate t m && validateFields fs ms
  | _, _ => true
end

/-- property names are distinct at every level (they are keys of one `properties` object); a `default` is a value
    of the property's type that satisfies its keywords -/
def Ty.WF : Ty → Prop
  | .arr _ _ t => t.WF
  | .obj _ fs => (names fs).Nodup ∧ WFs fs
  | _ => True
where WFs : List Field → Prop
  | [] => True
  | (_, req, _, t) :: fs => t.WF ∧ (∀ d, req = .dflt d → WT t d ∧ validate t d = true) ∧ WFs fs

mutual
/-- the keywords as a predicate on documents (by recursion on the schema); `null` and absent members carry none -/
def Constr : Ty → Json → Prop
  | .int c, .num (.int n) => c.ok n = true
  | .str c, .str s => c.ok s.length = true
  | .arr c _ t, .arr xs => c.ok xs.length = true ∧ ∀ x ∈ xs, Constr t x
  | .obj _ fs, .obj kvs => ConstrFields fs kvs
  | _, _ => True
def ConstrFields : List Field → List (String × Json) → Prop
  | [], _ => True
  | (n, _, _, t) :: fs, kvs =>
    (match lookupJ kvs n with
     | none => True
     | some j => Constr t j) ∧ ConstrFields fs kvs
end

/-- **valid against the schema**, keywords included -/
def SchemaValid (t : Ty) (j : Json) : Prop := Valid t j ∧ Constr t j

/-- the generated server's verdict on a body: decode, then `Validate()` -/
def accept (t : Ty) (j : Json) : Bool :=
  match decode t j with
  | none => false
  | some v => validate t v

/-! member names are unique at every level of the document -/
mutual
def UniqueKeys : Json → Prop
  | .arr xs => UniqueKeysL xs
  | .obj kvs => (kvs.map (·.1)).Nodup ∧ UniqueKeysM kvs
  | _ => True
def UniqueKeysL : List Json → Prop
  | [] => True
  | x :: xs => UniqueKeys x ∧ UniqueKeysL xs
def UniqueKeysM : List (String × Json) → Prop
  | [] => True
  | (_, v) :: r => UniqueKeys v ∧ UniqueKeysM r
end
end JCodec
