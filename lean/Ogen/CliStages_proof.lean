/-! Proof probe for C20: the CLI's stage machine and `cleanDir`, over any directory state. -/
namespace Cli

inductive Stage where
  | flags | config | specRead | yamlParse | specValidate | irBuild | routeBuild   -- before anything is touched
  | readDir | clean | mkdir | write
deriving DecidableEq, Repr

/-- the statement order of `run`/`generate` in cmd/ogen/main.go (regenerated from the source in the real
    development): everything up to `gen.NewGenerator` happens before the target directory is read -/
def stageOrder : List Stage :=
  [.flags, .config, .specRead, .yamlParse, .specValidate, .irBuild, .routeBuild, .readDir, .clean, .mkdir, .write]

def touchesDir : Stage → Bool
  | .clean | .mkdir | .write => true
  | _ => false

structure Entry where
  name : String
  isDir : Bool
  content : Nat
deriving DecidableEq, Repr

abbrev Dir := Option (List Entry)   -- none: the target directory does not exist

/-- cleanDir's filter: suffix `_gen.go` / `_gen_test.go`, prefix `openapi` / `oas`, not a directory -/
def isOwn (e : Entry) : Bool :=
  !e.isDir && (e.name.endsWith "_gen.go" || e.name.endsWith "_gen_test.go") &&
    (e.name.startsWith "oas" || e.name.startsWith "openapi")

def cleanDir (es : List Entry) : List Entry := es.filter (fun e => !isOwn e)

def writeFiles (out : List Entry) (es : List Entry) : List Entry :=
  es.filter (fun e => !out.any (·.name == e.name)) ++ out

def applyStage (clean : Bool) (out : List Entry) : Stage → Dir → Dir
  | .mkdir, d => (match d with | none => some [] | some es => some es)
  | .clean, d => (match d with | some es => some (if clean then cleanDir es else es) | none => none)
  | .write, d => (match d with | some es => some (writeFiles out es) | none => none)
  | _, d => d

theorem applyStage_id (clean : Bool) (out : List Entry) (t : Stage) (d : Dir) (h : touchesDir t = false) :
    applyStage clean out t d = d := by
  cases t <;> first | rfl | (simp [touchesDir] at h)

/-- run the stages in order until the first one that fails -/
def runStages (clean : Bool) (failAt : Option Stage) (out : List Entry) : List Stage → Dir → Nat × Dir
  | [], d => (0, d)
  | s :: rest, d =>
    if failAt = some s then (1, d)
    else runStages clean failAt out rest (applyStage clean out s d)

def run (clean : Bool) (failAt : Option Stage) (out : List Entry) (d : Dir) : Nat × Dir :=
  runStages clean failAt out stageOrder d

/-- stages that do not touch the directory leave it alone -/
theorem runStages_prefix (clean : Bool) (s : Stage) (out : List Entry) :
    ∀ (stages : List Stage) (d : Dir), s ∈ stages →
    (∀ t ∈ stages.takeWhile (· ≠ s), touchesDir t = false) →
    runStages clean (some s) out stages d = (1, d) := by
  intro stages
  induction stages with
  | nil => intro d hs; cases hs
  | cons t rest ih =>
    intro d hs hpre
    unfold runStages
    by_cases hts : t = s
    · subst hts; simp
    · have hne : (some s = some t) = False := by simp; exact fun h => hts h.symm
      simp only [hne, if_false]
      have hmem : s ∈ rest := by
        rcases List.mem_cons.mp hs with h | h
        · exact absurd h.symm hts
        · exact h
      have htouch : touchesDir t = false := hpre t (by simp [List.takeWhile, hts])
      rw [applyStage_id clean out t d htouch]
      apply ih d hmem
      intro u hu
      apply hpre u
      simp only [List.takeWhile, ne_eq, hts, not_false_eq_true, decide_true]
      exact List.mem_cons_of_mem _ hu

/-- **C20, first clause**: a failure at any stage before the directory is read exits non-zero and leaves the
    target exactly as it was — whatever it contained, whether or not it existed, with or without `--clean`. -/
theorem prewrite_failure_untouched (clean : Bool) (s : Stage) (out : List Entry) (d : Dir)
    (hs : s ∈ [Stage.flags, .config, .specRead, .yamlParse, .specValidate, .irBuild, .routeBuild]) :
    run clean (some s) out d = (1, d) := by
  unfold run
  apply runStages_prefix
  · revert hs; simp only [stageOrder, List.mem_cons]; intro h; rcases h with h | h | h | h | h | h | h | h
    all_goals (first | (subst h; simp) | cases h)
  · revert hs; simp only [List.mem_cons]; intro h
    rcases h with h | h | h | h | h | h | h | h
    all_goals (first | (subst h; decide) | cases h)

/-- **C20, second clause**: cleaning removes only the generator's own files … -/
theorem clean_only_own (es : List Entry) (e : Entry) (he : e ∈ es) (hgone : e ∉ cleanDir es) :
    isOwn e = true ∧ e.isDir = false := by
  have : isOwn e = true := by
    by_cases h : isOwn e = true
    · exact h
    · exact absurd (List.mem_filter.mpr ⟨he, by simpa using h⟩) hgone
  refine ⟨this, ?_⟩
  unfold isOwn at this
  simp only [Bool.and_eq_true, Bool.not_eq_true'] at this
  exact this.1.1

/-- … and never a user file or a subdirectory, which also survive the subsequent write unless a generated file
    has the same name -/
theorem others_survive (out es : List Entry) (e : Entry) (he : e ∈ es) (hnot : isOwn e = false)
    (hname : ∀ o ∈ out, o.name ≠ e.name) : e ∈ writeFiles out (cleanDir es) := by
  unfold writeFiles
  apply List.mem_append_left
  apply List.mem_filter.mpr
  refine ⟨List.mem_filter.mpr ⟨he, by simp [hnot]⟩, ?_⟩
  simp only [Bool.not_eq_true', List.any_eq_false, beq_iff_eq]
  intro o ho
  simpa using hname o ho

#eval (isOwn ⟨"oas_user_gen.go", false, 0⟩, isOwn ⟨"OAS_upper_gen.go", false, 0⟩,
  isOwn ⟨"oas_dir_gen.go", true, 0⟩, isOwn ⟨"openapi_gen.go.bak", false, 0⟩)   -- (true, false, false, false)

#print axioms prewrite_failure_untouched
#print axioms others_survive
/-! line protocol: `cli <clean 0|1> <failing stage | none> <out names a,b,…> <entries name:d|f:content,… | absent | empty>`
    ↦ exit code and the directory afterwards (written files get content 99) -/
def parseStage (s : String) : Option Stage :=
  match s with
  | "flags" => some .flags | "config" => some .config | "specRead" => some .specRead | "yamlParse" => some .yamlParse
  | "specValidate" => some .specValidate | "irBuild" => some .irBuild | "routeBuild" => some .routeBuild
  | "readDir" => some .readDir | "clean" => some .clean | "mkdir" => some .mkdir | "write" => some .write
  | _ => none
def parseEntries (s : String) : Dir :=
  if s == "absent" then none else if s == "empty" then some [] else
  some ((s.splitOn ",").filterMap fun e => match e.splitOn ":" with
    | [n, k, c] => some ⟨n, k == "d", c.toNat!⟩ | _ => none)
def showDir : Dir → String
  | none => "absent"
  | some [] => "empty"
  | some es =>
    let items := es.map fun e => e.name ++ ":" ++ (if e.isDir then "d" else "f") ++ ":" ++ toString e.content
    ",".intercalate (items.mergeSort (fun a b => a ≤ b))
def cliLine (line : String) : String :=
  match (line.splitOn " ").filter (· ≠ "") with
  | [cl, st, outs, ents] =>
    let out : List Entry := if outs == "-" then [] else (outs.splitOn ",").map fun n => ⟨n, false, 99⟩
    let (rc, d) := run (cl == "1") (parseStage st) out (parseEntries ents)
    toString rc ++ " " ++ showDir d
  | _ => "bad"
end Cli
