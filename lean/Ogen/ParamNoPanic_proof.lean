import Ogen.ParamNeverWrong_proof
/-! C06 `no_panic`: for every combination the parser's style table admits (spaceDelimited is refused earlier as not
    implemented) and every value of the configured shape, neither codec panics — apart from the one class P1/D13
    (path parameter, object with no fields) that the planned `fix:` turns into an encoder error. -/
namespace Codec

theorem pathDec_no_panic (c : Cfg) (w : Bytes) : pathDec c w ≠ .panic := by
  unfold pathDec
  split
  · simp
  · split
    · simp
    · simp only
      split <;> simp

theorem pathEnc_no_panic {c : Cfg} {v : Val} (h : pathEnc c v = .error .panic) : False := by
  unfold pathEnc at h
  simp only at h
  rcases ite_err_err h with h | h
  · cases h
  · cases v with
    | prim s => simp only at h; cases h
    | arr items =>
      simp only at h
      rcases ite_err_err h with h | h
      · cases h
      · cases h
    | obj fields =>
      simp only at h
      split at h
      · cases h
      · rcases ite_err_err h with h | h
        · cases h
        · cases h

theorem flatDec_no_panic (c : Cfg) (kv : UInt8) (w : Option Bytes) : flatDec c kv w ≠ .panic := by
  unfold flatDec
  split
  · simp
  · split
    · simp
    · simp
    · split <;> simp

theorem ite_ee {α : Type} {p : Prop} [Decidable p] {e e' : Out} {y : Except Out α}
    (h : (if p then Except.error e else y) = Except.error e') : e = e' ∨ (¬p ∧ y = Except.error e') := by
  split at h
  · cases h; exact Or.inl rfl
  · exact Or.inr ⟨‹_›, h⟩

theorem ite_oe {α : Type} {p : Prop} [Decidable p] {x : α} {e' : Out} {y : Except Out α}
    (h : (if p then Except.ok x else y) = Except.error e') : ¬p ∧ y = Except.error e' := by
  split at h
  · cases h
  · exact ⟨‹_›, h⟩

theorem headerEnc_no_panic (c : Cfg) (v : Val) : headerEnc c v ≠ .error .panic := by
  intro h
  unfold headerEnc at h
  cases v with
  | prim s => cases h
  | arr items =>
    simp only at h
    rcases ite_ee h with h | ⟨_, h⟩ <;> cases h
  | obj fields =>
    simp only at h
    obtain ⟨_, h⟩ := ite_oe h
    rcases ite_ee h with h | ⟨_, h⟩ <;> cases h

/-- a cookie encoder panic needs `explode` with an array or a non-empty object -/
theorem cookieEnc_panic {c : Cfg} {v : Val} (h : cookieEnc c v = .error .panic) :
    c.explode = true ∧ ∀ s, v ≠ .prim s := by
  unfold cookieEnc at h
  cases v with
  | prim s => cases h
  | arr items =>
    simp only at h
    rcases ite_ee h with _ | ⟨hne, h⟩
    · refine ⟨?_, fun s => by simp⟩
      by_cases hx : c.explode = true
      · exact hx
      · simp [hx] at h
        rcases ite_ee h with h | ⟨_, h⟩ <;> cases h
    · rcases ite_ee h with h | ⟨_, h⟩ <;> cases h
  | obj fields =>
    simp only at h
    obtain ⟨_, h⟩ := ite_oe h
    rcases ite_ee h with _ | ⟨hne, h⟩
    · refine ⟨?_, fun s => by simp⟩
      by_cases hx : c.explode = true
      · exact hx
      · simp [hx] at h
        rcases ite_ee h with h | ⟨_, h⟩ <;> cases h
    · rcases ite_ee h with h | ⟨_, h⟩ <;> cases h

theorem transport_get_ne (w : Values) (k : Bytes) : (Values.transport w).get? k ≠ some [] := by
  intro h
  unfold Values.get? Values.transport at h
  cases hf : List.find? (fun x => x.fst == k) (List.filter (fun kv => !kv.snd.isEmpty) w) with
  | none => simp [hf] at h
  | some x =>
    simp [hf] at h
    have hm := List.mem_of_find?_eq_some hf
    have := (List.mem_filter.mp hm).2
    simp [h] at this

theorem queryDec_panic {c : Cfg} {names : List Bytes} {vs : Values} (h : queryDec c names vs = .panic) :
    vs.get? c.name = some [] := by
  unfold queryDec at h
  simp only at h
  repeat' (first | contradiction | assumption | split at h)

theorem c06_no_panic (c : Cfg) (v : Val) (hadm : admitted c = true) (hfit : Fits c v) :
    roundTrip c v ≠ .panic := by
  have hshape := fits_shape c v hfit
  unfold roundTrip
  cases hloc : c.loc with
  | path =>
    simp only
    cases henc : pathEnc c v with
    | ok w => exact pathDec_no_panic c w
    | error e =>
      simp only
      intro he
      subst he
      exact pathEnc_no_panic henc
  | header =>
    simp only
    cases henc : headerEnc c v with
    | ok w => exact flatDec_no_panic c _ w
    | error e =>
      simp only
      intro he; subst he
      exact headerEnc_no_panic c v henc
  | cookie =>
    simp only
    cases henc : cookieEnc c v with
    | ok w =>
      cases w with
      | none => simp
      | some w =>
        simp only
        split
        · exact flatDec_no_panic c _ _
        · simp
    | error e =>
      simp only
      intro he; subst he
      obtain ⟨hex, hnp⟩ := cookieEnc_panic henc
      -- cookie with explode is admitted for primitives only
      cases v with
      | prim s => exact hnp s rfl
      | arr items =>
        simp only at hshape
        cases hst : c.style <;> simp [admitted, hloc, hst, hex, hshape] at hadm
      | obj fields =>
        simp only at hshape
        cases hst : c.style <;> simp [admitted, hloc, hst, hex, hshape] at hadm
  | query =>
    simp only
    cases henc : queryEnc c v with
    | ok w =>
      simp only
      intro hp
      exact transport_get_ne w c.name (queryDec_panic hp)
    | error e =>
      simp only
      intro he; subst he
      cases v with
      | prim s =>
        simp only at hshape
        cases hst : c.style <;> cases hex : c.explode <;> simp [admitted, hloc, hst, hex, hshape] at hadm <;>
          simp [queryEnc, hst, hex] at henc
      | arr items =>
        simp only at hshape
        cases hst : c.style <;> cases hex : c.explode <;> simp [admitted, hloc, hst, hex, hshape] at hadm <;>
          simp [queryEnc, hst, hex] at henc <;>
          repeat' (first | contradiction | (cases henc; done) | split at henc)
      | obj fields =>
        simp only at hshape
        cases hst : c.style <;> cases hex : c.explode <;> simp [admitted, hloc, hst, hex, hshape] at hadm <;>
          simp [queryEnc, hst, hex] at henc <;>
          repeat' (first | contradiction | (cases henc; done) | split at henc)

#print axioms c06_no_panic
end Codec
