import Ogen.RouterLookupLib
namespace Tree
/-- the tree `gen.Router` builds for the single route `GET /a/{x}.json` (checked against the real dump) -/
def treeK5 : Node :=
  .mk [] 0 none
    [.mk [0x2f, 0x61, 0x2f] 0x2f none
      [.mk [] 0x7b (some [0x78])
        [.mk [0x2e, 0x6a, 0x73, 0x6f, 0x6e] 0x2e none [] [⟨"GET", "/a/{x}.json"⟩]] []] []] []

/-- K5: `/a/b/c.json` is dispatched to `/a/{x}.json` with the argument `b/c` — an unescaped slash inside -/
theorem k5_witness :
    (edge 20 treeK5 [0x2f, 0x61, 0x2f, 0x62, 0x2f, 0x63, 0x2e, 0x6a, 0x73, 0x6f, 0x6e]).map (·.2) =
      some [[0x62, 0x2f, 0x63]] := by decide +kernel

/-- the tree for `GET /{x}` and `GET /{x}b/c` share the parameter node, which then has a static child -/
def treeK7a : Node :=
  .mk [] 0 none [.mk [0x2f] 0x2f none [.mk [] 0x7b (some [0x78]) [] [⟨"GET", "/{x}"⟩]] []] []
def treeK7b : Node :=
  .mk [] 0 none
    [.mk [0x2f] 0x2f none
      [.mk [] 0x7b (some [0x78]) [.mk [0x62, 0x2f, 0x63] 0x62 none [] [⟨"GET", "/{x}b/c"⟩]] [⟨"GET", "/{x}"⟩]] []] []

/-- K7: the empty argument is accepted for `/{x}` alone … -/
theorem k7_witness_a : (edge 20 treeK7a [0x2f]).map (·.2) = some [[]] := by decide +kernel
/-- … and also when the parameter node has routes of its own; the 404 arises one level up, when the node that
    *holds* the parameter child also has static children and no routes (see DESIGN §5 C05) -/
theorem k7_witness_b : (edge 20 treeK7b [0x2f]).map (·.2) = some [[]] := by decide +kernel

def treeK7c : Node :=   -- routes /{x} and /a : the "/" node has a static child "a" and the parameter child
  .mk [] 0 none
    [.mk [0x2f] 0x2f none
      [.mk [0x61] 0x61 none [] [⟨"GET", "/a"⟩], .mk [] 0x7b (some [0x78]) [] [⟨"GET", "/{x}"⟩]] []] []
theorem k7_witness_c : edge 20 treeK7c [0x2f] = none := by decide +kernel
end Tree
