import Ogen.AuthHeader_proof
import Ogen.GenOrderDriver
/-! line-protocol printer of the `findAuthorization` model: `authz <prefix> <hex>,<hex>,…` -/
namespace AuthHDrv
open AuthH

/-- bytes → the model's symbols: the two non-ASCII code points that fold into ASCII letters are decoded, every
    other byte stands for itself (it cannot fold into a letter of the prefix) -/
def decode : List UInt8 → Str
  | 0xC5 :: 0xBF :: rest => 0x17F :: decode rest
  | 0xE2 :: 0x84 :: 0xAA :: rest => 0x212A :: decode rest
  | b :: rest => b.toNat :: decode rest
  | [] => []

def encode : Str → List UInt8
  | [] => []
  | c :: rest => (if c = 0x17F then [0xC5, 0xBF] else if c = 0x212A then [0xE2, 0x84, 0xAA] else [c.toUInt8]) ++ encode rest

def authzLine (p : String) : String :=
  match p.splitOn " " with
  | [pre, vals] =>
    let vs := (GenOrderDrv.keysOf "," vals).map decode
    match find (pre.toList.map Char.toNat) vs with
    | some tok => "some:" ++ GenOrderDrv.showKey (encode tok)
    | none => "none"
  | _ => "bad"

end AuthHDrv
