import Ogen.UriCodecLib
/-! Proof calibration for C06: strings.Split ∘ strings.Join on delimiter-free items. -/
namespace Codec

theorem splitAux_append_free (sep : UInt8) (x : Bytes) (hx : contains x sep = false) (rest cur : Bytes) :
    splitAux sep (x ++ sep :: rest) cur = (cur.reverse ++ x) :: splitAux sep rest [] := by
  induction x generalizing cur with
  | nil => simp [splitAux]
  | cons c cs ih =>
    have hc : (c == sep) = false := by
      simp [contains] at hx; simpa using hx.1
    have hcs : contains cs sep = false := by
      simp [contains] at hx ⊢; exact hx.2
    show splitAux sep (c :: (cs ++ sep :: rest)) cur = _
    rw [splitAux]
    simp only [hc, Bool.false_eq_true, if_false]
    rw [ih hcs]
    simp

theorem splitAux_free (sep : UInt8) (x : Bytes) (hx : contains x sep = false) (cur : Bytes) :
    splitAux sep x cur = [cur.reverse ++ x] := by
  induction x generalizing cur with
  | nil => simp [splitAux]
  | cons c cs ih =>
    have hc : (c == sep) = false := by
      simp [contains] at hx; simpa using hx.1
    have hcs : contains cs sep = false := by
      simp [contains] at hx ⊢; exact hx.2
    rw [splitAux]
    simp only [hc, Bool.false_eq_true, if_false]
    rw [ih hcs]
    simp

/-- header / cookie / non-exploded query arrays: what was joined is what is split, for every non-empty list
    of delimiter-free items (items may be empty strings) -/
theorem split_join (sep : UInt8) (items : List Bytes) (hne : items ≠ [])
    (hfree : ∀ it ∈ items, contains it sep = false) : split sep (join sep items) = items := by
  induction items with
  | nil => exact absurd rfl hne
  | cons x xs ih =>
    cases xs with
    | nil =>
      simp only [join, split]
      rw [splitAux_free sep x (hfree x (List.mem_cons_self ..))]
      simp
    | cons y ys =>
      simp only [join, split]
      rw [splitAux_append_free sep x (hfree x (List.mem_cons_self ..))]
      have := ih (by simp) (fun it hit => hfree it (List.mem_cons_of_mem _ hit))
      simp only [split] at this
      rw [this]
      simp

/-- the W3/W4/W2 witness: the empty list does not survive -/
theorem split_join_nil (sep : UInt8) : split sep (join sep []) = [[]] := by
  simp [join, split, splitAux]

#print axioms split_join
end Codec
