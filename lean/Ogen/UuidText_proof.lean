/-!
# UUID text form (C13, C04): `json.hexEncode` (ogen's own encoder, json/uuid.go) and the 36-byte branch of
`uuid.ParseBytes` — model and round trip

`hexEncode` writes the 16 octets as lower-case hex digit pairs at fixed positions of a 36-byte buffer, with `-`
at 8, 13, 18, 23.  `parse36` is what `github.com/google/uuid.ParseBytes` does for an input of length 36: the four
hyphens are checked, then the digit pairs at 0 2 4 6 9 11 14 16 19 21 24 26 28 30 32 34 are read through a table
that accepts both cases.
-/
namespace UuidT

def hexdig (n : UInt8) : UInt8 := if n < 10 then 48 + n else 87 + n

/-- `hextable[b>>4], hextable[b&0x0f]` -/
def hx (b : UInt8) : List UInt8 := [hexdig (b >>> 4), hexdig (b &&& 0x0f)]

/-- value of a hex digit of either case (`xvalues`), 255 = not a digit -/
def xval (c : UInt8) : UInt8 :=
  if 48 ≤ c ∧ c ≤ 57 then c - 48 else if 97 ≤ c ∧ c ≤ 102 then c - 87 else if 65 ≤ c ∧ c ≤ 70 then c - 55 else 255

/-- `xtob` -/
def xtob (a b : UInt8) : Option UInt8 :=
  if xval a = 255 ∨ xval b = 255 then none else some ((xval a <<< 4) ||| xval b)

def hxs (bs : List UInt8) : List UInt8 := bs.flatMap hx

/-- the five groups of 4, 2, 2, 2 and 6 octets, hyphens between them -/
def hexEncode (v : List UInt8) : List UInt8 :=
  hxs (v.take 4) ++ 45 :: (hxs ((v.drop 4).take 2) ++ 45 :: (hxs ((v.drop 6).take 2) ++ 45 ::
    (hxs ((v.drop 8).take 2) ++ 45 :: hxs (v.drop 10))))

/-- read `n` digit pairs -/
def readPairs : Nat → List UInt8 → Option (List UInt8 × List UInt8)
  | 0, s => some ([], s)
  | n + 1, a :: b :: rest =>
    match xtob a b with
    | some v =>
      match readPairs n rest with
      | some (vs, r) => some (v :: vs, r)
      | none => none
    | none => none
  | _ + 1, _ => none

def dash : List UInt8 → Option (List UInt8)
  | 45 :: r => some r
  | _ => none

/-- the length-36 branch of `uuid.ParseBytes`: 4, 2, 2, 2, 6 digit pairs with a hyphen between the groups and
    nothing after them (the same language as "length 36, hyphens at 8 13 18 23, digit pairs elsewhere") -/
def parse36 (s : List UInt8) : Option (List UInt8) :=
  match readPairs 4 s with
  | some (p1, s) => match dash s with
    | some s => match readPairs 2 s with
      | some (p2, s) => match dash s with
        | some s => match readPairs 2 s with
          | some (p3, s) => match dash s with
            | some s => match readPairs 2 s with
              | some (p4, s) => match dash s with
                | some s => match readPairs 6 s with
                  | some (p5, []) => some (p1 ++ (p2 ++ (p3 ++ (p4 ++ p5))))
                  | _ => none
                | none => none
              | none => none
            | none => none
          | none => none
        | none => none
      | none => none
    | none => none
  | none => none

theorem xtob_hx_fin : ∀ b : Fin 256,
    xtob (hexdig ((UInt8.ofNat b.val) >>> 4)) (hexdig ((UInt8.ofNat b.val) &&& 0x0f)) = some (UInt8.ofNat b.val) := by
  decide +kernel

theorem xtob_hx (b : UInt8) : xtob (hexdig (b >>> 4)) (hexdig (b &&& 0x0f)) = some b := by
  have := xtob_hx_fin ⟨b.toNat, b.toNat_lt⟩
  simpa using this

/-- both digits are lower-case hex digits -/
theorem hx_lower_fin : ∀ b : Fin 256, ∀ c ∈ hx (UInt8.ofNat b.val), (48 ≤ c ∧ c ≤ 57) ∨ (97 ≤ c ∧ c ≤ 102) := by
  decide +kernel

theorem hx_lower (b : UInt8) : ∀ c ∈ hx b, (48 ≤ c ∧ c ≤ 57) ∨ (97 ≤ c ∧ c ≤ 102) := by
  have := hx_lower_fin ⟨b.toNat, b.toNat_lt⟩
  simpa using this

theorem readPairs_hxs (bs rest : List UInt8) : readPairs bs.length (hxs bs ++ rest) = some (bs, rest) := by
  induction bs with
  | nil => simp [readPairs, hxs]
  | cons b bs ih =>
    have : hxs (b :: bs) ++ rest = hexdig (b >>> 4) :: hexdig (b &&& 0x0f) :: (hxs bs ++ rest) := by
      simp [hxs, hx]
    rw [this, List.length_cons, readPairs, xtob_hx]
    simp only [ih]

theorem hxs_length (bs : List UInt8) : (hxs bs).length = 2 * bs.length := by
  induction bs with
  | nil => rfl
  | cons b bs ih => simp [hxs, hx] at ih ⊢; omega

/-- **round trip**: every 16-octet value is read back from its text -/
theorem parse_hexEncode (v : List UInt8) (h : v.length = 16) : parse36 (hexEncode v) = some v := by
  have l1 : (v.take 4).length = 4 := by simp [h]
  have l2 : ((v.drop 4).take 2).length = 2 := by simp [h]
  have l3 : ((v.drop 6).take 2).length = 2 := by simp [h]
  have l4 : ((v.drop 8).take 2).length = 2 := by simp [h]
  have l5 : (v.drop 10).length = 6 := by simp [h]
  have r1 := readPairs_hxs (v.take 4)
  have r2 := readPairs_hxs ((v.drop 4).take 2)
  have r3 := readPairs_hxs ((v.drop 6).take 2)
  have r4 := readPairs_hxs ((v.drop 8).take 2)
  have r5 := readPairs_hxs (v.drop 10) []
  rw [l1] at r1; rw [l2] at r2; rw [l3] at r3; rw [l4] at r4; rw [l5] at r5
  simp only [List.append_nil] at r5
  unfold parse36 hexEncode
  simp only [r1, dash, r2, r3, r4, r5]
  have e1 : (v.drop 4).take 2 ++ ((v.drop 6).take 2 ++ ((v.drop 8).take 2 ++ v.drop 10)) = v.drop 4 := by
    have a : (v.drop 8).take 2 ++ v.drop 10 = v.drop 8 := by
      have := List.take_append_drop 2 (v.drop 8); simpa [List.drop_drop] using this
    have b : (v.drop 6).take 2 ++ v.drop 8 = v.drop 6 := by
      have := List.take_append_drop 2 (v.drop 6); simpa [List.drop_drop] using this
    have c : (v.drop 4).take 2 ++ v.drop 6 = v.drop 4 := by
      have := List.take_append_drop 2 (v.drop 4); simpa [List.drop_drop] using this
    rw [a, b, c]
  rw [e1, List.take_append_drop]

/-- **syntax**: 36 bytes -/
theorem hexEncode_length (v : List UInt8) (h : v.length = 16) : (hexEncode v).length = 36 := by
  simp [hexEncode, hxs_length, h]

/-- every byte of the text is a lower-case hex digit or a hyphen -/
theorem hexEncode_alphabet (v : List UInt8) :
    ∀ c ∈ hexEncode v, (48 ≤ c ∧ c ≤ 57) ∨ (97 ≤ c ∧ c ≤ 102) ∨ c = 45 := by
  have hh : ∀ bs : List UInt8, ∀ c ∈ hxs bs, (48 ≤ c ∧ c ≤ 57) ∨ (97 ≤ c ∧ c ≤ 102) := by
    intro bs c hc
    simp only [hxs, List.mem_flatMap] at hc
    obtain ⟨b, _, hcb⟩ := hc
    exact hx_lower b c hcb
  intro c hc
  simp only [hexEncode, List.mem_append, List.mem_cons] at hc
  rcases hc with h | h | h | h | h | h | h | h | h
  all_goals first
    | exact Or.inr (Or.inr h)
    | (rcases hh _ c h with x | x
       · exact Or.inl x
       · exact Or.inr (Or.inl x))

/-- the text determines the value: two UUIDs with the same text are equal -/
theorem hexEncode_injective (v w : List UInt8) (hv : v.length = 16) (hw : w.length = 16)
    (h : hexEncode v = hexEncode w) : v = w := by
  have := parse_hexEncode v hv
  rw [h, parse_hexEncode w hw] at this
  exact (Option.some.inj this).symm

/-! line-protocol printers -/
def hexValC (c : Char) : UInt8 := if c.isDigit then (c.toNat - 48).toUInt8 else (c.toNat - 87).toUInt8
def unhexS : List Char → List UInt8
  | a :: b :: rest => (hexValC a * 16 + hexValC b) :: unhexS rest
  | _ => []
def hexDigitC (n : UInt8) : Char := if n < 10 then Char.ofNat (48 + n.toNat) else Char.ofNat (87 + n.toNat)
def toHexS (bs : List UInt8) : String := String.ofList (bs.flatMap fun b => [hexDigitC (b / 16), hexDigitC (b % 16)])

/-- `uuidfmt <32 hex digits>` → the text, as hex -/
def fmtLine (p : String) : String := toHexS (hexEncode (unhexS p.toList))
/-- `uuidparse <hex of a 36-byte text>` → `ok:<32 hex digits>` or `err` -/
def parseLine (p : String) : String :=
  match parse36 (unhexS p.toList) with
  | some v => "ok:" ++ toHexS v
  | none => "err"

end UuidT
