/-! Proof probe for C08, semantic layer: a converted expression accepts exactly the strings the ECMA-262
    expression accepts — for every expression of the fragment and EVERY subject string. -/
namespace ReSem

inductive Core where
  | chr (p : Char → Bool)
  | eps | bol | eol
  | wordb (neg : Bool)
  | cat (a b : Core)
  | alt (a b : Core)
  | star (a : Core)

def isWord (c : Char) : Bool := c.isAlphanum || c == '_'

def closure (step : Nat → List Nat) : Nat → List Nat → List Nat
  | 0, acc => acc
  | k + 1, acc => closure step k (acc ++ acc.flatMap step)

/-- end positions of matches of `r` in `s` starting at `i` -/
def ends (s : List Char) : Core → Nat → List Nat
  | .chr p, i => match s[i]? with | some c => if p c then [i + 1] else [] | none => []
  | .eps, i => [i]
  | .bol, i => if i = 0 then [i] else []
  | .eol, i => if i = s.length then [i] else []
  | .wordb neg, i =>
    let a := match i with | 0 => false | k + 1 => (match s[k]? with | some c => isWord c | none => false)
    let b := match s[i]? with | some c => isWord c | none => false
    if ((a != b) != neg) then [i] else []
  | .cat a b, i => (ends s a i).flatMap (ends s b)
  | .alt a b, i => ends s a i ++ ends s b i
  | .star a, i => closure (ends s a) (s.length + 1) [i]

/-- MatchString: the pattern matches somewhere -/
def accepts (r : Core) (s : List Char) : Bool :=
  (List.range (s.length + 1)).any (fun i => !(ends s r i).isEmpty)

/-- same shape, extensionally equal character predicates -/
inductive CoreEq : Core → Core → Prop
  | chr {p q} : (∀ c, p c = q c) → CoreEq (.chr p) (.chr q)
  | eps : CoreEq .eps .eps
  | bol : CoreEq .bol .bol
  | eol : CoreEq .eol .eol
  | wordb {n} : CoreEq (.wordb n) (.wordb n)
  | cat {a a' b b'} : CoreEq a a' → CoreEq b b' → CoreEq (.cat a b) (.cat a' b')
  | alt {a a' b b'} : CoreEq a a' → CoreEq b b' → CoreEq (.alt a b) (.alt a' b')
  | star {a a'} : CoreEq a a' → CoreEq (.star a) (.star a')

theorem closure_congr {f g : Nat → List Nat} (h : ∀ i, f i = g i) (k : Nat) (acc : List Nat) :
    closure f k acc = closure g k acc := by
  induction k generalizing acc with
  | zero => rfl
  | succ k ih =>
    simp only [closure]
    have : acc.flatMap f = acc.flatMap g := by
      congr 1; funext i; exact h i
    rw [this, ih]

/-- the semantics only looks at what the character predicates answer -/
theorem ends_congr {a b : Core} (h : CoreEq a b) (s : List Char) : ∀ i, ends s a i = ends s b i := by
  induction h with
  | chr hpq =>
    intro i
    simp only [ends]
    cases s[i]? with
    | none => rfl
    | some c => simp [hpq c]
  | eps => intro i; rfl
  | bol => intro i; rfl
  | eol => intro i; rfl
  | wordb => intro i; rfl
  | cat _ _ iha ihb =>
    intro i
    simp only [ends, iha i]
    congr 1; funext j; exact ihb j
  | alt _ _ iha ihb => intro i; simp only [ends, iha i, ihb i]
  | star _ iha => intro i; simp only [ends]; exact closure_congr iha _ _

theorem accepts_congr {a b : Core} (h : CoreEq a b) (s : List Char) : accepts a s = accepts b s := by
  unfold accepts
  congr 1; funext i; rw [ends_congr h s i]

/-! ### ECMA-262 side (spec) -/
/-- LineTerminator :: <LF> <CR> <LS> <PS> -/
def lineTerminator (c : Char) : Bool := c.toNat == 0x0a || c.toNat == 0x0d || c.toNat == 0x2028 || c.toNat == 0x2029
/-- WhiteSpace :: <TAB> <VT> <FF> <ZWNBSP> <USP>, USP = general category Zs (Unicode 15: 0020, 00A0, 1680,
    2000–200A, 202F, 205F, 3000) -/
def whiteSpace (c : Char) : Bool :=
  c.toNat == 0x09 || c.toNat == 0x0b || c.toNat == 0x0c || c.toNat == 0xfeff || c.toNat == 0x20 || c.toNat == 0xa0 ||
  c.toNat == 0x1680 || (0x2000 ≤ c.toNat && c.toNat ≤ 0x200a) || c.toNat == 0x202f || c.toNat == 0x205f || c.toNat == 0x3000

inductive E where
  | lit (c : Char)
  | dot
  | space (neg : Bool)      -- \s, \S
  | digit (neg : Bool)      -- \d, \D
  | word (neg : Bool)       -- \w, \W
  | anyChar                 -- [^]
  | noChar                  -- []
  | ctrl (letter : Char)    -- \cX
  | bol | eol
  | wordb (neg : Bool)
  | cat (a b : E)
  | alt (a b : E)
  | star (a : E)
  | plus (a : E)
  | opt (a : E)

def ecmaDenote : E → Core
  | .lit c => .chr (· == c)
  | .dot => .chr (fun c => !lineTerminator c)
  | .space neg => .chr (fun c => (whiteSpace c || lineTerminator c) != neg)
  | .digit neg => .chr (fun c => c.isDigit != neg)
  | .word neg => .chr (fun c => isWord c != neg)
  | .anyChar => .chr (fun _ => true)
  | .noChar => .chr (fun _ => false)
  | .ctrl l => .chr (· == Char.ofNat (l.toNat % 32))
  | .bol => .bol
  | .eol => .eol
  | .wordb n => .wordb n
  | .cat a b => .cat (ecmaDenote a) (ecmaDenote b)
  | .alt a b => .alt (ecmaDenote a) (ecmaDenote b)
  | .star a => .star (ecmaDenote a)
  | .plus a => .cat (ecmaDenote a) (.star (ecmaDenote a))
  | .opt a => .alt (ecmaDenote a) .eps

/-! ### RE2 side: what the converter emits -/
inductive R where
  | lit (c : Char)
  | cls (neg : Bool) (items : List Char)         -- [abc] / [^abc]
  | rng (neg : Bool) (lo hi : Char)              -- [lo-hi] / [^lo-hi]
  | digit (neg : Bool)
  | word (neg : Bool)
  | bol | eol
  | wordb (neg : Bool)
  | cat (a b : R)
  | alt (a b : R)
  | star (a : R)
  | plus (a : R)
  | opt (a : R)

def re2Denote : R → Core
  | .lit c => .chr (· == c)
  | .cls neg items => .chr (fun c => items.contains c != neg)
  | .rng neg lo hi => .chr (fun c => (lo.toNat ≤ c.toNat && c.toNat ≤ hi.toNat) != neg)
  | .digit neg => .chr (fun c => c.isDigit != neg)
  | .word neg => .chr (fun c => isWord c != neg)
  | .bol => .bol
  | .eol => .eol
  | .wordb n => .wordb n
  | .cat a b => .cat (re2Denote a) (re2Denote b)
  | .alt a b => .alt (re2Denote a) (re2Denote b)
  | .star a => .star (re2Denote a)
  | .plus a => .cat (re2Denote a) (.star (re2Denote a))
  | .opt a => .alt (re2Denote a) .eps

/-! ### the constants of convert.go (these come from the regenerated Facts in the real development) -/
def whitespaceChars : List Char :=
  [0x20, 0x0c, 0x0a, 0x0d, 0x09, 0x0b, 0xa0, 0x1680, 0x2000, 0x2001, 0x2002, 0x2003, 0x2004, 0x2005, 0x2006,
   0x2007, 0x2008, 0x2009, 0x200a, 0x2028, 0x2029, 0x202f, 0x205f, 0x3000, 0xfeff].map Char.ofNat
def dotExcluded : List Char := [0x0d, 0x0a, 0x2028, 0x2029].map Char.ofNat
/-- upper end of the `[^]` replacement range: `\U0010FFFF` after the D3 repair (`\U0001FFFF` before) -/
def anyHi : Char := Char.ofNat 0x10FFFF

def convAst : E → R
  | .lit c => .lit c
  | .dot => .cls true dotExcluded
  | .space neg => .cls neg whitespaceChars
  | .digit neg => .digit neg
  | .word neg => .word neg
  | .anyChar => .rng false (Char.ofNat 0) anyHi
  | .noChar => .rng true (Char.ofNat 0) anyHi
  | .ctrl l => .lit (Char.ofNat (l.toNat % 32))
  | .bol => .bol
  | .eol => .eol
  | .wordb n => .wordb n
  | .cat a b => .cat (convAst a) (convAst b)
  | .alt a b => .alt (convAst a) (convAst b)
  | .star a => .star (convAst a)
  | .plus a => .plus (convAst a)
  | .opt a => .opt (convAst a)


/-! ### atom lemmas: over all code points, symbolically -/
theorem toNat_ofNat (n : Nat) (hn : n.isValidChar) : (Char.ofNat n).toNat = n := by
  rw [Char.ofNat, dif_pos hn]
  rfl

theorem eq_ofNat_iff (c : Char) (n : Nat) (hn : n.isValidChar) : (c == Char.ofNat n) = (c.toNat == n) := by
  by_cases h : c = Char.ofNat n
  · subst h; simp [toNat_ofNat n hn]
  · have : c.toNat ≠ n := by
      intro heq
      apply h
      rw [← heq, Char.ofNat_toNat]
    have h1 : (c == Char.ofNat n) = false := by simpa using h
    have h2 : (c.toNat == n) = false := by simpa using this
    rw [h1, h2]

theorem contains_map_ofNat (ns : List Nat) (hns : ∀ n ∈ ns, n.isValidChar) (c : Char) :
    (ns.map Char.ofNat).contains c = ns.contains c.toNat := by
  induction ns with
  | nil => rfl
  | cons n ns ih =>
    have h1 := eq_ofNat_iff c n (hns n (List.mem_cons_self ..))
    have h2 := ih (fun m hm => hns m (List.mem_cons_of_mem _ hm))
    simp only [List.map_cons, List.contains_cons, h1, h2]

/-- `\s`: the 25 characters the converter writes are exactly ECMA-262 WhiteSpace ∪ LineTerminator -/
theorem ws_atom (c : Char) : whitespaceChars.contains c = (whiteSpace c || lineTerminator c) := by
  unfold whitespaceChars
  rw [contains_map_ofNat _ (by decide)]
  unfold whiteSpace lineTerminator
  generalize c.toNat = n
  apply Bool.eq_iff_iff.mpr
  simp only [List.contains_eq_mem, List.mem_cons, List.not_mem_nil, or_false, decide_eq_true_eq, Bool.or_eq_true,
    beq_iff_eq, Bool.and_eq_true]
  constructor <;> intro h <;> omega

/-- `.`: everything but the four line terminators -/
theorem dot_atom (c : Char) : (dotExcluded.contains c != true) = !lineTerminator c := by
  unfold dotExcluded
  rw [contains_map_ofNat _ (by decide)]
  unfold lineTerminator
  generalize c.toNat = n
  have : ([13, 10, 8232, 8233] : List Nat).contains n = (n == 0x0a || n == 0x0d || n == 0x2028 || n == 0x2029) := by
    apply Bool.eq_iff_iff.mpr
    simp only [List.contains_eq_mem, List.mem_cons, List.not_mem_nil, or_false, decide_eq_true_eq, Bool.or_eq_true,
      beq_iff_eq]
    constructor <;> intro h <;> omega
  rw [this]; cases (n == 0x0a || n == 0x0d || n == 0x2028 || n == 0x2029) <;> rfl

/-- `[^]` / `[]`: the replacement range covers every code point (this is the lemma that is false with 0x1FFFF) -/
theorem any_atom (c : Char) : ((Char.ofNat 0).toNat ≤ c.toNat && c.toNat ≤ anyHi.toNat) = true := by
  have h0 : (Char.ofNat 0).toNat = 0 := toNat_ofNat 0 (by decide)
  have h1 : anyHi.toNat = 0x10FFFF := toNat_ofNat 0x10FFFF (by decide)
  rw [h0, h1]
  have := c.valid
  simp only [Bool.and_eq_true, decide_eq_true_eq, Nat.zero_le, true_and]
  unfold Char.toNat
  rcases this with h | ⟨_, h⟩
  · have : c.val.toNat < 0xd800 := h
    omega
  · have : c.val.toNat < 0x110000 := h
    omega

/-- **C08, semantic layer**: for every expression of the fragment the converted expression denotes the same
    matcher up to extensionally equal character tests … -/
theorem conv_coreEq (e : E) : CoreEq (re2Denote (convAst e)) (ecmaDenote e) := by
  induction e with
  | lit c => exact CoreEq.chr (fun _ => rfl)
  | dot => exact CoreEq.chr (fun c => dot_atom c)
  | space neg => exact CoreEq.chr (fun c => by simp only [ws_atom])
  | digit neg => exact CoreEq.chr (fun _ => rfl)
  | word neg => exact CoreEq.chr (fun _ => rfl)
  | anyChar => exact CoreEq.chr (fun c => by rw [any_atom c]; rfl)
  | noChar => exact CoreEq.chr (fun c => by rw [any_atom c]; rfl)
  | ctrl l => exact CoreEq.chr (fun _ => rfl)
  | bol => exact CoreEq.bol
  | eol => exact CoreEq.eol
  | wordb n => exact CoreEq.wordb
  | cat a b iha ihb => exact CoreEq.cat iha ihb
  | alt a b iha ihb => exact CoreEq.alt iha ihb
  | star a ih => exact CoreEq.star ih
  | plus a ih => exact CoreEq.cat ih (CoreEq.star ih)
  | opt a ih => exact CoreEq.alt ih CoreEq.eps

/-- … and therefore accepts exactly the same subject strings — every expression, every string. -/
theorem conv_preserves (e : E) (s : List Char) :
    accepts (re2Denote (convAst e)) s = accepts (ecmaDenote e) s :=
  accepts_congr (conv_coreEq e) s

/-- the D3 witness: with the upper bound the current code writes, U+20000 is outside the "any character" range -/
example : ((Char.ofNat 0).toNat ≤ (Char.ofNat 0x20000).toNat && (Char.ofNat 0x20000).toNat ≤ (Char.ofNat 0x1FFFF).toNat) = false := by
  decide

#print axioms conv_preserves
/-! line protocol: `rematch <expression in prefix tokens> | <subject code points, hex, comma separated or ->`
    tokens: l<hex> literal, `.`, s S d D w W, a = `[^]`, n = `[]`, c<hex letter> = `\cX`, ^ $ b B, C A (two arguments),
    * + ? (one argument) -/
def hexNat (s : String) : Nat :=
  s.foldl (fun v d => v * 16 + (if d.isDigit then d.toNat - 48 else if 'a' ≤ d ∧ d ≤ 'f' then d.toNat - 87 else d.toNat - 55)) 0

instance : Inhabited E := ⟨.dot⟩

partial def readE (toks : List String) : E × List String :=
  match toks with
  | [] => (.lit 'x', [])
  | t :: rest =>
    if t.startsWith "l" then (.lit (Char.ofNat (hexNat (t.drop 1).toString)), rest)
    else if t.startsWith "c" then (.ctrl (Char.ofNat (hexNat (t.drop 1).toString)), rest)
    else match t with
      | "." => (.dot, rest)
      | "s" => (.space false, rest) | "S" => (.space true, rest)
      | "d" => (.digit false, rest) | "D" => (.digit true, rest)
      | "w" => (.word false, rest) | "W" => (.word true, rest)
      | "a" => (.anyChar, rest) | "n" => (.noChar, rest)
      | "^" => (.bol, rest) | "$" => (.eol, rest)
      | "b" => (.wordb false, rest) | "B" => (.wordb true, rest)
      | "C" => let (x, r1) := readE rest; let (y, r2) := readE r1; (.cat x y, r2)
      | "A" => let (x, r1) := readE rest; let (y, r2) := readE r1; (.alt x y, r2)
      | "*" => let (x, r1) := readE rest; (.star x, r1)
      | "+" => let (x, r1) := readE rest; (.plus x, r1)
      | "?" => let (x, r1) := readE rest; (.opt x, r1)
      | _ => (.lit 'x', rest)

def rematchLine (line : String) : String :=
  match line.splitOn "|" with
  | [e, subj] =>
    let (ex, _) := readE ((e.splitOn " ").filter (· ≠ ""))
    let st := subj.trimAscii.toString
    let s : List Char := if st == "-" then [] else (st.splitOn ",").map fun h => Char.ofNat (hexNat h)
    -- the *converted* expression under RE2 semantics and the original under ECMA semantics agree by
    -- `conv_preserves`; the driver evaluates the ECMA side
    if accepts (ecmaDenote ex) s then "1" else "0"
  | _ => "bad"
end ReSem
