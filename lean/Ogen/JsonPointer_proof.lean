/-! Proof probe for C16: jsonpointer.find (with the D7 repair) is sound and complete w.r.t. RFC 6901 evaluation. -/
namespace Ptr
abbrev Bytes := List UInt8

inductive Node where
  | scalar (id : Nat)
  | map (members : List (Bytes × Node))
  | seq (items : List Node)
deriving Inhabited

/-! ### the implementation, as a model -/
def splitAux : Bytes → Bytes → List Bytes
  | [], cur => [cur.reverse]
  | c :: cs, cur => if c = 0x2f then cur.reverse :: splitAux cs [] else splitAux cs (c :: cur)
def split (s : Bytes) : List Bytes := splitAux s []

/-- D7: every '~' must be followed by '0' or '1' (then both are skipped) -/
def escapesOk : Bytes → Bool
  | [] => true
  | c :: rest =>
    if c = 0x7e then
      match rest with
      | d :: rest' => (d = 0x30 || d = 0x31) && escapesOk rest'
      | [] => false
    else escapesOk rest

/-- strings.NewReplacer("~1", "/", "~0", "~"): one left-to-right pass -/
def unescape : Bytes → Bytes
  | [] => []
  | c :: rest =>
    if c = 0x7e then
      match rest with
      | d :: rest' => if d = 0x31 then 0x2f :: unescape rest' else if d = 0x30 then 0x7e :: unescape rest' else c :: unescape (d :: rest')
      | [] => [c]
    else c :: unescape rest

def isDigit (c : UInt8) : Bool := 0x30 ≤ c && c ≤ 0x39
def digitsVal (ds : Bytes) : Nat := ds.foldl (fun a d => a * 10 + (d.toNat - 48)) 0

/-- strconv.ParseUint(part, 10, 64) behind the D7 leading-zero check -/
def parseIndex (part : Bytes) : Option Nat :=
  if part.isEmpty then none
  else if part.length > 1 && part.head? = some 0x30 then none
  else if !part.all isDigit then none
  else if digitsVal part < 2 ^ 64 then some (digitsVal part) else none

def findKey : List (Bytes × Node) → Bytes → Option Node
  | [], _ => none
  | (k, v) :: rest, key => if k = key then some v else findKey rest key

def step (n : Node) (rawPart : Bytes) : Option Node :=
  if !escapesOk rawPart then none else
  match n with
  | .map ms => findKey ms (unescape rawPart)
  | .seq items => (parseIndex (unescape rawPart)).bind (fun i => items[i]?)
  | .scalar _ => none

def walk : List Bytes → Node → Option Node
  | [], n => some n
  | t :: ts, n => (step n t).bind (walk ts)

def find (ptr : Bytes) (n : Node) : Option Node :=
  match ptr with
  | [] => some n
  | c :: rest => if c = 0x2f then walk (split rest) n else none

/-! ### RFC 6901, written independently -/
inductive TokOk : Bytes → Bytes → Prop   -- raw reference token ↦ decoded token
  | nil : TokOk [] []
  | slash {r d} : TokOk r d → TokOk (0x7e :: 0x31 :: r) (0x2f :: d)
  | tilde {r d} : TokOk r d → TokOk (0x7e :: 0x30 :: r) (0x7e :: d)
  | other {c r d} : c ≠ 0x7e → TokOk r d → TokOk (c :: r) (c :: d)

/-- array-index = %x30 / ( %x31-39 *(%x30-39) ) -/
def rfcIndex (tok : Bytes) : Option Nat :=
  match tok with
  | [] => none
  | d :: ds =>
    if d = 0x30 then (if ds.isEmpty then some 0 else none)
    else if 0x31 ≤ d && d ≤ 0x39 && ds.all isDigit then some (digitsVal (d :: ds)) else none

inductive Eval : List Bytes → Node → Node → Prop
  | done {n} : Eval [] n n
  | member {raw tok ms v rest r} : TokOk raw tok → findKey ms tok = some v → Eval rest v r →
      Eval (raw :: rest) (.map ms) r
  | index {raw tok items i v rest r} : TokOk raw tok → rfcIndex tok = some i → items[i]? = some v → Eval rest v r →
      Eval (raw :: rest) (.seq items) r

/-- RFC 6901 §3–4 for the plain form: "" is the whole document, otherwise "/" tok *( "/" tok ) -/
inductive Rfc : Bytes → Node → Node → Prop
  | whole {n} : Rfc [] n n
  | path {rest n r} : Eval (split rest) n r → Rfc (0x2f :: rest) n r

/-! ### token level -/
theorem tokOk_of_escapesOk (raw : Bytes) (h : escapesOk raw = true) : TokOk raw (unescape raw) := by
  fun_induction escapesOk raw with
  | case1 => unfold unescape; exact TokOk.nil
  | case2 d rest' ih =>
    simp only [Bool.and_eq_true, Bool.or_eq_true, decide_eq_true_eq] at h
    obtain ⟨hd, hr⟩ := h
    conv => rhs; unfold unescape
    simp only [if_true]
    rcases hd with rfl | rfl
    · simp only [show ((0x30 : UInt8) = 0x31) = False by decide, if_false, if_true]
      exact TokOk.tilde (ih hr)
    · simp only [if_true]
      exact TokOk.slash (ih hr)
  | case3 => simp at h
  | case4 c rest hc ih =>
    conv => rhs; unfold unescape
    simp only [hc, if_false]
    exact TokOk.other hc (ih h)

theorem escapesOk_of_tokOk {raw d : Bytes} (h : TokOk raw d) : escapesOk raw = true ∧ unescape raw = d := by
  induction h with
  | nil => exact ⟨rfl, by unfold unescape; rfl⟩
  | slash _ ih =>
    constructor
    · conv => lhs; unfold escapesOk
      simp [ih.1]
    · conv => lhs; unfold unescape
      simp [ih.2]
  | tilde _ ih =>
    constructor
    · conv => lhs; unfold escapesOk
      simp [ih.1]
    · conv => lhs; unfold unescape
      simp [ih.2]
  | other hc _ ih =>
    constructor
    · conv => lhs; unfold escapesOk
      simp [hc, ih.1]
    · conv => lhs; unfold unescape
      simp [hc, ih.2]

/-! ### index level: ParseUint behind the leading-zero check is the RFC array-index grammar (below 2^64) -/
theorem forall_byte {P : UInt8 → Prop} (h : ∀ n : Fin 256, P (UInt8.ofFin n)) : ∀ c : UInt8, P c := by
  intro c; simpa using h c.toFin

theorem nonzero_digit : ∀ d : UInt8, (0x31 ≤ d && d ≤ 0x39) = (isDigit d && !(d == 0x30)) := by
  apply forall_byte; decide +kernel

theorem parseIndex_eq_rfc (tok : Bytes) (h : ∀ i, rfcIndex tok = some i → i < 2 ^ 64) :
    parseIndex tok = rfcIndex tok := by
  cases tok with
  | nil => rfl
  | cons d ds =>
    by_cases hd0 : d = 0x30
    · subst hd0
      cases ds with
      | nil => simp [parseIndex, rfcIndex, digitsVal, isDigit]
      | cons e es => simp [parseIndex, rfcIndex]
    · have hd0' : (d == 0x30) = false := by simpa using hd0
      have hnz := nonzero_digit d
      rw [hd0'] at hnz
      simp only [Bool.not_false, Bool.and_true] at hnz
      cases hdig : isDigit d with
      | false =>
        simp [parseIndex, rfcIndex, hd0, hnz, hdig]
      | true =>
        cases hds : ds.all isDigit with
        | false => simp [parseIndex, rfcIndex, hd0, hnz, hdig, hds]
        | true =>
          have hlt : digitsVal (d :: ds) < 2 ^ 64 := h _ (by simp [rfcIndex, hd0, hnz, hdig, hds])
          simp [parseIndex, rfcIndex, hd0, hnz, hdig, hds, hlt]


theorem parseIndex_sub (tok : Bytes) (i : Nat) (h : parseIndex tok = some i) : rfcIndex tok = some i := by
  cases tok with
  | nil => simp [parseIndex] at h
  | cons d ds =>
    by_cases hd0 : d = 0x30
    · subst hd0
      cases ds with
      | nil => simpa [parseIndex, rfcIndex, digitsVal, isDigit] using h
      | cons e es => simp [parseIndex] at h
    · have hd0' : (d == 0x30) = false := by simpa using hd0
      have hnz := nonzero_digit d
      rw [hd0'] at hnz
      simp only [Bool.not_false, Bool.and_true] at hnz
      cases hdig : isDigit d with
      | false => simp [parseIndex, hd0, hdig] at h
      | true =>
        cases hds : ds.all isDigit with
        | false => simp [parseIndex, hd0, hdig, hds] at h
        | true =>
          simp only [parseIndex, List.isEmpty_cons, Bool.false_eq_true, if_false, List.head?_cons,
            Option.some.injEq, hd0, decide_false, Bool.and_false, List.all_cons, hdig, hds, Bool.and_self,
            Bool.not_true] at h
          split at h
          · simp [rfcIndex, hd0, hnz, hdig, hds]; simpa using h
          · cases h

/-! ### soundness: a resolved node is the node RFC 6901 designates -/
theorem walk_sound (ts : List Bytes) : ∀ n r, walk ts n = some r → Eval ts n r := by
  induction ts with
  | nil => intro n r h; simp [walk] at h; subst h; exact Eval.done
  | cons t ts ih =>
    intro n r h
    simp only [walk] at h
    cases hs : step n t with
    | none => simp [hs] at h
    | some v =>
      simp only [hs, Option.bind_some] at h
      have hev := ih v r h
      unfold step at hs
      by_cases hesc : escapesOk t = true
      · simp only [hesc, Bool.not_true, Bool.false_eq_true, if_false] at hs
        have htok := tokOk_of_escapesOk t hesc
        cases n with
        | scalar _ => simp at hs
        | map ms => exact Eval.member htok hs hev
        | seq items =>
          simp only at hs
          cases hpi : parseIndex (unescape t) with
          | none => simp [hpi] at hs
          | some i =>
            simp only [hpi, Option.bind_some] at hs
            exact Eval.index htok (parseIndex_sub _ _ hpi) hs hev
      · simp [hesc] at hs

theorem find_sound (ptr : Bytes) (n r : Node) (h : find ptr n = some r) : Rfc ptr n r := by
  cases ptr with
  | nil => simp [find] at h; subst h; exact Rfc.whole
  | cons c rest =>
    simp only [find] at h
    split at h
    · rename_i hc; subst hc
      exact Rfc.path (walk_sound _ _ _ h)
    · cases h

/-! ### completeness, for documents whose arrays are shorter than 2^64 -/
inductive Small : Node → Prop
  | scalar {id} : Small (.scalar id)
  | map {ms} : (∀ kv ∈ ms, Small kv.2) → Small (.map ms)
  | seq {items} : items.length < 2 ^ 64 → (∀ x ∈ items, Small x) → Small (.seq items)

theorem findKey_mem {ms : List (Bytes × Node)} {k : Bytes} {v : Node} (h : findKey ms k = some v) :
    ∃ kv ∈ ms, kv.2 = v := by
  induction ms with
  | nil => simp [findKey] at h
  | cons kv rest ih =>
    obtain ⟨k', w⟩ := kv
    simp only [findKey] at h
    split at h
    · cases h; exact ⟨_, List.mem_cons_self .., rfl⟩
    · obtain ⟨kv, hm, he⟩ := ih h
      exact ⟨kv, List.mem_cons_of_mem _ hm, he⟩

theorem walk_complete {ts : List Bytes} {n r : Node} (h : Eval ts n r) (hs : Small n) : walk ts n = some r := by
  induction h with
  | done => rfl
  | @member raw tok ms v rest r htok hfind _ ih =>
    obtain ⟨hesc, hun⟩ := escapesOk_of_tokOk htok
    have hv : Small v := by
      cases hs with
      | map hms =>
        obtain ⟨kv, hm, he⟩ := findKey_mem hfind
        rw [← he]; exact hms kv hm
    simp only [walk, step, hesc, Bool.not_true, Bool.false_eq_true, if_false, hun, hfind, Option.bind_some]
    exact ih hv
  | @index raw tok items i v rest r htok hidx hget _ ih =>
    obtain ⟨hesc, hun⟩ := escapesOk_of_tokOk htok
    cases hs with
    | seq hlen hitems =>
      have hi : i < items.length := by
        have := List.getElem?_eq_some_iff.mp hget
        exact this.1
      have hv : Small v := hitems v (List.mem_of_getElem? hget)
      have hpi : parseIndex tok = some i := by
        rw [parseIndex_eq_rfc tok (by
          intro j hj
          rw [hidx] at hj; cases hj; omega)]
        exact hidx
      simp only [walk, step, hesc, Bool.not_true, Bool.false_eq_true, if_false, hun, hpi, Option.bind_some, hget]
      exact ih hv

theorem find_complete {ptr : Bytes} {n r : Node} (h : Rfc ptr n r) (hs : Small n) : find ptr n = some r := by
  cases h with
  | whole => rfl
  | path hev => simp [find, walk_complete hev hs]

/-- **C16 for the plain form**: resolution returns a node exactly when RFC 6901 evaluation designates it, and then
    that node — never a different one. -/
theorem find_iff_rfc (ptr : Bytes) (n r : Node) (hs : Small n) : find ptr n = some r ↔ Rfc ptr n r :=
  ⟨find_sound ptr n r, fun h => find_complete h hs⟩

/-! ### the URI-fragment form (`#…`): percent-decode, then evaluate (RFC 6901 §6) -/
def isHex (c : UInt8) : Bool :=
  (0x30 ≤ c && c ≤ 0x39) || (0x61 ≤ c && c ≤ 0x66) || (0x41 ≤ c && c ≤ 0x46)
def unhex (c : UInt8) : UInt8 :=
  if 0x30 ≤ c && c ≤ 0x39 then c - 0x30 else if 0x61 ≤ c && c ≤ 0x66 then c - 0x61 + 10 else c - 0x41 + 10

/-- `url.PathUnescape` -/
def pctDecode : Bytes → Option Bytes
  | [] => some []
  | c :: cs =>
    if c = 0x25 then
      match cs with
      | a :: b :: rest =>
        if isHex a && isHex b then (pctDecode rest).map ((unhex a <<< 4 ||| unhex b) :: ·) else none
      | _ => none
    else (pctDecode cs).map (c :: ·)

/-- RFC 3986 percent-decoding as a relation (independent of the scanning code) -/
inductive Pct : Bytes → Bytes → Prop
  | nil : Pct [] []
  | esc {a b r d} : isHex a = true → isHex b = true → Pct r d →
      Pct (0x25 :: a :: b :: r) ((unhex a <<< 4 ||| unhex b) :: d)
  | raw {c r d} : c ≠ 0x25 → Pct r d → Pct (c :: r) (c :: d)

inductive Res (α : Type) where
  | ok (a : α) | err | unmodelled

/-- `jsonpointer.Resolve`'s four-way switch; a string that starts with neither `/` nor `#` goes
    through `url.Parse` (a URI reference whose fragment is the pointer) and is not modelled. -/
def resolve (ptr : Bytes) (n : Node) : Res Node :=
  match ptr with
  | [] => .ok n
  | c :: rest =>
    if c = 0x2f then (match find ptr n with | some r => .ok r | none => .err)
    else if c = 0x23 then
      if rest.isEmpty then .ok n
      else match pctDecode rest with
        | none => .err
        | some d => (match find d n with | some r => .ok r | none => .err)
    else .unmodelled

/-- RFC 6901 §3–§6 for both spellings -/
inductive RfcAny : Bytes → Node → Node → Prop
  | plain {p n r} : Rfc p n r → RfcAny p n r
  | frag {q d n r} : Pct q d → Rfc d n r → RfcAny (0x23 :: q) n r

theorem pctDecode_sound (s : Bytes) : ∀ d, pctDecode s = some d → Pct s d := by
  fun_induction pctDecode s with
  | case1 => intro d h; cases h; exact Pct.nil
  | case2 a b rest hh ih =>
    intro d h
    simp only [Option.map_eq_some_iff] at h
    obtain ⟨d', hd', rfl⟩ := h
    simp only [Bool.and_eq_true] at hh
    exact Pct.esc hh.1 hh.2 (ih d' hd')
  | case3 a b rest hh => intro d h; cases h
  | case4 cs hcs => intro d h; cases h
  | case5 c cs hc ih =>
    intro d h
    simp only [Option.map_eq_some_iff] at h
    obtain ⟨d', hd', rfl⟩ := h
    exact Pct.raw hc (ih d' hd')

theorem pctDecode_complete {s d : Bytes} (h : Pct s d) : pctDecode s = some d := by
  induction h with
  | nil => rfl
  | esc ha hb _ ih => unfold pctDecode; simp [ha, hb, ih]
  | raw hc _ ih => unfold pctDecode; simp [hc, ih]

theorem pct_functional {s d d' : Bytes} (h : Pct s d) (h' : Pct s d') : d = d' := by
  have := pctDecode_complete h; rw [pctDecode_complete h'] at this; cases this; rfl

/-- **C16 (both spellings)**: for a plain (`""`, `/…`) or fragment (`#…`) pointer, `Resolve`
    returns node `r` exactly when RFC 6901 evaluation designates `r`; otherwise it reports an
    error. Completeness needs arrays shorter than 2^64 (the bound of `ParseUint(…, 64)`). -/
theorem resolve_iff_rfc (ptr : Bytes) (n r : Node) (hs : Small n) :
    resolve ptr n = .ok r ↔ (RfcAny ptr n r ∧ (ptr = [] ∨ ptr.head? = some 0x2f ∨ ptr.head? = some 0x23)) := by
  constructor
  · intro h
    unfold resolve at h
    split at h
    · cases h; exact ⟨.plain .whole, .inl rfl⟩
    · rename_i c rest
      split at h
      · rename_i hc
        subst hc
        split at h
        · rename_i r' hf; cases h
          exact ⟨.plain (find_sound _ _ _ hf), .inr (.inl rfl)⟩
        · cases h
      · split at h
        · rename_i hc
          subst hc
          split at h
          · rename_i he; cases h
            have : rest = [] := by simpa using he
            subst this
            exact ⟨.frag Pct.nil .whole, .inr (.inr rfl)⟩
          · split at h
            · cases h
            · rename_i d hd
              split at h
              · rename_i r' hf; cases h
                exact ⟨.frag (pctDecode_sound _ _ hd) (find_sound _ _ _ hf), .inr (.inr rfl)⟩
              · cases h
        · cases h
  · rintro ⟨h, _⟩
    cases h with
    | plain hr =>
      have hf := find_complete hr hs
      cases hr with
      | whole => rfl
      | path he =>
        unfold resolve
        simp only [if_true]
        rw [hf]
    | @frag q d _ _ hp hr =>
      have hf := find_complete hr hs
      unfold resolve
      simp only [show ((0x23 : UInt8) = 0x2f) = False by decide, if_false, if_true]
      split
      · rename_i he
        have : q = [] := by simpa using he
        subst this
        cases hp
        cases hr
        rfl
      · rw [pctDecode_complete hp]
        simp only
        rw [hf]

/-- never a different node, in either spelling -/
theorem resolve_never_different (ptr : Bytes) (n r : Node) (h : resolve ptr n = .ok r) : RfcAny ptr n r := by
  unfold resolve at h
  split at h
  · cases h; exact .plain .whole
  · rename_i c rest
    split at h
    · rename_i hc; subst hc
      split at h
      · rename_i r' hf; cases h; exact .plain (find_sound _ _ _ hf)
      · cases h
    · split at h
      · rename_i hc; subst hc
        split at h
        · rename_i he; cases h
          have : rest = [] := by simpa using he
          subst this
          exact .frag Pct.nil .whole
        · split at h
          · cases h
          · rename_i d hd
            split at h
            · rename_i r' hf; cases h
              exact .frag (pctDecode_sound _ _ hd) (find_sound _ _ _ hf)
            · cases h
      · cases h

#print axioms find_iff_rfc
end Ptr
