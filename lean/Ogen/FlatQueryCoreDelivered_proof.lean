import Ogen.PathCoreDelivered_proof
/-! C06 `core_delivered` for header, cookie and query parameters. -/
namespace Codec

/-- core domain for the flat (header / cookie) serializations; `kv` is the key/value separator in use -/
def CoreFlat (kv : UInt8) : Val → Prop
  | .prim _ => True
  | .arr items => items ≠ [] ∧ ∀ it ∈ items, contains it 0x2c = false
  | .obj fields => fields ≠ [] ∧ ∀ f ∈ fields, f.2 ≠ [] ∧ contains f.1 kv = false ∧ contains f.2 0x2c = false

theorem any_false_of {α : Type} {l : List α} {p : α → Bool} (h : ∀ x ∈ l, p x = false) : l.any p = false := by
  simp only [List.any_eq_false, Bool.not_eq_true]; exact h

theorem flatDec_core (c : Cfg) (kv : UInt8) (v : Val)
    (hshape : match v with | .prim _ => c.shape = .prim | .arr _ => c.shape = .arr | .obj _ => c.shape = .obj)
    (hcore : CoreFlat kv v) :
    flatDec c kv (some (match v with | .prim s => s | .arr items => join 0x2c items | .obj fields => encodeObject kv 0x2c fields)) = .ok v := by
  cases v with
  | prim s => simp only at hshape; simp [flatDec, hshape]
  | arr items =>
    simp only at hshape
    simp only [CoreFlat] at hcore
    simp only [flatDec, hshape]
    rw [split_join' 0x2c items hcore.1 hcore.2]
  | obj fields =>
    simp only at hshape
    simp only [CoreFlat] at hcore
    simp only [flatDec, hshape]
    rw [decodeObject_complete kv 0x2c fields hcore.1 (fun f hf => (hcore.2 f hf).2.1) (fun f hf => (hcore.2 f hf).2.2)
      (fun f hf => (hcore.2 f hf).1) _ (by have := length_le_encodeObject kv 0x2c fields; omega)]

theorem header_core_delivered (c : Cfg) (v : Val) (hloc : c.loc = .header)
    (hshape : match v with | .prim _ => c.shape = .prim | .arr _ => c.shape = .arr | .obj _ => c.shape = .obj)
    (hcore : CoreFlat (if c.explode then 0x3d else 0x2c) v) : roundTrip c v = .ok v := by
  unfold roundTrip
  simp only [hloc]
  have hdec := flatDec_core c (if c.explode then 0x3d else 0x2c) v hshape hcore
  cases v with
  | prim s => simpa [headerEnc] using hdec
  | arr items =>
    simp only [CoreFlat] at hcore
    have : (items.any fun it => contains it 0x2c) = false := any_false_of hcore.2
    simp only [headerEnc, this, Bool.false_eq_true, if_false]
    exact hdec
  | obj fields =>
    simp only [CoreFlat] at hcore
    have hE : fields.isEmpty = false := by simpa using hcore.1
    have hany : (fields.any fun (x : Bytes × Bytes) => contains x.1 (if c.explode then 0x3d else 0x2c) || contains x.2 0x2c) = false :=
      any_false_of (fun f hf => by simp [(hcore.2 f hf).2.1, (hcore.2 f hf).2.2])
    simp only [headerEnc, hE, Bool.false_eq_true, if_false]
    rw [if_neg (by rw [hany]; simp)]
    exact hdec

theorem cookie_core_delivered (c : Cfg) (v : Val) (hloc : c.loc = .cookie)
    (hshape : match v with | .prim _ => c.shape = .prim | .arr _ => c.shape = .arr | .obj _ => c.shape = .obj)
    (hex : (∀ s, v ≠ .prim s) → c.explode = false)
    (hcore : CoreFlat 0x2c v) : roundTrip c v = .ok v := by
  unfold roundTrip
  simp only [hloc]
  have hdec := flatDec_core c 0x2c v hshape hcore
  cases v with
  | prim s => simpa [cookieEnc, cookie_inverse] using hdec
  | arr items =>
    simp only [CoreFlat] at hcore
    have hx : c.explode = false := hex (fun s => by simp)
    have : (items.any fun it => contains it 0x2c) = false := any_false_of hcore.2
    simp only [cookieEnc, hx, this, Bool.false_eq_true, if_false, cookie_inverse]
    exact hdec
  | obj fields =>
    simp only [CoreFlat] at hcore
    have hx : c.explode = false := hex (fun s => by simp)
    have hE : fields.isEmpty = false := by simpa using hcore.1
    have hany : (fields.any fun (x : Bytes × Bytes) => contains x.1 0x2c || contains x.2 0x2c) = false :=
      any_false_of (fun f hf => by simp [(hcore.2 f hf).2.1, (hcore.2 f hf).2.2])
    simp only [cookieEnc, hE, hx, Bool.false_eq_true, if_false]
    rw [if_neg (by rw [hany]; simp)]
    simp only [cookie_inverse]
    exact hdec

#print axioms header_core_delivered
#print axioms cookie_core_delivered

/-- core domain for query parameters (the admitted style/shape pairs are part of it) -/
def CoreQuery (c : Cfg) : Val → Prop
  | .prim _ => c.style = .form
  | .arr items => items ≠ [] ∧
      ((c.style = .form ∧ (c.explode = true ∨ ∀ it ∈ items, it ≠ [] ∧ contains it 0x2c = false)) ∨
       (c.style = .pipe ∧ (c.explode = true ∨ ∀ it ∈ items, it ≠ [] ∧ contains it 0x7c = false)))
  | .obj fields => fields ≠ [] ∧ (fields.map (·.1)).Nodup ∧
      ((c.style = .form ∧ c.explode = true) ∨ (c.style = .deep ∧ c.explode = true) ∨
       (c.style = .form ∧ c.explode = false ∧
          ∀ f ∈ fields, f.2 ≠ [] ∧ contains f.1 0x2c = false ∧ contains f.2 0x2c = false))

theorem join_ne (sep : UInt8) (items : List Bytes) (hne : items ≠ []) (h : ∀ it ∈ items, it ≠ []) : join sep items ≠ [] := by
  intro hj
  rcases (join_nil_iff sep items).mp hj with h0 | h0
  · exact hne h0
  · exact h [] (by rw [h0]; simp) rfl

theorem query_core_delivered (c : Cfg) (v : Val) (hloc : c.loc = .query)
    (hshape : match v with | .prim _ => c.shape = .prim | .arr _ => c.shape = .arr | .obj _ => c.shape = .obj)
    (hcore : CoreQuery c v) : roundTrip c v = .ok v := by
  unfold roundTrip
  simp only [hloc]
  cases v with
  | prim s =>
    simp only at hshape
    simp only [CoreQuery] at hcore
    simp [queryEnc, queryDec, Values.transport, Values.get?, hcore, hshape]
  | arr items =>
    simp only at hshape
    simp only [CoreQuery] at hcore
    obtain ⟨hne, hc⟩ := hcore
    rcases hc with ⟨hst, hx | hf⟩ | ⟨hst, hx | hf⟩
    · simp [queryEnc, queryDec, Values.transport, Values.get?, hst, hx, hshape, hne]
    · cases hex : c.explode
      · have hany : ¬ ∃ x, x ∈ items ∧ contains x 44 = true := by
          rintro ⟨x, hx, h⟩; rw [(hf x hx).2] at h; cases h
        have hj := join_ne 0x2c items hne (fun it hit => (hf it hit).1)
        simp [queryEnc, queryDec, Values.transport, Values.get?, hst, hex, hshape, hany, hj]
        exact split_join' 0x2c items hne (fun it hit => (hf it hit).2)
      · simp [queryEnc, queryDec, Values.transport, Values.get?, hst, hex, hshape, hne]
    · simp [queryEnc, queryDec, Values.transport, Values.get?, hst, hx, hshape, hne]
    · cases hex : c.explode
      · have hany : ¬ ∃ x, x ∈ items ∧ contains x 124 = true := by
          rintro ⟨x, hx, h⟩; rw [(hf x hx).2] at h; cases h
        simp [queryEnc, queryDec, Values.transport, Values.get?, hst, hex, hshape, hany]
        exact split_join' 0x7c items hne (fun it hit => (hf it hit).2)
      · simp [queryEnc, queryDec, Values.transport, Values.get?, hst, hex, hshape, hne]
  | obj fields =>
    simp only at hshape
    simp only [CoreQuery] at hcore
    obtain ⟨hne, hnd, hc⟩ := hcore
    have hE : fields.isEmpty = false := by simpa using hne
    rcases hc with ⟨hst, hex⟩ | ⟨hst, hex⟩ | ⟨hst, hex, hf⟩
    · simp only [queryEnc, hst, hex, hE, Bool.false_eq_true, if_false, if_true]
      have hfold := foldl_set (fun k => k) fields [] (by simpa using hnd)
      simp only [List.nil_append] at hfold
      rw [hfold, transport_encKV]
      exact exploded_dec c (fun k => k) fields (by intro f; simp [hst]) (by simpa using hnd) hex (by simp [hst]) hshape hne
    · have hinj : ∀ a b : Bytes, a ≠ b → c.name ++ 0x5b :: a ++ [0x5d] ≠ c.name ++ 0x5b :: b ++ [0x5d] := by
        intro a b hab heq
        apply hab
        simp only [List.append_assoc, List.cons_append] at heq
        have := List.append_cancel_left heq
        simp only [List.cons.injEq, true_and] at this
        exact List.append_cancel_right this
      have hqn : (fields.map (fun kv => c.name ++ 0x5b :: kv.1 ++ [0x5d])).Nodup := by
        have : fields.map (fun kv => c.name ++ 0x5b :: kv.1 ++ [0x5d]) =
            (fields.map (·.1)).map (fun k => c.name ++ 0x5b :: k ++ [0x5d]) := by simp
        rw [this]
        exact List.Pairwise.map _ hinj hnd
      simp only [queryEnc, hst, hex, hE, Bool.false_eq_true, if_false, if_true, Bool.not_true]
      have hfold := foldl_set (fun k => c.name ++ 0x5b :: k ++ [0x5d]) fields [] (by simpa using hqn)
      simp only [List.nil_append] at hfold
      rw [hfold, transport_encKV]
      exact exploded_dec c (fun k => c.name ++ 0x5b :: k ++ [0x5d]) fields (by intro f; simp [hst]) hqn hex (by simp [hst]) hshape hne
    · have hany : (fields.any fun (x : Bytes × Bytes) => contains x.1 0x2c || contains x.2 0x2c) = false :=
        any_false_of (fun f hf' => by simp [(hf f hf').2.1, (hf f hf').2.2])
      have hnames : (fields.map (·.1)).isEmpty = false := by simpa using hne
      have hdec := decodeObject_complete 0x2c 0x2c fields hne (fun f hf' => (hf f hf').2.1) (fun f hf' => (hf f hf').2.2)
        (fun f hf' => (hf f hf').1) ((encodeObject 0x2c 0x2c fields).length + 2)
        (by have := length_le_encodeObject 0x2c 0x2c fields; omega)
      simp [queryEnc, queryDec, Values.transport, Values.get?, hst, hex, hE, hany, hshape, hnames, hdec]

#print axioms query_core_delivered
end Codec
