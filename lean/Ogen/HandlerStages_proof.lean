/-! Proof probe for C15: the stage order of a generated request handler and the error→status map. -/
namespace Stages

inductive RouteOutcome where | found | noPath | wrongMethod deriving DecidableEq
inductive BodyFail where | malformed | wrongContentType deriving DecidableEq
inductive HandlerOutcome where | ok (status : Nat) | declaredError (status : Nat) | notImplemented | otherError
deriving DecidableEq

structure Outcomes where
  route : RouteOutcome
  securityOk : Bool
  paramsOk : Bool
  body : Option BodyFail          -- none = decoded fine (or no body)
  handler : HandlerOutcome
deriving DecidableEq

structure Result where
  statuses : List Nat             -- every WriteHeader call, in order
  handlerInvoked : Bool
deriving DecidableEq, Repr

/-- ogenerrors.ErrorCode over the error types the stages produce (regenerated from `Code()` in the real development) -/
def securityCode : Nat := 401
def decodeCode : Nat := 400
def contentTypeCode : Nat := 415
def notImplementedCode : Nat := 501
def internalCode : Nat := 500

/-- router → handleXRequest: security, params, body, handler, response — each failure returns early -/
def handle (o : Outcomes) : Result :=
  match o.route with
  | .noPath => ⟨[404], false⟩
  | .wrongMethod => ⟨[405], false⟩
  | .found =>
    if !o.securityOk then ⟨[securityCode], false⟩
    else if !o.paramsOk then ⟨[decodeCode], false⟩
    else match o.body with
      | some .wrongContentType => ⟨[contentTypeCode], false⟩
      | some .malformed => ⟨[decodeCode], false⟩
      | none =>
        match o.handler with
        | .ok s => ⟨[s], true⟩
        | .declaredError s => ⟨[s], true⟩
        | .notImplemented => ⟨[notImplementedCode], true⟩
        | .otherError => ⟨[internalCode], true⟩

/-- exactly one response, always -/
theorem one_response (o : Outcomes) : (handle o).statuses.length = 1 := by
  unfold handle
  cases o.route <;> simp
  split <;> try rfl
  split <;> try rfl
  cases o.body with
  | none => cases o.handler <;> rfl
  | some b => cases b <;> rfl

/-- nothing is over-accepted: the handler runs exactly when routing, security, parameters and body all succeeded -/
theorem no_overaccept (o : Outcomes) :
    (handle o).handlerInvoked = true ↔
      o.route = .found ∧ o.securityOk = true ∧ o.paramsOk = true ∧ o.body = none := by
  unfold handle
  cases hr : o.route <;> simp
  cases hs : o.securityOk <;> simp
  cases hp : o.paramsOk <;> simp
  cases hb : o.body with
  | none => cases o.handler <;> simp
  | some b => cases b <;> simp

/-- the first failing stage decides the status -/
theorem stage_status (o : Outcomes) :
    (o.route = .noPath → (handle o).statuses = [404]) ∧
    (o.route = .wrongMethod → (handle o).statuses = [405]) ∧
    (o.route = .found → o.securityOk = false → (handle o).statuses = [401]) ∧
    (o.route = .found → o.securityOk = true → o.paramsOk = false → (handle o).statuses = [400]) ∧
    (o.route = .found → o.securityOk = true → o.paramsOk = true → o.body = some .wrongContentType →
        (handle o).statuses = [415]) ∧
    (o.route = .found → o.securityOk = true → o.paramsOk = true → o.body = some .malformed →
        (handle o).statuses = [400]) := by
  unfold handle
  refine ⟨?_, ?_, ?_, ?_, ?_, ?_⟩ <;> intros <;> simp_all [securityCode, decodeCode, contentTypeCode]

/-! line protocol: `stage <route> <sec 0|1> <params 0|1> <body none|ct|malformed> <handler ok<status>|other|notimpl|declared<status>>` -/
def stageLine (line : String) : String :=
  match (line.splitOn " ").filter (· ≠ "") with
  | [rt, sec, par, body, h] =>
    let route := match rt with | "noPath" => RouteOutcome.noPath | "wrongMethod" => .wrongMethod | _ => .found
    let b := match body with | "ct" => some BodyFail.wrongContentType | "malformed" => some .malformed | _ => none
    let ho : HandlerOutcome :=
      if h.startsWith "ok" then .ok (h.drop 2).toString.toNat!
      else if h.startsWith "declared" then .declaredError (h.drop 8).toString.toNat!
      else if h == "notimpl" then .notImplemented else .otherError
    let r := handle ⟨route, sec == "1", par == "1", b, ho⟩
    " ".intercalate (r.statuses.map toString) ++ (if r.handlerInvoked then " h1" else " h0")
  | _ => "bad"

#print axioms no_overaccept
end Stages
