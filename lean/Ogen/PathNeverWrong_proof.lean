import Ogen.PathRoundTrip_proof
import Ogen.HeaderCookie_proof
/-! Proof probe for C06: path parameters never deliver a different value — every style, both explode values,
    every shape, every byte string. Step 1: what the server unescapes is the client's wire with the identity in
    place of `PathEscape` ("raw wire"). Step 2: the decoders on the raw wire. -/
namespace Codec

/-! ### the wire, parametric in the escaping -/
def mexp (pre : Bytes) : List Bytes → Bytes
  | [] => pre
  | [x] => pre ++ x
  | x :: xs => pre ++ x ++ mexp pre xs

theorem mexp_eq (pre : Bytes) (es : List Bytes) : pre ++ List.intercalate pre es = mexp pre es := by
  induction es with
  | nil => simp [mexp]
  | cons x xs ih =>
    cases xs with
    | nil => simp [mexp]
    | cons y ys =>
      rw [List.intercalate_cons_cons]
      show _ = pre ++ x ++ mexp pre (y :: ys)
      rw [← ih]
      simp [List.append_assoc]

def pathWire (esc : Bytes → Bytes) (c : Cfg) (v : Val) : Bytes :=
  let param := esc c.name
  match v with
  | .prim s =>
    let e := esc s
    (match c.style with | .label => 0x2e :: e | .matrix => 0x3b :: param ++ 0x3d :: e | _ => e)
  | .arr items =>
    let es := items.map esc
    (match c.style with
      | .label => 0x2e :: join (if c.explode then 0x2e else 0x2c) es
      | .matrix =>
        if !c.explode then 0x3b :: param ++ 0x3d :: join 0x2c es
        else mexp (0x3b :: param ++ [0x3d]) es
      | _ => join 0x2c es)
  | .obj fields =>
    let es := fields.map (fun (k, v) => (esc k, esc v))
    (match c.style with
      | .label => 0x2e :: encodeObject (objSeps c.style c.explode).1 (objSeps c.style c.explode).2 es
      | .matrix => if !c.explode then 0x3b :: param ++ 0x3d :: encodeObject 0x2c 0x2c es else 0x3b :: encodeObject 0x3d 0x3b es
      | _ => encodeObject (objSeps c.style c.explode).1 (objSeps c.style c.explode).2 es)

theorem ite_err_ok {p : Prop} [Decidable p] {e : Out} {y : Except Out Bytes} {w : Bytes}
    (h : (if p then Except.error e else y) = Except.ok w) : ¬p ∧ y = Except.ok w := by
  split at h
  · cases h
  · exact ⟨‹_›, h⟩

theorem pathEnc_wire {c : Cfg} {v : Val} {w : Bytes} (h : pathEnc c v = .ok w) : w = pathWire pathEscape c v := by
  cases v with
  | prim s =>
    cases hst : c.style <;> simp [pathEnc, hst] at h <;>
      (obtain ⟨_, h⟩ := ite_err_ok h; cases h; simp [pathWire, hst])
  | arr items =>
    cases hst : c.style <;> cases hex : c.explode <;> simp [pathEnc, hst, hex] at h <;>
      (obtain ⟨_, h⟩ := ite_err_ok h; obtain ⟨_, h⟩ := ite_err_ok h; cases h; simp [pathWire, hst, hex, ← mexp_eq])
  | obj fields =>
    cases hst : c.style <;> cases hex : c.explode <;> simp [pathEnc, hst, hex, objSeps] at h <;>
      (obtain ⟨_, h⟩ := ite_err_ok h; obtain ⟨_, h⟩ := ite_err_ok h; obtain ⟨_, h⟩ := ite_err_ok h; cases h
       simp [pathWire, hst, hex, objSeps])

/-! ### unescaping the wire -/
theorem ue_lit (c : UInt8) (rest : Bytes) (hc : (c == 0x25) = false) :
    pctUnescape false (c :: rest) = (pctUnescape false rest).map (c :: ·) := by
  conv => lhs; unfold pctUnescape
  simp [hc]

theorem ue_app (s rest : Bytes) : pctUnescape false (pathEscape s ++ rest) = (pctUnescape false rest).map (s ++ ·) := by
  induction s with
  | nil => simp [pathEscape]
  | cons c cs ih =>
    by_cases h : escPathSeg c = true
    · have hx := hex_rt c
      simp only [pathEscape, h, if_true, List.cons_append]
      conv => lhs; unfold pctUnescape
      simp only [beq_self_eq_true, if_true, hx.1, hx.2.1, Bool.and_self, hx.2.2, ih]
      cases pctUnescape false rest <;> simp
    · have h' : escPathSeg c = false := by simpa using h
      have hp := unescaped_not_pct c h'
      simp only [pathEscape, h', Bool.false_eq_true, if_false, List.cons_append]
      rw [ue_lit c _ hp, ih]
      cases pctUnescape false rest <;> simp

theorem ue_join (sep : UInt8) (hs : (sep == 0x25) = false) (items : List Bytes) (rest : Bytes) :
    pctUnescape false (join sep (items.map pathEscape) ++ rest) = (pctUnescape false rest).map (join sep items ++ ·) := by
  induction items with
  | nil => simp [join]
  | cons x xs ih =>
    cases xs with
    | nil => simp only [List.map, join]; exact ue_app x rest
    | cons y ys =>
      simp only [List.map, join, List.append_assoc, List.cons_append] at ih ⊢
      rw [ue_app, ue_lit sep _ hs, ih]
      cases pctUnescape false rest <;> simp

theorem ue_obj (kv fs : UInt8) (hk : (kv == 0x25) = false) (hf : (fs == 0x25) = false) (fields : List (Bytes × Bytes)) (rest : Bytes) :
    pctUnescape false (encodeObject kv fs (fields.map (fun (k, v) => (pathEscape k, pathEscape v))) ++ rest) =
      (pctUnescape false rest).map (encodeObject kv fs fields ++ ·) := by
  induction fields with
  | nil => simp [encodeObject]
  | cons f rest' ih =>
    obtain ⟨k, v⟩ := f
    cases rest' with
    | nil =>
      simp only [List.map, encodeObject, List.append_assoc, List.cons_append]
      rw [ue_app, ue_lit kv _ hk, ue_app]
      cases pctUnescape false rest <;> simp
    | cons g gs =>
      simp only [List.map, encodeObject, List.append_assoc, List.cons_append] at ih ⊢
      rw [ue_app, ue_lit kv _ hk, ue_app, ue_lit fs _ hf, ih]
      cases pctUnescape false rest <;> simp

theorem ue_mexp (pre pre' : Bytes) (hpre : ∀ rest, pctUnescape false (pre ++ rest) = (pctUnescape false rest).map (pre' ++ ·))
    (items : List Bytes) (rest : Bytes) :
    pctUnescape false (mexp pre (items.map pathEscape) ++ rest) = (pctUnescape false rest).map (mexp pre' items ++ ·) := by
  induction items with
  | nil => simp only [List.map, mexp]; exact hpre rest
  | cons x xs ih =>
    cases xs with
    | nil =>
      simp only [List.map, mexp, List.append_assoc]
      rw [hpre, ue_app]
      cases pctUnescape false rest <;> simp
    | cons y ys =>
      simp only [List.map, mexp, List.append_assoc] at ih ⊢
      rw [hpre, ue_app, ih]
      cases pctUnescape false rest <;> simp

theorem objSeps_ne (st : Style) (e : Bool) : ((objSeps st e).1 == 0x25) = false ∧ ((objSeps st e).2 == 0x25) = false := by
  cases st <;> cases e <;> decide

/-- **transport**: the server-side unescape of the client's wire is the raw wire -/
theorem ue_wire (c : Cfg) (v : Val) : pctUnescape false (pathWire pathEscape c v) = some (pathWire id c v) := by
  have hnil : pctUnescape false [] = some [] := by simp [pctUnescape]
  have hpre0 : ∀ rest, pctUnescape false ((0x3b :: pathEscape c.name ++ [0x3d]) ++ rest) =
      (pctUnescape false rest).map ((0x3b :: c.name ++ [0x3d]) ++ ·) := by
    intro rest
    simp only [List.cons_append, List.append_assoc, List.nil_append]
    rw [ue_lit _ _ (by decide), ue_app, ue_lit _ _ (by decide)]
    cases pctUnescape false rest <;> simp
  have hpre : ∀ rest, pctUnescape false (0x3b :: (pathEscape c.name ++ 0x3d :: rest)) =
      (pctUnescape false rest).map (fun x => 0x3b :: (c.name ++ 0x3d :: x)) := by
    intro rest
    have := hpre0 rest
    simpa only [List.cons_append, List.append_assoc, List.nil_append] using this
  cases v with
  | prim s =>
    have h0 : pctUnescape false (pathEscape s) = some s := pathUnescape_pathEscape s
    cases hst : c.style
    case label =>
      simp only [pathWire, hst, id]
      rw [ue_lit _ _ (by decide), h0]; rfl
    case matrix =>
      simp only [pathWire, hst, id, List.cons_append]
      rw [hpre, h0]; rfl
    all_goals (simp only [pathWire, hst, id]; exact h0)
  | arr items =>
    have hj : ∀ sep, (sep == 0x25) = false → pctUnescape false (join sep (items.map pathEscape)) = some (join sep items) := by
      intro sep hs
      have := ue_join sep hs items []
      simpa [hnil] using this
    cases hst : c.style
    case label =>
      simp only [pathWire, hst, List.map_id]
      rw [ue_lit _ _ (by decide)]
      cases c.explode
      · simp only [Bool.false_eq_true, if_false]; rw [hj 0x2c (by decide)]; rfl
      · simp only [if_true]; rw [hj 0x2e (by decide)]; rfl
    case matrix =>
      simp only [pathWire, hst, List.map_id, id]
      cases c.explode
      · simp only [Bool.not_false, if_true, List.cons_append]
        rw [hpre, hj 0x2c (by decide)]; rfl
      · simp only [Bool.not_true, Bool.false_eq_true, if_false]
        have := ue_mexp _ _ hpre0 items []
        simpa [hnil] using this
    all_goals (simp only [pathWire, hst, List.map_id]; exact hj 0x2c (by decide))
  | obj fields =>
    have ho : ∀ kv fs, (kv == 0x25) = false → (fs == 0x25) = false →
        pctUnescape false (encodeObject kv fs (fields.map (fun (k, v) => (pathEscape k, pathEscape v)))) =
          some (encodeObject kv fs fields) := by
      intro kv fs hk hf
      have := ue_obj kv fs hk hf fields []
      simpa [hnil] using this
    have hid : fields.map (fun (x : Bytes × Bytes) => (id x.1, id x.2)) = fields := by simp
    obtain ⟨n1, n2⟩ := objSeps_ne c.style c.explode
    cases hst : c.style
    case label =>
      simp only [pathWire, hst, hid]
      rw [hst] at n1 n2
      rw [ue_lit _ _ (by decide), ho _ _ n1 n2]; rfl
    case matrix =>
      simp only [pathWire, hst, hid]
      cases c.explode
      · simp only [Bool.not_false, if_true, List.cons_append]
        rw [hpre, ho _ _ (by decide) (by decide)]; rfl
      · simp only [Bool.not_true, Bool.false_eq_true, if_false]
        rw [ue_lit _ _ (by decide), ho _ _ (by decide) (by decide)]; rfl
    all_goals (simp only [pathWire, hst, hid]; rw [hst] at n1 n2; exact ho _ _ n1 n2)

#print axioms ue_wire

/-! ### decoders on the raw wire: whatever they return is what was encoded -/
theorem readValue_free_append (sep : UInt8) (x rest : Bytes) (hx : contains x sep = false) :
    readValue sep (x ++ sep :: rest) = some (x, true, rest) := by
  simp [readValue, cut_free_append sep x rest hx]

theorem readValue_free (sep : UInt8) (x : Bytes) (hx : contains x sep = false) :
    readValue sep x = if x.isEmpty then none else some (x, false, []) := by
  simp [readValue, cut_free sep x hx]

theorem parseArray_only (sep : UInt8) (items : List Bytes) (hfree : ∀ it ∈ items, contains it sep = false) :
    ∀ fuel l, parseArray fuel sep (join sep items) = some l → l = items := by
  induction items with
  | nil =>
    intro fuel l h
    cases fuel with
    | zero => simp [parseArray] at h
    | succ fuel => simp [parseArray, join, readValue, cut] at h
  | cons x xs ih =>
    intro fuel l h
    have hx := hfree x (List.mem_cons_self ..)
    cases fuel with
    | zero => simp [parseArray] at h
    | succ fuel =>
      cases xs with
      | nil =>
        simp only [join, parseArray] at h
        rw [readValue_free sep x hx] at h
        by_cases hxe : x.isEmpty = true
        · simp [hxe] at h
        · simp [hxe] at h; exact h.symm
      | cons y ys =>
        simp only [join, parseArray] at h
        rw [readValue_free_append sep x _ hx] at h
        simp only [if_true] at h
        cases hp : parseArray fuel sep (join sep (y :: ys)) with
        | none => simp [hp] at h
        | some l' =>
          simp [hp] at h
          have := ih (fun it hit => hfree it (List.mem_cons_of_mem _ hit)) fuel l' hp
          rw [← h, this]

/-- what follows the first `;` of an exploded matrix array -/
def mtail (name : Bytes) : List Bytes → Bytes
  | [] => name ++ [0x3d]
  | [x] => name ++ 0x3d :: x
  | x :: xs => name ++ 0x3d :: x ++ 0x3b :: mtail name xs

theorem mexp_mtail (name : Bytes) (items : List Bytes) :
    mexp (0x3b :: name ++ [0x3d]) items = 0x3b :: mtail name items := by
  induction items with
  | nil => simp [mexp, mtail]
  | cons x xs ih =>
    cases xs with
    | nil => simp [mexp, mtail]
    | cons y ys =>
      show (0x3b :: name ++ [0x3d]) ++ x ++ mexp (0x3b :: name ++ [0x3d]) (y :: ys) = 0x3b :: (name ++ 0x3d :: x ++ 0x3b :: mtail name (y :: ys))
      rw [ih]; simp [List.append_assoc]

theorem loop_only (c : Cfg) (hname : contains c.name 0x3d = false) (items : List Bytes)
    (hfree : ∀ it ∈ items, contains it 0x3b = false) :
    ∀ fuel l, pathDec.loop c fuel (mtail c.name items) = some l → l = items := by
  induction items with
  | nil =>
    intro fuel l h
    cases fuel with
    | zero => simp [pathDec.loop] at h
    | succ fuel =>
      simp only [mtail, pathDec.loop] at h
      have : c.name ++ [0x3d] = c.name ++ 0x3d :: [] := rfl
      rw [this, readValue_free_append 0x3d c.name [] hname] at h
      simp [readValue, cut] at h
  | cons x xs ih =>
    intro fuel l h
    have hx := hfree x (List.mem_cons_self ..)
    cases fuel with
    | zero => simp [pathDec.loop] at h
    | succ fuel =>
      cases xs with
      | nil =>
        simp only [mtail, pathDec.loop] at h
        rw [readValue_free_append 0x3d c.name x hname] at h
        simp only [Option.bind_eq_bind, Option.bind_some, bne_self_eq_false, Bool.not_true, Bool.or_self,
          Bool.false_eq_true, if_false] at h
        rw [readValue_free 0x3b x hx] at h
        by_cases hxe : x.isEmpty = true
        · simp [hxe] at h
        · simp [hxe] at h; exact h.symm
      | cons y ys =>
        simp only [mtail, pathDec.loop, List.append_assoc, List.cons_append] at h
        rw [readValue_free_append 0x3d c.name _ hname] at h
        simp only [Option.bind_eq_bind, Option.bind_some, bne_self_eq_false, Bool.not_true, Bool.or_self,
          Bool.false_eq_true, if_false] at h
        rw [readValue_free_append 0x3b x _ hx] at h
        simp only [Option.bind_some, if_true] at h
        cases hp : pathDec.loop c fuel (mtail c.name (y :: ys)) with
        | none => simp [mtail, hp] at h
        | some l' =>
          simp [mtail, hp] at h
          have := ih (fun it hit => hfree it (List.mem_cons_of_mem _ hit)) fuel l' hp
          rw [← h, this]

#print axioms loop_only

/-! ### what a successful encoding tells about the value -/
def arrSep (st : Style) (explode : Bool) : UInt8 :=
  match st with
  | .label => if explode then 0x2e else 0x2c
  | .matrix => if explode then 0x3b else 0x2c
  | _ => 0x2c

theorem ite_err_err {p : Prop} [Decidable p] {e e' : Out} {y : Except Out Bytes}
    (h : (if p then Except.error e else y) = Except.error e') : e = e' ∨ y = Except.error e' := by
  split at h
  · cases h; exact Or.inl rfl
  · exact Or.inr h

theorem pathEnc_err {c : Cfg} {v : Val} {e : Out} (h : pathEnc c v = .error e) : e = .encErr ∨ e = .panic := by
  unfold pathEnc at h
  simp only at h
  rcases ite_err_err h with h | h
  · exact Or.inl h.symm
  · cases v with
    | prim s => simp only at h; cases h
    | arr items =>
      simp only at h
      rcases ite_err_err h with h | h
      · exact Or.inl h.symm
      · cases h
    | obj fields =>
      simp only at h
      rcases ite_err_err h with h | h
      · exact Or.inl h.symm
      · rcases ite_err_err h with h | h
        · exact Or.inl h.symm
        · cases h

theorem esc_not_eq : ∀ c : UInt8, (escPathSeg c = true → (c == 0x3d) = false) ∧
    (hexU (c >>> 4) == 0x3d) = false ∧ (hexU (c &&& 15) == 0x3d) = false := by
  apply forall_byte; decide +kernel

theorem contains_escape_eq (s : Bytes) : contains (pathEscape s) 0x3d = contains s 0x3d := by
  induction s with
  | nil => rfl
  | cons c cs ih =>
    obtain ⟨h1, h2, h3⟩ := esc_not_eq c
    simp only [contains] at ih
    by_cases h : escPathSeg c = true
    · simp only [pathEscape, h, if_true, contains, List.any_cons, h1 h, h2, h3, ih, Bool.false_or]
      rfl
    · have h' : escPathSeg c = false := by simpa using h
      simp only [pathEscape, h', Bool.false_eq_true, if_false, contains, List.any_cons, ih]

theorem guard_name {c : Cfg} {v : Val} {w : Bytes} (h : pathEnc c v = .ok w) (hst : c.style = .matrix) :
    contains c.name 0x3d = false := by
  unfold pathEnc at h
  simp only at h
  obtain ⟨hA, _⟩ := ite_err_ok h
  rw [contains_escape_eq, hst] at hA
  have : (Style.matrix == Style.matrix) = true := by decide
  simpa [this] using hA

theorem guard_arr {c : Cfg} {items : List Bytes} {w : Bytes} (h : pathEnc c (.arr items) = .ok w) :
    ∀ it ∈ items, contains it (arrSep c.style c.explode) = false := by
  unfold pathEnc at h
  simp only at h
  obtain ⟨_, h⟩ := ite_err_ok h
  obtain ⟨hB, _⟩ := ite_err_ok h
  intro it hit
  simp only [List.any_eq_true, not_exists, not_and, Bool.not_eq_true] at hB
  exact hB it hit

theorem guard_obj {c : Cfg} {fields : List (Bytes × Bytes)} {w : Bytes} (h : pathEnc c (.obj fields) = .ok w) :
    fields ≠ [] ∧ (∀ f ∈ fields, contains f.1 (objSeps c.style c.explode).1 = false) ∧
      (∀ f ∈ fields, contains f.2 (objSeps c.style c.explode).2 = false) := by
  unfold pathEnc at h
  simp only at h
  obtain ⟨_, h⟩ := ite_err_ok h
  obtain ⟨hE, h⟩ := ite_err_ok h
  obtain ⟨hB, _⟩ := ite_err_ok h
  simp only [List.any_eq_true, not_exists, not_and, Bool.not_eq_true, Bool.or_eq_false_iff] at hB
  refine ⟨?_, fun f hf => (hB f hf).1, fun f hf => (hB f hf).2⟩
  intro h0; apply hE; simp [h0]

theorem eat_cons (b : UInt8) (r : Bytes) : eat b (b :: r) = some r := by simp [eat]

theorem readUntil_free_append (sep : UInt8) (x rest : Bytes) (hx : contains x sep = false) :
    readUntil sep (x ++ sep :: rest) = some (x, rest) := by
  simp [readUntil, cut_free_append sep x rest hx]

theorem out_of_opt {r : Option Val} {v' : Val}
    (h : (match r with | some v => Out.ok v | none => Out.decErr) = .ok v') : r = some v' := by
  cases r with
  | none => simp at h
  | some v => simp at h; rw [h]

theorem readAll_prim {s : Bytes} {v' : Val} (h : (readAll s).map Val.prim = some v') : v' = .prim s := by
  simp only [readAll] at h
  split at h <;> simp at h
  exact h.symm

theorem arr_of_map {o : Option (List Bytes)} {v' : Val} (h : o.map Val.arr = some v') : ∃ l, o = some l ∧ v' = .arr l := by
  cases o with
  | none => simp at h
  | some l => simp at h; exact ⟨l, rfl, h.symm⟩

theorem obj_of_map {o : Option (List (Bytes × Bytes))} {v' : Val} (h : o.map Val.obj = some v') :
    ∃ l, o = some l ∧ v' = .obj l := by
  cases o with
  | none => simp at h
  | some l => simp at h; exact ⟨l, rfl, h.symm⟩

/-- **path parameters never deliver a different value** — every style, explode, shape and byte string; there is no
    carve-out: the empty array, the empty last item and the empty primitive are decoder refusals -/
theorem path_never_wrong (c : Cfg) (v v' : Val) (hloc : c.loc = .path)
    (hshape : match v with | .prim _ => c.shape = .prim | .arr _ => c.shape = .arr | .obj _ => c.shape = .obj)
    (h : roundTrip c v = .ok v') : v' = v := by
  unfold roundTrip at h
  simp only [hloc] at h
  cases henc : pathEnc c v with
  | error e =>
    rw [henc] at h
    simp only at h
    rcases pathEnc_err henc with he | he <;> rw [he] at h <;> cases h
  | ok w =>
    rw [henc] at h
    simp only at h
    have hw := pathEnc_wire henc
    subst hw
    unfold pathDec at h
    rw [ue_wire] at h
    simp only at h
    split at h
    · cases h
    · have hr := out_of_opt h
      clear h
      cases v with
      | prim s =>
        simp only at hshape
        simp only [hshape] at hr
        cases hst : c.style
        case label =>
          simp only [hst, pathWire, id, eat_cons, Option.bind_some] at hr
          exact readAll_prim hr
        case matrix =>
          have hn := guard_name henc hst
          simp only [hst, pathWire, id, List.cons_append, eat_cons, Option.bind_eq_bind, Option.bind_some,
            readUntil_free_append 0x3d c.name s hn, bne_self_eq_false, Bool.false_eq_true, if_false] at hr
          exact readAll_prim hr
        all_goals (simp only [hst, pathWire, id] at hr; exact readAll_prim hr)
      | arr items =>
        simp only at hshape
        simp only [hshape] at hr
        have hg := guard_arr henc
        cases hst : c.style
        case label =>
          simp only [hst, pathWire, List.map_id, eat_cons, Option.bind_some] at hr
          simp only [hst, arrSep] at hg
          obtain ⟨l, hp, rfl⟩ := arr_of_map hr
          rw [parseArray_only _ items hg _ l hp]
        case matrix =>
          have hn := guard_name henc hst
          simp only [hst, arrSep] at hg
          cases hex : c.explode
          · simp only [hex, Bool.false_eq_true, if_false] at hg
            simp only [hst, hex, pathWire, List.map_id, id, Bool.not_false, if_true, List.cons_append, eat_cons,
              Option.bind_eq_bind, Option.bind_some, readValue_free_append 0x3d c.name _ hn, bne_self_eq_false,
              Bool.not_true, Bool.or_self, Bool.false_eq_true, if_false] at hr
            obtain ⟨l, hp, rfl⟩ := arr_of_map hr
            rw [parseArray_only _ items hg _ l hp]
          · simp only [hex, if_true] at hg
            simp only [hst, hex, pathWire, List.map_id, id, Bool.not_true, Bool.false_eq_true, if_false, mexp_mtail,
              eat_cons, Option.bind_eq_bind, Option.bind_some] at hr
            obtain ⟨l, hp, rfl⟩ := arr_of_map hr
            rw [loop_only c hn items hg _ l hp]
        all_goals (
          simp only [hst, pathWire, List.map_id] at hr
          simp only [hst, arrSep] at hg
          obtain ⟨l, hp, rfl⟩ := arr_of_map hr
          rw [parseArray_only _ items hg _ l hp])
      | obj fields =>
        simp only at hshape
        simp only [hshape] at hr
        obtain ⟨hne, hk, hv⟩ := guard_obj henc
        have hid : fields.map (fun (x : Bytes × Bytes) => (id x.1, id x.2)) = fields := by simp
        cases hst : c.style
        case label =>
          simp only [hst, pathWire, hid, eat_cons, Option.bind_some] at hr
          simp only [hst] at hk hv
          obtain ⟨l, hp, rfl⟩ := obj_of_map hr
          rw [decodeObject_encodeObject _ _ fields hne hk hv _ l hp]
        case matrix =>
          have hn := guard_name henc hst
          simp only [hst] at hk hv
          cases hex : c.explode
          · simp only [hex, objSeps, Bool.not_false, Bool.not_true, Bool.false_eq_true, if_true, if_false] at hk hv
            simp only [hst, hex, pathWire, hid] at hr
            simp only [id_eq, Bool.not_false, if_true, List.cons_append, eat_cons,
              Option.bind_eq_bind, Option.bind_some, readUntil_free_append 0x3d c.name _ hn, bne_self_eq_false,
              Bool.false_eq_true, if_false] at hr
            obtain ⟨l, hp, rfl⟩ := obj_of_map hr
            rw [decodeObject_encodeObject _ _ fields hne hk hv _ l hp]
          · simp only [hex, objSeps, Bool.not_false, Bool.not_true, Bool.false_eq_true, if_true, if_false] at hk hv
            simp only [hst, hex, pathWire, hid] at hr
            simp only [id_eq, Bool.not_true, Bool.false_eq_true, if_false, eat_cons,
              Option.bind_eq_bind, Option.bind_some] at hr
            obtain ⟨l, hp, rfl⟩ := obj_of_map hr
            rw [decodeObject_encodeObject _ _ fields hne hk hv _ l hp]
        all_goals (
          simp only [hst, pathWire, hid] at hr
          simp only [hst] at hk hv
          obtain ⟨l, hp, rfl⟩ := obj_of_map hr
          rw [decodeObject_encodeObject _ _ fields hne hk hv _ l hp])

#print axioms path_never_wrong
end Codec
