/-! Feasibility probe for C06: executable model of the uri codecs as generated code drives them,
    with the transport (PathEscape/PathUnescape, Values.Encode/ParseQuery, header, cookie escape). -/
namespace Codec
abbrev Bytes := List UInt8

inductive Val where
  | prim (v : Bytes)
  | arr (items : List Bytes)
  | obj (fields : List (Bytes × Bytes))
deriving Repr, BEq

inductive Out where
  | ok (v : Val)
  | encErr | decErr | absent | panic
deriving Repr, BEq

inductive Loc where | path | query | header | cookie deriving Repr, BEq, DecidableEq
inductive Style where | simple | label | matrix | form | pipe | deep deriving Repr, BEq, DecidableEq
inductive Shape where | prim | arr | obj deriving Repr, BEq, DecidableEq

structure Cfg where
  loc : Loc
  style : Style
  explode : Bool
  shape : Shape
  name : Bytes

def isAlnum (c : UInt8) : Bool := (0x30 ≤ c && c ≤ 0x39) || (0x41 ≤ c && c ≤ 0x5a) || (0x61 ≤ c && c ≤ 0x7a)
def isMark (c : UInt8) : Bool := c == 0x2d || c == 0x5f || c == 0x2e || c == 0x7e
def hexU (n : UInt8) : UInt8 := if n < 10 then 0x30 + n else 0x41 + (n - 10)
def isHex (c : UInt8) : Bool := (0x30 ≤ c && c ≤ 0x39) || (0x61 ≤ c && c ≤ 0x66) || (0x41 ≤ c && c ≤ 0x46)
def unhex (c : UInt8) : UInt8 :=
  if 0x30 ≤ c && c ≤ 0x39 then c - 0x30 else if 0x61 ≤ c && c ≤ 0x66 then c - 0x61 + 10
  else if 0x41 ≤ c && c ≤ 0x46 then c - 0x41 + 10 else 0

/-- net/url shouldEscape for encodePathSegment -/
def escPathSeg (c : UInt8) : Bool :=
  if isAlnum c || isMark c then false
  else if c == 0x24 || c == 0x26 || c == 0x2b || c == 0x3a || c == 0x3d || c == 0x40 then false  -- $ & + : = @
  else true
/-- net/url shouldEscape for encodeQueryComponent -/
def escQuery (c : UInt8) : Bool := !(isAlnum c || isMark c)

def pathEscape : Bytes → Bytes
  | [] => []
  | c :: cs => if escPathSeg c then 0x25 :: hexU (c >>> 4) :: hexU (c &&& 15) :: pathEscape cs else c :: pathEscape cs

def pctUnescape (plusIsSpace : Bool) : Bytes → Option Bytes
  | [] => some []
  | c :: cs =>
    if c == 0x25 then
      match cs with
      | a :: b :: rest => if isHex a && isHex b then (pctUnescape plusIsSpace rest).map ((unhex a <<< 4 ||| unhex b) :: ·) else none
      | _ => none
    else if c == 0x2b && plusIsSpace then (pctUnescape plusIsSpace cs).map (0x20 :: ·)
    else (pctUnescape plusIsSpace cs).map (c :: ·)

def contains (s : Bytes) (c : UInt8) : Bool := s.any (· == c)

/-- strings.Cut -/
def cut (sep : UInt8) : Bytes → Bytes × Option Bytes
  | [] => ([], none)
  | c :: cs => if c == sep then ([], some cs) else let (a, b) := cut sep cs; (c :: a, b)

def join (sep : UInt8) : List Bytes → Bytes
  | [] => []
  | [x] => x
  | x :: xs => x ++ sep :: join sep xs

/-- strings.Split (never empty result) -/
def splitAux (sep : UInt8) : Bytes → Bytes → List Bytes
  | [], cur => [cur.reverse]
  | c :: cs, cur => if c == sep then cur.reverse :: splitAux sep cs [] else splitAux sep cs (c :: cur)
def split (sep : UInt8) (s : Bytes) : List Bytes := splitAux sep s []

/-- cursor.readValue on the remaining input: none = io.EOF -/
def readValue (sep : UInt8) (rest : Bytes) : Option (Bytes × Bool × Bytes) :=
  match cut sep rest with
  | (before, none) => if before.isEmpty then none else some (before, false, [])
  | (before, some r) => some (before, true, r)

/-- cursor.readUntil -/
def readUntil (sep : UInt8) (rest : Bytes) : Option (Bytes × Bytes) :=
  match cut sep rest with
  | (_, none) => none
  | (before, some r) => some (before, r)

def eat (c : UInt8) : Bytes → Option Bytes
  | d :: ds => if d == c then some ds else none
  | [] => none

def readAll (rest : Bytes) : Option Bytes := if rest.isEmpty then none else some rest

def parseArray (fuel : Nat) (delim : UInt8) (rest : Bytes) : Option (List Bytes) :=
  match fuel with
  | 0 => none
  | fuel + 1 =>
    match readValue delim rest with
    | none => none
    | some (v, hasNext, r) => if hasNext then (parseArray fuel delim r).map (v :: ·) else some [v]

def decodeObject (fuel : Nat) (kv fs : UInt8) (rest : Bytes) : Option (List (Bytes × Bytes)) :=
  match fuel with
  | 0 => none
  | fuel + 1 =>
    match readValue kv rest with
    | none => none
    | some (k, _, r) =>
      match readValue fs r with
      | none => none
      | some (v, hasNext, r') => if hasNext then (decodeObject fuel kv fs r').map ((k, v) :: ·) else some [(k, v)]

def encodeObject (kv fs : UInt8) : List (Bytes × Bytes) → Bytes
  | [] => []
  | [(k, v)] => k ++ kv :: v
  | (k, v) :: rest => k ++ kv :: v ++ fs :: encodeObject kv fs rest

def objSeps (st : Style) (explode : Bool) : UInt8 × UInt8 :=
  if !explode then (0x2c, 0x2c) else
  match st with
  | .simple => (0x3d, 0x2c)
  | .label => (0x3d, 0x2e)
  | .matrix => (0x3d, 0x3b)
  | _ => (0x2c, 0x2c)

/-! ### path -/
def pathEnc (c : Cfg) (v : Val) : Except Out Bytes :=
  let param := pathEscape c.name
  if c.style == .matrix && contains param 0x3d then .error .encErr else
  match v with
  | .prim s =>
    let e := pathEscape s
    .ok (match c.style with | .label => 0x2e :: e | .matrix => 0x3b :: param ++ 0x3d :: e | _ => e)
  | .arr items =>
    let ch : UInt8 := match c.style with
      | .label => if c.explode then 0x2e else 0x2c
      | .matrix => if c.explode then 0x3b else 0x2c
      | _ => 0x2c
    if items.any (fun it => contains it ch) then .error .encErr else
    let es := items.map pathEscape
    .ok (match c.style with
      | .label => 0x2e :: join (if c.explode then 0x2e else 0x2c) es
      | .matrix =>
        if !c.explode then 0x3b :: param ++ 0x3d :: join 0x2c es
        else
          let pre := 0x3b :: param ++ [0x3d]
          pre ++ (List.intercalate pre es)
      | _ => join 0x2c es)
  | .obj fields =>
    if fields.isEmpty then .error .encErr else   -- typeNotSet: "encoder was not called, no value" (an error since the D13 fix)
    let (kv, fs) := objSeps c.style c.explode
    if fields.any (fun (k, v) => contains k kv || contains v fs) then .error .encErr else
    let es := fields.map (fun (k, v) => (pathEscape k, pathEscape v))
    .ok (match c.style with
      | .label => 0x2e :: encodeObject kv fs es
      | .matrix => if !c.explode then 0x3b :: param ++ 0x3d :: encodeObject 0x2c 0x2c es else 0x3b :: encodeObject 0x3d 0x3b es
      | _ => encodeObject kv fs es)

def pathDec (c : Cfg) (wire : Bytes) : Out :=
  match pctUnescape false wire with
  | none => .decErr
  | some un =>
    if un.isEmpty then .decErr else
    let fuel := un.length + 2
    let r : Option Val :=
      match c.shape with
      | .prim =>
        match c.style with
        | .label => (eat 0x2e un).bind readAll |>.map .prim
        | .matrix => do
          let r ← eat 0x3b un
          let (p, r) ← readUntil 0x3d r
          if p != c.name then none else (readAll r).map .prim
        | _ => (readAll un).map .prim
      | .arr =>
        match c.style with
        | .label => (eat 0x2e un).bind (parseArray fuel (if c.explode then 0x2e else 0x2c)) |>.map .arr
        | .matrix => do
          let r ← eat 0x3b un
          if !c.explode then
            let (p, hasNext, r) ← readValue 0x3d r
            if p != c.name || !hasNext then none else (parseArray fuel 0x2c r).map .arr
          else
            let rec loop (fuel : Nat) (r : Bytes) : Option (List Bytes) :=
              match fuel with
              | 0 => none
              | fuel + 1 => do
                let (p, hasNext, r) ← readValue 0x3d r
                if p != c.name || !hasNext then none else
                let (v, hasNext, r) ← readValue 0x3b r
                if hasNext then (loop fuel r).map (v :: ·) else some [v]
            (loop fuel r).map .arr
        | _ => (parseArray fuel 0x2c un).map .arr
      | .obj =>
        let (kv, fs) := objSeps c.style c.explode
        match c.style with
        | .label => (eat 0x2e un).bind (decodeObject fuel kv fs) |>.map .obj
        | .matrix => do
          let r ← eat 0x3b un
          if !c.explode then
            let (p, r) ← readUntil 0x3d r
            if p != c.name then none else (decodeObject fuel 0x2c 0x2c r).map .obj
          else (decodeObject fuel 0x3d 0x3b r).map .obj
        | _ => (decodeObject fuel kv fs un).map .obj
    match r with
    | some v => .ok v
    | none => .decErr

/-! ### query: url.Values as association list with map semantics -/
abbrev Values := List (Bytes × List Bytes)
def Values.set (vs : Values) (k : Bytes) (v : List Bytes) : Values := (vs.filter (·.1 != k)) ++ [(k, v)]
def Values.get? (vs : Values) (k : Bytes) : Option (List Bytes) := (vs.find? (·.1 == k)).map (·.2)
/-- Values.Encode ∘ ParseQuery: keys without values disappear -/
def Values.transport (vs : Values) : Values := vs.filter (fun kv => !kv.2.isEmpty)

def queryEnc (c : Cfg) (v : Val) : Except Out Values :=
  match v with
  | .prim s => if c.style == .form then .ok [(c.name, [s])] else .error .panic
  | .arr items =>
    match c.style with
    | .form | .pipe =>
      if c.explode then .ok [(c.name, items)] else
      let sep : UInt8 := if c.style == .form then 0x2c else 0x7c
      if items.any (fun it => contains it sep) then .error .encErr else .ok [(c.name, [join sep items])]
    | _ => .error .panic
  | .obj fields =>
    -- note: with no EncodeField call the receiver stays typeNotSet and nothing is written
    if fields.isEmpty then .ok [] else
    match c.style with
    | .form =>
      if c.explode then .ok (fields.foldl (fun vs (k, v) => Values.set vs k [v]) [])
      else if fields.any (fun (k, v) => contains k 0x2c || contains v 0x2c) then .error .encErr
      else .ok [(c.name, [encodeObject 0x2c 0x2c fields])]
    | .deep =>
      if !c.explode then .error .panic
      else .ok (fields.foldl (fun vs (k, v) => Values.set vs (c.name ++ 0x5b :: k ++ [0x5d]) [v]) [])
    | _ => .error .panic

def queryDec (c : Cfg) (fieldNames : List Bytes) (vs : Values) : Out :=
  let qname (f : Bytes) : Bytes := if c.style == .deep then c.name ++ 0x5b :: f ++ [0x5d] else f
  let exploded := !fieldNames.isEmpty && c.explode && (c.style == .form || c.style == .deep)
  let present := if exploded then fieldNames.any (fun f => (vs.get? (qname f)).isSome) else (vs.get? c.name).isSome
  if !present then .absent else
  match c.shape with
  | .prim =>
    match vs.get? c.name with
    | some [x] => .ok (.prim x)
    | _ => .decErr
  | .arr =>
    match vs.get? c.name with
    | none => .decErr
    | some vals =>
      if c.explode then .ok (.arr vals) else
      match vals with
      | [x] =>
        if c.style == .form then (if x.isEmpty then .ok (.arr []) else .ok (.arr (split 0x2c x)))
        else .ok (.arr (split 0x7c x))
      | _ => .decErr
  | .obj =>
    if exploded || (c.explode && (c.style == .form || c.style == .deep)) then
      let r := fieldNames.foldl (fun (acc : Option (List (Bytes × Bytes))) f =>
        match acc with
        | none => none
        | some l =>
          match vs.get? (qname f) with
          | none | some [] => some l
          | some [x] => some (l ++ [(f, x)])
          | some _ => none) (some [])
      match r with | some l => .ok (.obj l) | none => .decErr
    else
      match vs.get? c.name with
      | some [x] => (match decodeObject (x.length + 2) 0x2c 0x2c x with | some l => .ok (.obj l) | none => .decErr)
      | some [] => .panic
      | _ => .decErr

/-! ### header (in-process: no OWS trimming) and cookie -/
def headerEnc (c : Cfg) (v : Val) : Except Out (Option Bytes) :=
  match v with
  | .prim s => .ok (some s)
  | .arr items => if items.any (fun it => contains it 0x2c) then .error .encErr else .ok (some (join 0x2c items))
  | .obj fields =>
    if fields.isEmpty then .ok none else
    let kv : UInt8 := if c.explode then 0x3d else 0x2c
    if fields.any (fun (k, v) => contains k kv || contains v 0x2c) then .error .encErr
    else .ok (some (encodeObject kv 0x2c fields))

def flatDec (c : Cfg) (kv : UInt8) (w : Option Bytes) : Out :=
  match w with
  | none => .absent
  | some s =>
    match c.shape with
    | .prim => .ok (.prim s)
    | .arr => .ok (.arr (split 0x2c s))
    | .obj => match decodeObject (s.length + 2) kv 0x2c s with | some l => .ok (.obj l) | none => .decErr

def cookieMustEscape (c : UInt8) : Bool :=
  c ≥ 128 || c ≤ 0x20 || c == 0x22 || c == 0x2c || c == 0x3b || c == 0x5c || c == 0x7f || c == 0x25
def escapeCookie : Bytes → Bytes
  | [] => []
  | c :: cs => if cookieMustEscape c then 0x25 :: hexU (c >>> 4) :: hexU (c &&& 15) :: escapeCookie cs else c :: escapeCookie cs

def cookieEnc (c : Cfg) (v : Val) : Except Out (Option Bytes) :=
  match v with
  | .prim s => .ok (some (escapeCookie s))
  | .arr items =>
    if c.explode then .error .panic
    else if items.any (fun it => contains it 0x2c) then .error .encErr else .ok (some (escapeCookie (join 0x2c items)))
  | .obj fields =>
    if fields.isEmpty then .ok none
    else if c.explode then .error .panic
    else if fields.any (fun (k, v) => contains k 0x2c || contains v 0x2c) then .error .encErr
    else .ok (some (escapeCookie (encodeObject 0x2c 0x2c fields)))

def roundTrip (c : Cfg) (v : Val) : Out :=
  match c.loc with
  | .path => match pathEnc c v with | .ok w => pathDec c w | .error e => e
  | .query =>
    let names := match v with | .obj fs => fs.map (·.1) | _ => []
    match queryEnc c v with | .ok w => queryDec c names w.transport | .error e => e
  | .header => match headerEnc c v with | .ok w => flatDec c (if c.explode then 0x3d else 0x2c) w | .error e => e
  | .cookie =>
    match cookieEnc c v with
    | .ok none => .absent
    | .ok (some w) => (match pctUnescape false w with | some u => flatDec c 0x2c (some u) | none => .decErr)
    | .error e => e

end Codec

namespace Codec
def hexVal (c : Char) : UInt8 :=
  if c.isDigit then (c.toNat - 48).toUInt8 else (c.toNat - 87).toUInt8
def parseHex : List Char → Bytes
  | a :: b :: rest => (hexVal a * 16 + hexVal b) :: parseHex rest
  | _ => []
def hx (s : String) : Bytes := parseHex s.toList
def hexDigitC (n : UInt8) : Char := if n < 10 then Char.ofNat (48 + n.toNat) else Char.ofNat (87 + n.toNat)
def toHex (bs : Bytes) : String := String.ofList (bs.flatMap fun b => [hexDigitC (b / 16), hexDigitC (b % 16)])

def parseVal (s : String) : Val :=
  match s.splitOn ":" with
  | [tag, body] =>
    let n := (tag.drop 1).toString.toNat!
    let parts := if n = 0 then [] else body.splitOn ";"
    if tag.startsWith "P" then .prim (hx body)
    else if tag.startsWith "A" then .arr (parts.map hx)
    else .obj (parts.map fun kv => match kv.splitOn "=" with | [k, v] => (hx k, hx v) | _ => ([], []))
  | _ => .prim []

def showVal : Val → String
  | .prim s => "P0:" ++ toHex s
  | .arr items => s!"A{items.length}:" ++ ";".intercalate (items.map toHex)
  | .obj fs => s!"O{fs.length}:" ++ ";".intercalate (fs.map fun (k, v) => toHex k ++ "=" ++ toHex v)

def normalize : Val → Val
  | v => v

/-- `validateParamStyle`'s table (openapi/parser/parse_parameter.go); tied to the code by exhaustive comparison over the whole location × style × explode × shape grid: the harness asks the real parser + generator whether a parameter of that configuration is accepted -/
def admitted (c : Cfg) : Bool :=
  match c.loc, c.style, c.explode, c.shape with
  | .path, .simple, _, _ | .path, .label, _, _ | .path, .matrix, _, _ => true
  | .query, .form, _, _ => true
  | .query, .pipe, _, .arr => true
  | .query, .deep, true, .obj => true
  | .header, .simple, _, _ => true
  | .cookie, .form, true, .prim => true
  | .cookie, .form, false, _ => true
  | _, _, _, _ => false


def parseCfg (loc style ex shape name : String) : Option Cfg :=
  let l := match loc with | "path" => some Loc.path | "query" => some .query | "header" => some .header | "cookie" => some .cookie | _ => none
  let st := match style with | "simple" => some Style.simple | "label" => some .label | "matrix" => some .matrix | "form" => some .form | "pipeDelimited" => some .pipe | "deepObject" => some .deep | _ => none
  let sh := match shape with | "prim" => some Shape.prim | "arr" => some .arr | "obj" => some .obj | _ => none
  match l, st, sh with
  | some l, some st, some sh => some ⟨l, st, ex == "true", sh, hx name⟩
  | _, _, _ => none

/-- `admitcfg <loc> <style> <explode> <shape>`; styles outside the model (spaceDelimited) are never admitted -/
def admitLine (line : String) : String :=
  match line.splitOn " " with
  | [loc, style, ex, shape] =>
    match parseCfg loc style ex shape "70" with
    | some c => if admitted c then "1" else "0"
    | none => "0"
  | _ => "bad-line"

/-- canonical rendering of what travels: path segment / sorted query multimap / header or cookie value -/
def wireOf (c : Cfg) (v : Val) : String :=
  match c.loc with
  | .path => match pathEnc c v with | .ok w => "w:" ++ toHex w | .error _ => "-"
  | .query =>
    match queryEnc c v with
    | .ok vs =>
      let items := vs.map fun (k, xs) => toHex k ++ "=" ++ ",".intercalate (xs.map toHex)
      "q:" ++ "&".intercalate (items.mergeSort (fun a b => a ≤ b))
    | .error _ => "-"
  | .header => match headerEnc c v with | .ok (some w) => "h:" ++ toHex w | .ok none => "none" | .error _ => "-"
  | .cookie => match cookieEnc c v with | .ok (some w) => "c:" ++ toHex w | .ok none => "none" | .error _ => "-"

def showOut : Out → String
  | .ok v => "ok " ++ showVal v
  | .encErr => "enc-err"
  | .decErr => "dec-err"
  | .absent => "absent"
  | .panic => "panic"

/-- `codec <loc> <style> <explode> <shape> <name hex> <value>`: outcome of the round trip and the wire -/
def runLine (line : String) : String :=
  match line.splitOn " " with
  | [loc, style, ex, shape, name, val] =>
    match parseCfg loc style ex shape name with
    | some c => let v := parseVal val; showOut (roundTrip c v) ++ " | " ++ wireOf c v
    | none => "bad-cfg"
  | _ => "bad-line"

/-- `cookie <hex>`: escapeCookie and unescape of the result -/
def cookieLine (line : String) : String :=
  let s := hx line.trimAscii.toString
  let e := escapeCookie s
  toHex e ++ " " ++ (match pctUnescape false e with | some u => toHex u | none => "err")

/-- `cookiebyte <hex byte>`: the escape table (`cookieEscapeChars` plus every byte ≥ 128) -/
def cookieByteLine (line : String) : String :=
  match hx line.trimAscii.toString with
  | [c] => if cookieMustEscape c then "1" else "0"
  | _ => "bad-byte"

/-- `uncookie <hex>`: unescapeCookie on arbitrary input -/
def uncookieLine (line : String) : String :=
  match pctUnescape false (hx line.trimAscii.toString) with | some u => "ok:" ++ toHex u | none => "err"
end Codec
