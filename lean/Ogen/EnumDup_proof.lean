import Ogen.JsonEqualFinal_proof
/-! Proof probe for C18, last clause: "a schema is rejected for duplicate enum values exactly when two members are the
    same value". Model of the scan in `jsonschema/parser.go` (all ordered pairs `i ≠ j`, errors of `Equal` ignored). -/
namespace EnumDup

theorem scan_iff {α} (eq : α → α → Bool) (l : List α) :
    scan eq l = true ↔ ∃ i j, ∃ (hi : i < l.length) (hj : j < l.length), i ≠ j ∧ eq l[i] l[j] = true := by
  unfold scan
  simp only [List.any_eq_true, Bool.and_eq_true, bne_iff_ne, ne_eq]
  constructor
  · rintro ⟨⟨a, i⟩, hai, ⟨b, j⟩, hbj, hne, heq⟩
    obtain ⟨hi, rfl⟩ : ∃ h : i < l.length, a = l[i] := by
      have := List.mem_zipIdx hai
      simp at this
      exact ⟨this.1, this.2⟩
    obtain ⟨hj, rfl⟩ : ∃ h : j < l.length, b = l[j] := by
      have := List.mem_zipIdx hbj
      simp at this
      exact ⟨this.1, this.2⟩
    exact ⟨i, j, hi, hj, hne, heq⟩
  · rintro ⟨i, j, hi, hj, hne, heq⟩
    refine ⟨(l[i], i), ?_, (l[j], j), ?_, hne, heq⟩
    · exact List.mem_zipIdx_iff_getElem?.mpr (by simp [hi])
    · exact List.mem_zipIdx_iff_getElem?.mpr (by simp [hj])

open JEqFinal in
/-- **C18 `enum_dup_iff`**: on well-formed enum members the scan rejects exactly when two members at different
    positions denote the same JSON value -/
theorem enum_dup_iff (l : List Json) (hwf : ∀ a ∈ l, WFJ a) :
    scan jsonEqual l = true ↔
      ∃ i j, ∃ (hi : i < l.length) (hj : j < l.length), i ≠ j ∧ SameValue l[i] l[j] := by
  rw [scan_iff]
  constructor
  · rintro ⟨i, j, hi, hj, hne, heq⟩
    exact ⟨i, j, hi, hj, hne, (eq_iff _ _ (hwf _ (List.getElem_mem hi)) (hwf _ (List.getElem_mem hj))).mp heq⟩
  · rintro ⟨i, j, hi, hj, hne, hs⟩
    exact ⟨i, j, hi, hj, hne, (eq_iff _ _ (hwf _ (List.getElem_mem hi)) (hwf _ (List.getElem_mem hj))).mpr hs⟩

#print axioms enum_dup_iff

open JEqFinal JEqNum in
/-- non-vacuity: `[1, "a", 1.0]` is rejected, `[1, "1"]` is not -/
example : scan jsonEqual [.num one, .str "a", .num ⟨false, [1], some [0], none⟩] = true := by decide
open JEqFinal JEqNum in
example : scan jsonEqual [.num one, .str "1"] = false := by decide
end EnumDup
