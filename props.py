"""Per-property configuration of ./check (Lean modules, correspondence suites, trusted base)."""

KERNEL = "Lean 4.33.0 kernel; axioms propext, Classical.choice, Quot.sound only (audited per theorem with #print axioms); no sorry/admit/native_decide/bv_decide (grep)"
GENCHECK = "gencheck: code regenerated from /repo's working tree by the generator linked into the harness, compiled in a scratch module with a glue file derived from the generated sources (go/ast over oas_unimplemented_gen.go / oas_security_gen.go) and driven over a JSON line protocol (harness/internal/gc, harness/gcrt)"
HARNESS = "the Go correspondence harness (/verif/harness: generators, canonicalisation, independent reference oracles) and the Lean line-protocol driver (lean/Main.lean)"

PROPS = {
    "C12": {
        "lean_modules": ["Ogen.Props.C12"],
        "suites": ["c12"],
        "trusted_base": [
            KERNEL, HARNESS,
            "statements in lean/Ogen/Props/C12.lean and the spec definitions they mention (Valid, Canon, octets, tokens/canonTok/render in Ogen/Norm_feasibility.lean)",
            "model Norm.normalize is hand-written from uri/normalize.go; tie = exhaustive equality on all 256 bytes for the five byte predicates + equality with uri.NormalizeEscapedPath on every string up to the tier's length over an 11-symbol alphabet + random byte strings",
            "router use of the normal form (router.tmpl) and parsePathItems' duplicate check are exercised on the implementation only (spec-key pairs here, request re-escapings under C05)",
        ],
        "assumptions": ["Go strings are byte sequences; strings.Builder/IndexByte behave as documented"],
        "level_text": "full: every clause of the property about NormalizeEscapedPath (total, invalid-iff, same octets, canonical, idempotent, equivalent spellings share a normal form) is a Lean theorem over all byte strings about a statement-level model; the model is tied to the code by exhaustive byte tables and bounded-exhaustive + random differential runs on every check",
        "level_note": "trusted: Lean kernel, the statements and spec definitions, the hand-written model's tie (differential, exhaustive to length 6/7 over one representative per byte class), the Go harness. Router and spec-key consequences are checked on the implementation, not proved.",
        "technique": "Lean 4 theorems (fun_induction + decide over Fin 256) on a hand-written model; model=code by exhaustive/differential correspondence",
    },
}

PROPS["C16"] = {
    "lean_modules": ["Ogen.Props.C16"],
    "suites": ["c16"],
    "trusted_base": [
        KERNEL, HARNESS,
        "statements in lean/Ogen/Props/C16.lean and the inductive specs TokOk, rfcIndex, Eval, Rfc, Pct, RfcAny (Ogen/JsonPointer_proof.lean), written from RFC 6901 §3-§6 and RFC 3986 §2.1",
        "model Ptr.resolve/find is hand-written from jsonpointer.go + split.go; tie = differential run against jsonpointer.Resolve on yaml.Node trees (every valid pointer in both spellings, single-edit mutants, random strings); strings.NewReplacer, strconv.ParseUint and url.PathUnescape are modelled, not verified",
        "the url.Parse branch (a URI reference that starts with neither / nor #) is outside the model; it is compared on the implementation with a net/url-based reference only",
    ],
    "assumptions": ["YAML alias nodes are not followed by Resolve (they are 'unexpected type'), documents are trees", "arrays have fewer than 2^64 elements (completeness only)"],
    "level_text": "full for the plain and #-fragment forms: resolve_iff (Resolve returns r iff RFC 6901 evaluation designates r), never_different without any hypothesis, tilde and percent decoding equal to the RFC grammars, for every document tree and every byte string; model tied to the code differentially on every run",
    "level_note": "trusted: Lean kernel, statements/specs, the differential tie of the hand-written model (strings.Replacer, ParseUint, PathUnescape are modelled), the harness. URI-reference inputs (url.Parse branch) are checked against a Go reference only.",
    "technique": "Lean 4 refinement proof (model of Resolve = inductive RFC 6901 evaluation relation); model=code by differential correspondence",
}

PROPS["C18"] = {
    "lean_modules": ["Ogen.Props.C18"],
    "suites": ["c18"],
    "trusted_base": [
        KERNEL + "; Mathlib (ℚ, zpow, Nat.digits) in JsonNumberValue_proof/JsonNumberLadder_proof and one Batteries lemma in JsonEqualEquiv_proof, all kernel-checked",
        HARNESS,
        "statements in lean/Ogen/Props/C18.lean; spec SameValue / valS / WFJ (JsonEqualStruct_proof, JsonNumberLadder_proof)",
        "model jsonEqual (JsonEqualGeneric_model + JsonNumberModel, core-only) is hand-written from json/equal.go, EnumDup.scan from jsonschema/parser.go parse1; tie = differential run on texts printed from random ASTs (re-spellings, near-equal mutants, independent values, duplicate-key stream) + all ordered pairs of a sign×int×frac×exp grid of number spellings + enum lists through parser.Parse",
        "jx's tokenizer/decoder (whitespace, string unescaping, number token boundaries) and math/big.Rat parsing are modelled by the AST abstraction, not verified; malformed texts are checked on the implementation only (never 'true')",
    ],
    "assumptions": ["texts denote values only if member names are unique (RFC 8259 leaves duplicates undefined) and strings are valid Unicode (jx replaces lone surrogates by U+FFFD)", "|exponent| small enough for big.Rat (math/big refuses beyond 10^6)"],
    "level_text": "full on well-formed texts: eq_iff (Equal ⇔ same JSON value with numbers as exact rationals and objects as unordered maps), reflexive/symmetric/transitive, number ladder = rational equality, enum_dup_iff; all over ASTs of any size. The text layer is tied differentially; malformed texts are an implementation-only stream.",
    "level_note": "trusted: Lean kernel (+Mathlib/Batteries lemmas it checks), statements/specs, AST abstraction of jx's text layer, differential tie, harness.",
    "technique": "Lean 4 proof that the comparison algorithm decides a denotational SameValue relation (ℚ for numbers); model=code by differential correspondence on printed ASTs",
}

PROPS["C06"] = {
    "lean_modules": ["Ogen.Props.C06"],
    "suites": ["c06"],
    "trusted_base": [
        KERNEL, HARNESS, GENCHECK,
        "statements in lean/Ogen/Props/C06.lean; spec predicates Fits, inKnownClass, CorePath/CoreFlat/CoreQuery, pathWire (Ogen/ParamNeverWrong_proof, PathCoreDelivered_proof, FlatQueryCoreDelivered_proof, PathNeverWrong_proof)",
        "model Codec.* (Ogen/UriCodecLib.lean) is hand-written from uri/*.go; tie = (a) the admission table compared with ogen.Parse+gen.NewGenerator on the whole 168-cell grid, (b) cookieEscapeChars on all 256 bytes, (c) differential run of outcome AND wire through the public uri.New*Encoder/Decoder API for every expressible configuration (also non-admitted ones, where model and code must both panic) over an adversarial value matrix and random byte strings",
        "net/url (PathEscape/PathUnescape, Values.Encode, ParseQuery) and net/http header/cookie handling are modelled, not verified; the style-table clause is proved for the path location (path_style_table) and checked against an independent Go reference serializer (OpenAPI 3.0.3 style examples, RFC 6570 reading of label/explode=false) for all four locations",
    ],
    "assumptions": ["object field names are distinct (property names of one schema)", "header values travel in-process in the uri-level runs; the regenerated client/server run of nullable parameters goes through HTTP, where optional-whitespace trimming (K4) applies"],
    "level_text": "full for the model except one carve-out: no_panic for every admitted configuration and value (decoders on arbitrary wire), never_wrong_partial (a decoded value is the encoded one, except W1–W4, refuted as witnesses and recorded as known finding K1), core_delivered for all four locations, path_style_table, delimiter refusal, cookie_inverse — all for byte strings and collections of any size; model tied to the code exhaustively (admission grid, escape table) and differentially (outcome and wire)",
    "level_note": "trusted: Lean kernel, statements/specs, hand-written model + its ties, net/url and net/http behaviour as modelled, harness. Known finding K1 (W1–W4).",
    "technique": "Lean 4 round-trip theorems (encode → transport → decode) over a byte-level model of the uri codecs; model=code by exhaustive admission grid + differential correspondence of outcomes and wires",
}

PROPS["C13"] = {
    "lean_modules": ["Ogen.Props.C13"],
    "suites": ["c13"],
    "facts": ["float"],
    "trusted_base": [
        KERNEL, HARNESS,
        "statements in lean/Ogen/Props/C13.lean; model IntRT (digit loop of FormatInt/FormatUint, syntax+range of ParseInt/ParseUint, FormatBool/ParseBool) hand-written from strconv's documented behaviour; tie = line-by-line comparison with conv.Int64ToString/Uint64ToString and conv.ToInt*/ToUint* (all widths) on boundary/random values and hostile strings",
        "model UnixT (time.Unix normalisation, UnixMilli/UnixMicro with Go's truncating / and %, the four accessors) hand-written; tie = conv.ToUnix*/Unix*ToString on boundary and random int64 values compared line by line ((sec, nsec) of the parsed instant and the text it prints back)",
        "the fact translator harness/cmd/extract: Ogen/Generated/Facts_float.lean — for every float text helper of conv and json the unique (verb, precision, bit size) whose strconv.FormatFloat reproduces the helper of the working tree (linked into the translator) on probe values that tell all candidates apart — regenerated on every run; float_spec_ok is stated over it",
        "generated code: one query and one header parameter per declared format through a regenerated client and server — the text on the wire is compared with the text the format prescribes (computed with the standard library in the harness), the value that arrives with the value sent",
        "model UuidT (json.hexEncode — ogen's own UUID writer — and the 36-byte branch of uuid.ParseBytes) hand-written; tie = json.EncodeUUID and conv.UUIDToString on every octet value at every position and random UUIDs, uuid.ParseBytes / json.DecodeUUID on canonical texts and one-byte mutants, line by line",
        "model DurT (json.formatDuration — ogen's port of Duration.String — with fmtFrac's digit loop; DurT.value = the reading of a duration text that time.ParseDuration documents, exact arithmetic, int64 range check) hand-written; tie = json.EncodeDuration and conv.DurationToString on boundary and random int64 values (all magnitudes, round values), time.ParseDuration on the written texts and one-byte mutants of them (restricted to fractions that time.ParseDuration's float64 arithmetic computes exactly: no more fraction digits than the unit has decimal places)",
        "NOT proved (standard-library contracts, exercised on the implementation only): ParseFloat∘FormatFloat(-1, bits), time.Parse∘Format for the date/time/date-time layouts, the other input forms of uuid.Parse, netip/MAC/url round trips",
    ],
    "assumptions": ["non-finite floats are outside the domain", "date-time/time resolution is one second (the layouts carry no fraction); years 0–9999"],
    "level_text": "partial: uint_rt/int_rt (every value of every width, parametric in the bit size), int_syntax, bool_rt, unix_text_value_text / unix_value_text_value / unix_exact (all four units, negative instants included), uuid_rt / uuid_syntax / uuid_text_injective (ogen's own hexEncode against the parser's 36-byte branch), duration_rt / duration_fraction_canonical (ogen's formatDuration against the documented reading of a duration text, every int64) are Lean theorems about models tied to the code differentially; float_spec_ok is a theorem over facts regenerated from the source (shortest-round-trip formatting is what every float helper asks strconv for); every other helper pair (floats, durations, times, UUID, IP, MAC, URL; conv and json) is checked on the implementation only — exhaustive for 8/16-bit integers and booleans, boundary + random elsewhere — because it rests on stdlib contracts the model does not contain",
    "level_note": "trusted: Lean kernel, statements, model of strconv integer/boolean text + its differential tie, the Go harness; stdlib float/time/uuid/netip/url contracts are assumptions tested on every run, not theorems.",
    "technique": "Lean 4 round-trip theorems for integer/boolean text, parametric in the width; differential tie to conv; implementation-only exhaustive/random round trips for stdlib-backed formats",
}


PROPS["C05"] = {
    "lean_modules": ["Ogen.Props.C05"],
    "suites": ["c05"],
    "timeout": 3600,
    "trusted_base": [
        KERNEL, HARNESS, GENCHECK,
        "statements in lean/Ogen/Props/C05.lean; spec vocabulary Syms/Fill/tb/FitsArgs/NoAdj/SegParams (Ogen/RouterBuildNoJunk_proof, RouterEndToEnd_proof, RouterNoSlash_proof)",
        "model Tree.insert/buildFrom/edge/serve is hand-written from gen/route_tree.go, route_node.go, router.go and gen/_template/router.tmpl; tie = (a) trees built by the real gen.Router.Add dumped through Walk and compared node by node with the Lean insert on thousands of route sets incl. refused insertions, (b) FindPath/ServeHTTP of regenerated, compiled routers compared with edge/serve on every short path over each set's alphabet and on template instances, near misses; the template expansion text/template → Go is part of what (b) validates, not modelled",
        "path prefix, escaped re-spellings and FindPath = ServeHTTP agreement are checked on the implementation (with an independent template-instance reference), not proved",
    ],
    "assumptions": ["no two parameters in a row (NoAdj; checkRoutePath refuses them)", "completeness is path-level: the instance reaches a node whose template it instantiates (a dispatch, or 405 when the method is undefined there)"],
    "level_text": "full for the model except one carve-out: dispatch_sound, static_wins, complete (with the D5 restore), allow_exact, stored_inserted for the tree built from any route list in any order and any path; no_slash_partial needs SegParams, its negation is the decided witness k5 (known finding K5, pinned by the suite), empty arguments are K7. Model tied to gen.Router.Add (trees) and to regenerated compiled routers (matching) on every run.",
    "level_note": "trusted: Lean kernel, statements/specs, hand-written model + ties, the gencheck pipeline, net/http. Known findings K5, K7.",
    "technique": "Lean 4 invariant proofs over route insertion (noJunk, present, distinct heads) + soundness/completeness of the unrolled matcher; model=code by tree dumps and by differential runs against regenerated, compiled routers",
}

PROPS["C09"] = {
    "lean_modules": ["Ogen.Props.C09"],
    "suites": ["c09"],
    "facts": ["tmpl"],
    "timeout": 3600,
    "trusted_base": [
        KERNEL, HARNESS, GENCHECK,
        "statements in lean/Ogen/Props/C09.lean (AltAccepted, Outcome) and the model Sec.* (SecurityMask_proof, SecurityHandler_proof), hand-written from internal/bitset, gen/gen_security.go and the security block of gen/_template/handlers.tmpl",
        "tie = (a) the IR's requirement masks of every generated operation compared with the model's maskOf and the scheme index assignment compared with first-occurrence order, (b) regenerated, compiled servers with a scripted SecurityHandler: handler-invoked/401 compared with secDecide for all 4^n outcome vectors (n ≤ 4) and random vectors up to 20 schemes, incl. global requirement, operation-level override and `security: []`, with and without a shared default error response (convenient errors route the failure through NewError); exactly one response per request",
        "the fact translator harness/cmd/extract (text level): Ogen/Generated/Facts_tmpl.lean — the bit-set statements of handlers.tmpl; facts_mask_statements is stated over it",
        "credential extraction per scheme kind (apiKey header/query/cookie, basic, bearer, oauth2+scopes) is NOT modelled: SecuritySource → SecurityHandler equality is checked on the implementation through the generated client over a real HTTP round trip",
    ],
    "assumptions": ["scheme outcomes are what the user's SecurityHandler returns; 'presented credentials' = the header/query/cookie is present"],
    "level_text": "full safety / partial liveness on the model: mask_semantics for any number of schemes, satisfied_iff, handler_only_if (handler ⇒ some alternative fully accepted and no scheme error), handler_if_partial (needs 'no scheme handler returned an error'; the full converse is refuted by the decided witnesses k2, known finding K2), else_unauthorized, anonymous. Credential round trip: implementation-only, with known findings K10 (cookie apiKey bytes dropped), K11 (basic user with ':'), K4 (header OWS).",
    "level_note": "trusted: Lean kernel, statements, hand-written model + ties, gencheck pipeline, net/http. Known findings K2, K10, K11, K4.",
    "technique": "Lean 4 proofs of bit-mask arithmetic for arbitrary-length bitsets and of the requirement decision logic; model=code by IR mask comparison and differential runs against regenerated servers with scripted scheme outcomes",
}

PROPS["C03"] = {
    "lean_modules": ["Ogen.Props.C03"],
    "suites": ["c03"],
    "timeout": 3600,
    "trusted_base": [
        KERNEL, HARNESS, GENCHECK,
        "statements in lean/Ogen/Props/C03.lean; models ValidateM.intValidate (BitVec 64, literal incl. the v *= -1 wrap and Go's divide-by-zero panic), ArrVal.validateLength/uniqueItems, IntBounds.propsOk, Sec.missingAny, FloatV.validate (over the exact rational value of a double, decoded from its bit pattern by FloatV.ofBits; Mathlib's ℚ lemmas in FloatValidate_proof) — hand-written from validate/*.go and the generated required-mask loop; tie = line-by-line comparison with the real validate.Int/Float/Array/String/Object/UniqueItems on boundary grids and random bit patterns",
        "the reference validator of the harness (cmd/corr/schema.go: JSON Schema draft 4 + nullable for the keyword fragment, exact rationals) is the oracle for regenerated servers; it is independent of ogen but itself only tested",
        "model JCodec.accept = decode-then-validate (lean/Ogen/JsonCodecModel.lean) hand-written from the struct / generic / array codec templates and gen/_template/validators.tmpl for the fragment objects (required / optional × nullable members), arrays (nullable items, item counts), integers (bounds, exclusive flags, multipleOf), strings (length in code points), booleans; tie = regenerated *servers* of random schemas of the fragment answer random bodies (valid in every member order, values on keyword boundaries, single-fault mutants) with the handler or 400 exactly as the model says (driver tag jaccept) and as the reference validator says",
        "NOT proved: schema → validator translation outside that fragment (gen/ir/validation.go), needValidation, additionalProperties handling, sum types, formats, regex matching, numbers other than integers in the composed model",
    ],
    "assumptions": ["OpenAPI 3.0 reading of `integer`: a number without fraction or exponent part, within the range of its format (int32; int64 and no format: 64 bits)", "multipleOf ≠ 0 (the generator refuses 0)"],
    "level_text": "partial: server_accepts_iff_valid — on the model of the generated decode-then-Validate path for the fragment objects / arrays / integers with bounds and multipleOf / strings with lengths / booleans / required / nullable, the verdict is validity against the schema, for schemas and documents of any size — and the leaf validators and the required-mask arithmetic are Lean theorems for every value (int_validate_iff on all of int64, float_validate_iff on every finite double as an exact rational, length_iff, props_iff, unique_iff, required_mask_iff); 'accept iff valid' for whole schemas is decided on every run by posting schema-directed valid instances, single-keyword boundary mutants and random JSON to regenerated servers and comparing (status, handler-invoked) with an independent reference validator — a correspondence, not a theorem; allOf_bounds_iff / allOf_counts_iff: the numeric-bound and count blocks of the allOf merge (gen.mergeSchemes) accept exactly what both members accept, tied through verif hooks on exhaustive grids incl. the neighbours of 2^53; allOf_enum_iff / allOf_enum_refused_iff (enum lists) and allOf_required_iff_partial / allOf_required_n_iff_partial / allOf_property_order (properties and required lists, for two members and for the left fold over any number of members) say the same for those blocks, tied through the hooks gen.VerifMergeEnums / VerifMergeProperties / VerifMergeNProperties",
    "level_note": "trusted: Lean kernel, statements, leaf models + their differential tie, the harness' reference validator and schema/instance generators, gencheck pipeline.",
    "technique": "Lean 4 proofs of the runtime validators on BitVec 64/Int and of the required bit mask; generated decode-and-validate path checked differentially against an independent reference validator on regenerated servers",
}

PROPS["C04"] = {
    "lean_modules": ["Ogen.Props.C04"],
    "suites": ["c04"],
    "facts": ["tmpl"],
    "timeout": 3600,
    "trusted_base": [
        KERNEL, HARNESS, GENCHECK,
        "statements in lean/Ogen/Props/C04.lean; model OptNil.* hand-written from the generated OptNilT codec (gen/_template/json/encoders_generic.tmpl, encoders_struct.tmpl); its tie is the canonical-state comparison of every wrapper in the differential run below",
        "the reference validator and the type-directed random value builder (harness/gcrt/rand.go) define the explored domain: additional-property keys never collide with declared property names; jx.Raw members hold well-formed JSON",
        "model JCodec.* (lean/Ogen/JsonCodecModel.lean) hand-written from gen/_template/json/encoders_struct.tmpl, encoders_generic.tmpl, encode.tmpl, decode.tmpl for the fragment integers / strings / booleans / arrays with possibly nullable items / objects with named properties (required or optional, nullable or not), over JSON syntax trees with unique member names; tie = regenerated types of random schemas of the fragment decode and re-encode random documents (valid in every member order with undeclared members; single-fault mutants) exactly as the model does (driver tag jcodec), and as a Go reference validator says",
        "NOT proved: maps, sums, numbers other than integers, formats, validators, jx's tokenizer and writer, duplicate member names (the generated decoder merges a repeated object member into the first, the model decodes it afresh — never sent) — decided on regenerated code on every run",
    ],
    "assumptions": ["values are compared through canonical accessors (nil = empty collection inside a set wrapper; an unset wrapper has no JSON of its own)"],
    "level_text": "partial: three_states / states_distinct / decode_canonical for the Opt/Nil/OptNil wrapper, and for the object/array/wrapper fragment of the codec codec_round_trip (decode ∘ encode = id on values of the type), codec_output_valid (the encoding is admitted by the schema), codec_accepts_iff_valid (the decoder accepts exactly the schema-valid documents), codec_decodes_only_values, codec_canonical are Lean theorems over types and documents of any size; 'every value that passes its own validation encodes to JSON valid against the schema and decodes to an equal value' is decided on every run on regenerated code (random typed values incl. every wrapper state, nil/empty/non-empty collections, extreme numbers, escape-heavy strings, recursion; plus schema-directed instances), with known finding D15",
    "level_note": "trusted: Lean kernel, statements, wrapper model, reference validator, random value builder, gencheck pipeline. Known finding D15.",
    "technique": "Lean 4 proof of wrapper-state preservation; generated codecs checked by type-directed round trips and reference validation on regenerated code",
}

PROPS["C15"] = {
    "lean_modules": ["Ogen.Props.C15"],
    "suites": ["c15"],
    "facts": ["tmpl", "errors"],
    "timeout": 3600,
    "trusted_base": [
        KERNEL, HARNESS, GENCHECK,
        "statements in lean/Ogen/Props/C15.lean; model Stages.handle hand-written from gen/_template/handlers.tmpl and ogenerrors/handler.go; tie = requests that fail at a chosen stage (and every handler outcome) sent to a regenerated server, (status, handler-invoked) compared with the model line by line",
        "the fact translator harness/cmd/extract (text level): Ogen/Generated/Facts_tmpl.lean — order of the stage markers in handlers.tmpl, the number of `return` statements after each failing stage, the optional-body shortcut (read with go/ast off the Go the generator of the working tree writes for a probe document: the && conjuncts of its condition, normalised); Facts_errors.lean — the status each ogenerrors type reports and the cases of ErrorCode (go/ast); facts_stage_order, facts_optional_body and facts_status_codes are stated over them",
        "further regenerated servers: conjunctive and alternative security requirements, an optional request body with missing / wrong content types, parameter shapes without serialization (must be refused by the generator; a server generated anyway is driven), stage failures with convenient errors active",
        "NOT proved: that the decoders themselves never panic on arbitrary bytes (jx, net/http, generated decoders) — checked on the implementation with byte-level mutations of valid requests, hand-built *http.Request values that bypass URL validation and random bodies; the over-acceptance oracle of that stream is a hand-written reference for one operation",
    ],
    "assumptions": ["the query parameter stage sees net/url's parsed multimap (malformed pairs already dropped: known finding K9)"],
    "level_text": "partial: one_response, no_overaccept, stage_status and handler_error_status are Lean theorems about the stage machine; its tie is a differential run against a regenerated server; byte-level robustness (no panic, one WriteHeader, handler only for reference-valid requests) is implementation-only",
    "level_note": "trusted: Lean kernel, statements, stage model + tie, gencheck pipeline, net/http. Known finding K9.",
    "technique": "Lean 4 proof over a stage-machine model of the generated request handler; model=code by differential runs with stage-targeted malformed requests against a regenerated server; mutation stream on the implementation",
}

PROPS["C01"] = {
    "lean_modules": ["Ogen.Props.C01"],
    "suites": ["c01"],
    "timeout": 3600,
    "trusted_base": [
        KERNEL, HARNESS, GENCHECK,
        "statements in lean/Ogen/Props/C01.lean; models of C06 (Codec.*) and C13 (IntRT.*) with their own ties, plus Exchange.decodeParam / select / statusOf hand-written from gen/_template/parameter_decode.tmpl, response_encode.tmpl, response_decode.tmpl; tie of `select` = the type of the value a regenerated client decodes for pattern/default variants carrying a grid of statuses",
        "the exchange itself is decided on regenerated code: canonical forms of the caller's arguments, the recording handler's arguments, the middleware's map and the returned/decoded response values are compared for identity (floats by bits, wrappers by state)",
        "NOT proved: bodies and media types, response headers, the middleware map, webhooks, generator feature configurations other than the default",
    ],
    "assumptions": ["object parameter fields are the declared properties", "handlers return statuses that may carry the variant's body"],
    "level_text": "partial, by composition: param_never_wrong_partial (= C06), int_param_never_wrong (C13 ∘ C06 end to end), absent_default / absent_required / present_never_default, response_select_inverse_partial + select_sound with the decided K3 witness. Everything else of the exchange (every admitted location × style × explode × shape × {string,int64,double,bool} × {required, optional, default}, JSON bodies of the C03 schema family, every response variant with headers) is decided on regenerated clients and servers on every run, with known findings W1–W4, K4, K3.",
    "level_note": "trusted: Lean kernel, statements, the composed models and their ties, gencheck pipeline, net/http. Known findings K1 (W1–W4), K3, K4.",
    "technique": "Lean 4 composition of the codec and text-form theorems + decision-logic proofs for presence/defaults and response-variant selection; end-to-end identity checks on regenerated client/server pairs",
}

PROPS["C07"] = {
    "lean_modules": ["Ogen.Props.C07"],
    "suites": ["c07"],
    "trusted_base": [
        KERNEL, HARNESS,
        "statements in lean/Ogen/Props/C07.lean; spec Reaches/Path/Transparent; model RefChain.resolve/resolveAll hand-written from openapi/parser/resolve.go (resolveComponent, resolveHeader) and jsonpointer/resolve_ctx.go (AddKey/Delete); tie = header components that are $ref chains (forests + one defect: dangling, self-cycle, two-cycle) with shared targets and depth limits 1–6 parsed by parser.Parse, outcome per referrer (name, payload) or error kind compared with resolveAll line by line",
        "NOT modelled: schema references (recursive types), external files / URL-relative keys, expand.go; transparency for every component kind (schema, parameter, header, response, requestBody, pathItem) is decided on the implementation: each random document is compared with its fully inlined copy, a randomly partially inlined copy and a second parse of itself through a structural projection ignoring Ref/location fields",
    ],
    "assumptions": ["component payloads are trees; the error kind is compared only for documents with at most one defective chain (otherwise it depends on Go map order which error is met first)"],
    "level_text": "partial (abstract resolver for one context-carrying component kind): resolve_sound (own name + inlined payload, whatever the cache holds), resolveAll_transparent (k ≥ 2 referrers, order-independent), no_payload_error (cycles/dangling refs ⇒ error; totality is by construction), resolve_complete (acyclic within depth ⇒ resolves), D9 before/after witnesses; model tied differentially to parser.Parse; all-kinds transparency by inlining is implementation-only",
    "level_note": "trusted: Lean kernel, statements/specs, chain model + tie, inlining oracle of the harness.",
    "technique": "Lean 4 invariant proof over a cache in front of a recursive resolver (Inv preserved; soundness/completeness w.r.t. an inductive inlining relation); model=code by differential runs through parser.Parse; inlining equivalence on the implementation",
}

PROPS["C20"] = {
    "lean_modules": ["Ogen.Props.C20"],
    "suites": ["c20"],
    "facts": ["cli"],
    "trusted_base": [
        KERNEL, HARNESS,
        "the fact translator harness/cmd/extract: Ogen/Generated/Facts_cli.lean is regenerated on every run — source order of the calls in generate() (go/ast over cmd/ogen/main.go, same-file helpers inlined at their call site) and cleanDir's suffix/prefix lists (observed: the built binary cleans a probe directory of 11 candidate prefixes × 12 candidate suffixes; the removed set must be a product); theorems facts_order_ok, facts_filter_eq, facts_no_recursive_remove are stated over it",
        "statements in lean/Ogen/Props/C20.lean; model Cli.run/cleanDir/writeFiles (Ogen/CliStages_proof.lean) hand-written; second tie = the built cmd/ogen binary run for 13 stages × 5 target states × {--clean, no --clean}, top-level outcome compared with the model, recursive snapshots checked on the implementation",
        "NOT modelled: OS semantics (permissions, read-only files, partial writes after writing started), what gen.NewGenerator itself writes (expand: — known finding K6)",
    ],
    "assumptions": ["every pre-write failure stage happens before gen.NewGenerator returns (checked per stage against the binary)"],
    "level_text": "partial (CLI state machine): prewrite_failure_untouched for every directory state and both --clean values, clean_only_own, others_survive — with the stage order and the cleanDir filter taken from facts regenerated from the source on every run (facts_order_ok, facts_filter_eq) and the whole machine compared with the built binary; K6 is the recorded exception",
    "level_note": "trusted: Lean kernel, statements, the go/ast fact translator, stage model + binary tie. Known finding K6.",
    "technique": "Lean 4 proof over a stage-machine model whose stage order and file filter are regenerated from cmd/ogen/main.go by a go/ast translator; differential runs against the built binary with recursive directory snapshots",
}

PROPS["C02"] = {
    "lean_modules": ["Ogen.Props.C02"],
    "suites": ["c02"],
    "facts": ["naming"],
    "timeout": 2400,
    "trusted_base": [
        KERNEL, HARNESS, GENCHECK,
        "the fact translator harness/cmd/extract: Ogen/Generated/Facts_naming.lean (the rule table of internal/naming/rules.go as code-point lists) regenerated on every run; facts_rules_ok is stated over it",
        "statements in lean/Ogen/Props/C02.lean; models NameGen (gen/names.go: generate/clean/isAllowed/checkPart/namedChar, R-prefix, token.IsIdentifier restricted to what can occur) and TStore (gen/tstorage.go: saveType/saveRef/saveWType/merge over a name table) hand-written; tie = the hooks gen.VerifPascal/VerifPascalSpecial/VerifCleanSpecial/VerifTStorageRun run on every Unicode scalar value as a one-rune name (quick: U+0000-U+2FFF and every rune with a non-identity case mapping), on random hostile names and on random operation sequences, compared line by line with the Lean driver",
        "unicode.ToLower/ToUpper are modelled on ASCII plus U+0130 and U+212A (the only non-ASCII code points whose lower-case form is an ASCII letter) — this is exactly what the exhaustive one-rune sweep checks",
        "NOT proved: that the templates as a whole emit a well-typed package. That part of the property is decided by the compile matrix (regenerate with /repo's generator, go build ./..., go vet type check incl. test files) over corpus specs, a pairwise covering array of the 11 features x ConvenientErrors, hostile-name documents, hostile single-node mutations of corpus specs, response matrices, random schema documents and the collision stream (position x identifier declared by the generated package itself). The Go compiler is the oracle there; it is a search, not a theorem.",
    ],
    "assumptions": ["IgnoreNotImplemented=all and InferSchemaType=true in the compile matrix (as the repository's own TestGenerate does)", "go vet -asmdecl is used as a type check of all files including *_test.go (no analyzer that could object to generated code is enabled)"],
    "level_text": "partial: name_is_identifier, name_not_keyword, name_fails_iff_nothing_nameable, clean_is_safe for every input string with the regenerated rule table; no_silent_overwrite, overwrite_only_by_generic, merge_same_base_only for every successful run of type-store operations, with the witness no_silent_overwrite_full_is_false for the one overwrite the code does not refuse. 'Every accepted document compiles in every feature configuration' is not a theorem: the compile matrix searches for a failing document (known classes K12 identifier collisions, K13 control characters in names; three defects fixed)",
    "level_note": "trusted: Lean kernel, statements, fact translator, hooks + correspondence, the Go toolchain as compile oracle. Known findings K12, K13.",
    "technique": "Lean 4 proof over hand-written models of identifier synthesis and the type store (rule table regenerated from source; models tied to the code through verif hooks on exhaustive and random inputs) plus a regenerate-and-compile matrix as failing-input search",
}

PROPS["C08"] = {
    "lean_modules": ["Ogen.Props.C08"],
    "suites": ["c08"],
    "facts": ["regex"],
    "trusted_base": [
        KERNEL, HARNESS,
        "the fact translator harness/cmd/extract: Ogen/Generated/Facts_regex.lean (whitespaceChars, re2Dot, the [] / [^] replacement texts: what Convert of the working tree's ogenregex, linked into the translator, answers for the one-token patterns \\s, \\S, ., [], [^]) regenerated on every run; facts_whitespace, facts_dot, facts_any_class, facts_empty_class are stated over it",
        "statements in lean/Ogen/Props/C08.lean; the ECMA-262 side (ecmaDenote: WhiteSpace = TAB VT FF ZWNBSP + category Zs of Unicode 15, LineTerminator, ASCII \\d \\w, code-point `.`) and the RE2 side (re2Denote) are written by hand from the two specifications; Go's regexp atom semantics are modelled, not verified — tied by running every emitted atom against a code-point grid (thorough tier: every code point of planes 0–2 and every 16th above)",
        "model Conv.convert hand-written from ogenregex/convert.go; tie = output text compared with the real Convert on random token sequences incl. malformed ones; end-to-end tie = ogenregex.Compile(p).MatchString(s) compared with accepts (ecmaDenote e) s on every subject of length ≤ L over a 17-symbol alphabet; regexp2 is a second opinion in the failing-input search only where it is itself ECMA-262",
        "further ties on the implementation: denotation of every \\cX and legacy octal escape; engine agreement (a pattern of the sub-fragment both engines implement faithfully, forced onto regexp2 by a look-around that cannot fail, answers as its converted form); generated validators (a regenerated server accepts a string member exactly when ogenregex.Compile(pattern).MatchString does, incl. patterns that look like match-all and subjects with line terminators)",
        "NOT proved: syntax commutation for groups, classes with ranges, bounded repetition and look-ahead escapes; the fallback decision is checked on the implementation",
    ],
    "assumptions": ["no flags; Unicode 15 Zs set", "quantified assertions (`^*`) are outside the portable grammar"],
    "level_text": "partial: preserves (language preservation for the fragment, all subjects) with the atom lemmas over all code points stated on constants regenerated from the source; convert_flat (syntax commutation for flat tokens). Whole-grammar syntax commutation is not proved: it is covered by the converter-text and end-to-end correspondences on every run.",
    "level_note": "trusted: Lean kernel, statements, hand-written ECMA/RE2 denotations, fact translator, converter model + ties, Go regexp atom behaviour as sampled.",
    "technique": "Lean 4 proof of language preservation by structural induction with atom lemmas over all code points on constants regenerated from the source; converter model tied differentially; end-to-end matching compared with the ECMA semantics model",
}

PROPS["C11"] = {
    "lean_modules": ["Ogen.Props.C11"],
    "suites": ["c11"],
    "timeout": 7200,
    "trusted_base": [
        KERNEL, HARNESS,
        "statements in lean/Ogen/Props/C11.lean; the models of C12 (path keys), C07 (reference resolution) and C16 (JSON Pointer) with their own ties (the suites of those properties; this check re-runs none of them); model DocLines (ir.splitLine, the doc-comment line breaker: byte-level, ASCII white space) hand-written from gen/ir/description.go, tied through the hook ir.VerifSplitLine on all texts of up to 6 (8) symbols over a five-symbol alphabet at limits 2/3/4/6, description shapes at limit 100 and random texts, under a watchdog",
        "NOT modelled and decided on the implementation only: every other part of parser and generator, bounded time/memory, the line:column clause beyond the scenarios named below. The mutation sweep (single-fault structural mutations of corpus specs, truncations, random bytes, 100- and 1000-deep nesting) runs ogen.Parse + gen.NewGenerator + WriteSource in memory under recover and a 30 s watchdog, in child processes of the harness (a Go fatal error such as a stack overflow cannot be recovered: the child dies, the document gets the outcome `fatal`, a new child is started); further streams: random oneOf/anyOf/allOf graphs with inline hops, `$ref`s one past the end of an array, located-diagnostic scenarios over two files (the position an error names must lie inside the file it names, at the faulty node)",
    ],
    "assumptions": ["a hung generation is detected by a watchdog, not interrupted"],
    "level_text": "partial (modelled components only): path_key_total, ref_cycles_error, ref_depth_error, pointer_total, doc_split_total / doc_split_keeps_text / doc_split_line_bound (the doc-comment line breaker: terminates on every input, drops nothing but white space, bounds cut lines) are Lean theorems (totality is also built into the definitions: Lean accepts only terminating functions, Go panics are explicit outcomes). Totality of the rest of the generator is a mutation sweep over the corpus on every run, not a theorem.; location.Lines (the newline table and the byte range of a line: lines_collect_spec, lines_range_ok, lines_range_is_one_line) and the width of the listing's number column (listing_padding_nonneg, listing_padding_fits) are theorems for every document and line number, tied by running Lines.Collect/Line and File.PrintListing against the model",
    "level_note": "trusted: Lean kernel, statements, the component models and their ties (C12, C07, C16 checks), the mutation sweep harness.",
    "technique": "Lean 4 totality theorems for the modelled components (explicit panic outcome / structural termination); single-fault mutation sweep of corpus specs through the real parser and generator under recover + watchdog",
}

PROPS["C10"] = {
    "lean_modules": ["Ogen.Props.C10"],
    "suites": ["c10"],
    "facts": ["genorder"],
    "timeout": 3600,
    "trusted_base": [
        KERNEL, HARNESS,
        "statements in lean/Ogen/Props/C10.lean; model GenOrder (Ogen/GenOrderLib.lean, hand-written from gen/write.go collectStrings / getBuffer / WriteSource and internal/xmaps): sortedKeys, the seen-set depth-first walk collect, runWrites, generate, writeSource over a World = (map order, completion order, pool content, buffer assignment)",
        "ties: xmaps.SortedKeys (verif hook) and TemplateConfig.RegexStrings/RatStrings on random type graphs spread over the Types/Interfaces maps, the error type and operations, each evaluated repeatedly under Go's own map-order randomisation, compared line by line with the model; the observed completion order of WriteSource's writers replayed through the model's file system; regenerated facts (file names written on an all-template probe, getBuffer's calls)",
        "NOT modelled, decided by search on every run: every other map range of parser and generator and what the templates read — each corpus / random / map-heavy document is generated 5 (thorough: 11) times in one process from a fresh parse with GOMAXPROCS in {1,2,4,16,…}, documents interleaved in different orders and the buffer pool poisoned through a verif hook, bytes compared; data races: a -race build of the harness generates the documents under the race detector (the Go memory model cannot be exhibited by the Lean model)",
    ],
    "assumptions": ["Go re-randomises map iteration order at every range statement (so repeated generation samples the orders)", "the race detector reports a race only when the racing accesses actually happen in a run"],
    "level_text": "partial: sorted_keys_order_independent, string_table_spec / string_table_order_independent (the seen-set walk returns exactly the reachable types for any graph, any root order), schedule_independent (with the witness that distinct file names are needed), pool_independent and their composition files_independent_of_world_partial are Lean theorems over all graphs, map orders, schedules and pool contents; the model is tied to xmaps.SortedKeys, collectStrings and the observed writer schedules on every run. That no other place of the generator leaks map order, and the data-race clause, are decided by repeated generation and the race detector — a search, not a theorem.; response_order_independent: ir.sortResponseInfos orders the entries of the status-code map independently of the map's iteration order (false before fix 6497f487), tied through the hook ir.VerifSortResponseInfos",
    "level_note": "trusted: Lean kernel, statements, the hand-written ordering model and its ties, the verif hooks, Go's map-order randomisation and race detector as the search's oracles.",
    "technique": "Lean 4 proofs (DFS reachability invariant, canonicity of strictly sorted lists, commutation of writes to distinct names) over a hand-written model of WriteSource's ordering logic tied by differential correspondence; repeated in-process regeneration under varied GOMAXPROCS / document order / poisoned pool and a race-detector child as failing-input search",
}

PROPS["C19"] = {
    "lean_modules": ["Ogen.Props.C19"],
    "suites": ["c19"],
    "facts": ["conc"],
    "timeout": 3600,
    "trusted_base": [
        KERNEL, HARNESS, GENCHECK,
        "statements in lean/Ogen/Props/C19.lean; model Conc (Ogen/Concurrency_proof.lean): requests as sequences of atomic steps over immutable globals and private state, schedules as arbitrary interleavings; SharedMachine / usePooledNoReset as the counter-models",
        "the fact translator (go/ast, no type checker): package-level variables and every write through one outside init — assignment to the variable, an element, field or dereference of it, ++/--, address-of, delete/clear/copy — in the package the working tree's generator writes for a probe document (all features; patterns for both regex engines, multipleOf, sums, security, form and stream bodies) and in uri, conv, json, validate, ogenregex, ogenerrors, http, middleware, otelogen, internal/bitset; method calls that mutate a global through a pointer receiver are NOT seen by it (sync.Pool/Once use is intended)",
        "NOT modelled: the Go memory model, net/http, regexp / regexp2 / math/big internals — decided by search on every run: two packages regenerated from the working tree (default and all features) compiled with -race, 12 (thorough 24) goroutines × mixed valid / refused / failing requests through the server and through the generated client, each outcome compared with the same call run alone (twice, so that the baseline is itself reproducible)",
    ],
    "assumptions": ["the race detector reports only races that happen in a run", "the handler installed by the harness is a pure function of the request it is given (it is: an echo)"],
    "level_text": "partial: outcome_as_alone, interleavings_agree, no_leak_between_requests, no_leak_through_pool are Lean theorems over all machines, states and schedules of an atomic-step model whose premise (no write to shared state outside init) is a fact regenerated from the generated package and the runtime packages on every run; witnesses show the premises are needed. Data-race freedom in the sense of the Go memory model and the behaviour of third-party code are decided by a race-detector stress on regenerated code, which is a search, not a theorem.",
    "level_note": "trusted: Lean kernel, statements, the atomic-step abstraction, the go/ast fact translator, gencheck pipeline, Go's race detector and net/http as the search's oracles.",
    "technique": "Lean 4 non-interference proof (induction over schedules) on an atomic-step model whose no-shared-writes premise is a fact regenerated by a go/ast translator from the generated package and the runtime packages; race-detector stress of regenerated client/server with per-call comparison against the sequential outcome as failing-schedule search",
}

# properties not claimed, with the reason (kept current; see DESIGN.md §7)
NOT_CLAIMED = {
    "C14": "not applicable: equality of two concrete artefacts obtained by re-running the generator; there is no law to state about a model (DESIGN.md §7)",
    "C17": "not applicable: decided by third-party YAML/JSON parsers; ogen's part has no decision logic to model (DESIGN.md §7)",
}
for _p in ["C01", "C02", "C03", "C04", "C05", "C06", "C07", "C08", "C09", "C11", "C13", "C15", "C16", "C18", "C20"]:
    if _p not in PROPS:
        NOT_CLAIMED[_p] = "not claimed yet: machinery under construction (theorems exist in lean/Ogen, the tie to /repo is not finished)"

HOOK_COMMITS = ["8a1dd2e74a0b79a9e824b1b1ebee79bbac4dec2d", "0932b764a1d9512d33b0edbdb0df4d17b735f038", "ef3ea3473b26c332debe40e97892594d565639bc", "aee233eac6b9663d90022f009f68c7808e867606", "7e96f1649686c29e7dfd0604b7e07018df5f9b9f", "cbf132b99aca4f7c72df174ea158d4d8914d594d", "8e171b49bc5a4ebab20cd88e19e274748bdc7677", "772c1aa6b9861b16985da9a2422fc223aef25211", "8cced4062d96ba4721752a06483809b441a031dc", "17e2cc6c55514adde6e33ef67cd8a7819f2b1250", "a517ea4b1164102ffe37b1f38de190711fb14d9c"]

