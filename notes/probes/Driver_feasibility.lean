import Norm_feasibility
open Norm

def hexVal (c : Char) : UInt8 :=
  if c.isDigit then (c.toNat - 48).toUInt8 else if 'a' ≤ c ∧ c ≤ 'f' then (c.toNat - 87).toUInt8 else (c.toNat - 55).toUInt8

def parseHex : List Char → List UInt8
  | a :: b :: rest => (hexVal a * 16 + hexVal b) :: parseHex rest
  | _ => []

def hexDigit (n : UInt8) : Char := if n < 10 then Char.ofNat (48 + n.toNat) else Char.ofNat (87 + n.toNat)
def toHex (bs : List UInt8) : String := String.mk (bs.flatMap fun b => [hexDigit (b / 16), hexDigit (b % 16)])

partial def loop (h : IO.FS.Stream) (out : IO.FS.Stream) : IO Unit := do
  let line ← h.getLine
  if line.isEmpty then return ()
  let bs := parseHex (line.trimAscii.toString.toList)
  match normalize bs with
  | .ok t => out.putStrLn ("ok:" ++ toHex t)
  | .err => out.putStrLn "err"
  | .panic => out.putStrLn "panic"
  loop h out

def main : IO Unit := do loop (← IO.getStdin) (← IO.getStdout)
