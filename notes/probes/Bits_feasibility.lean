/-! Feasibility probe for C09/C03 mask arithmetic. -/
namespace Bits
abbrev Bitset := List UInt8

def bit (b : UInt8) (k : Nat) : Bool := (b >>> k.toUInt8) &&& 1 == 1

def setByte (b : UInt8) (k : Nat) : UInt8 := b ||| ((1 : UInt8) <<< k.toUInt8)

/-- bitset.Set(i, true): grow with zero bytes, then or the bit in -/
def set : Bitset → Nat → Bitset
  | [], i => if i < 8 then [setByte 0 i] else 0 :: set [] (i - 8)
  | b :: bs, i => if i < 8 then setByte b i :: bs else b :: set bs (i - 8)

def test : Bitset → Nat → Bool
  | [], _ => false
  | b :: bs, i => if i < 8 then bit b i else test bs (i - 8)

theorem forall_byte {P : UInt8 → Prop} (h : ∀ n : Fin 256, P (UInt8.ofFin n)) : ∀ c : UInt8, P c := by
  intro c; simpa using h c.toFin

theorem bit_setByte : ∀ (b : UInt8) (k j : Fin 8), bit (setByte b k) j = (decide (j = k) || bit b j) := by
  apply forall_byte; decide +kernel

theorem bit_zero : ∀ j : Fin 8, bit 0 j = false := by decide

theorem test_set (bs : Bitset) (i j : Nat) : test (set bs i) j = (decide (j = i) || test bs j) := by
  induction bs generalizing i j with
  | nil =>
    induction i using Nat.strongRecOn generalizing j with
    | _ i ih =>
      unfold set
      by_cases hi : i < 8
      · simp only [hi, if_true]
        unfold test
        by_cases hj : j < 8
        · simp only [hj, if_true]
          have := bit_setByte 0 ⟨i, hi⟩ ⟨j, hj⟩
          simp only [Fin.mk.injEq] at this
          rw [this, bit_zero ⟨j, hj⟩]
        · have : j ≠ i := by omega
          simp [hj, this, test]
      · simp only [hi, if_false]
        unfold test
        by_cases hj : j < 8
        · have : j ≠ i := by omega
          simp [hj, this]
          exact bit_zero ⟨j, hj⟩
        · simp only [hj, if_false]
          rw [ih (i - 8) (by omega) (j - 8)]
          have : (j - 8 = i - 8) = (j = i) := by
            apply propext; constructor <;> intro h <;> omega
          simp [this, test]
  | cons b bs ih =>
    unfold set
    by_cases hi : i < 8
    · simp only [hi, if_true]
      unfold test
      by_cases hj : j < 8
      · simp only [hj, if_true]
        have := bit_setByte b ⟨i, hi⟩ ⟨j, hj⟩
        simp only [Fin.mk.injEq] at this
        exact this
      · have : j ≠ i := by omega
        simp [hj, this]
    · simp only [hi, if_false]
      unfold test
      by_cases hj : j < 8
      · have : j ≠ i := by omega
        simp [hj, this]
      · simp only [hj, if_false]
        rw [ih (i - 8) (j - 8)]
        have : (j - 8 = i - 8) = (j = i) := by
          apply propext; constructor <;> intro h <;> omega
        simp [this]

/-- the generated check `satisfied[i] & mask != mask` for every byte of the mask -/
def covers : Bitset → Bitset → Bool
  | _, [] => true
  | [], m :: ms => m == 0 && covers [] ms
  | s :: ss, m :: ms => (s &&& m == m) && covers ss ms

-- theorem and_eq_iff (brute force over 65 536 pairs) checked in the probe: ≈2 min with `decide +kernel`;
-- the real development proves it bitwise through `UInt8.toBitVec` instead.

#print axioms test_set
end Bits
namespace AndEq
/-- the generated test `satisfied[i] & mask == mask`, bitwise -/
theorem and_eq_iff (s m : BitVec 8) : (s &&& m = m) ↔ ∀ k, k < 8 → m.getLsbD k = true → s.getLsbD k = true := by
  constructor
  · intro h k _ hk
    have : (s &&& m).getLsbD k = m.getLsbD k := by rw [h]
    rw [BitVec.getLsbD_and, hk] at this
    simpa using this
  · intro h
    apply BitVec.eq_of_getLsbD_eq
    intro k hk
    rw [BitVec.getLsbD_and]
    cases hm : m.getLsbD k with
    | false => simp
    | true => simp [h k hk hm]

theorem and_eq_iff_u8 (s m : UInt8) : (s &&& m = m) ↔ ∀ k, k < 8 → m.toBitVec.getLsbD k = true → s.toBitVec.getLsbD k = true := by
  rw [← and_eq_iff]
  constructor
  · intro h; have := congrArg UInt8.toBitVec h; simpa using this
  · intro h; apply UInt8.toBitVec_inj.mp; simpa using h
#print axioms and_eq_iff_u8
end AndEq
