import UriCodecLib
/-! Driver for the C06 codec model (`UriCodecLib.lean`): one round trip per input line. -/
partial def loop (h : IO.FS.Stream) : IO Unit := do
  let line ← h.getLine
  if line.isEmpty then return ()
  IO.println (Codec.runLine line.trimAscii.toString)
  loop h

def main : IO Unit := do loop (← IO.getStdin)
