/-! Feasibility probe + proofs for C16: model of jsonpointer.find (with the D7 repair) against an RFC 6901 evaluator.
    Only the plain `/a/b` form is covered here; `#…` adds percent-decoding in front. -/
namespace Ptr
abbrev Bytes := List UInt8

inductive Node where
  | scalar (id : Nat)
  | map (members : List (Bytes × Node))
  | seq (items : List Node)

/-- strings.IndexByte / splitFunc: split on '/' (never empty) -/
def splitAux : Bytes → Bytes → List Bytes
  | [], cur => [cur.reverse]
  | c :: cs, cur => if c = 0x2f then cur.reverse :: splitAux cs [] else splitAux cs (c :: cur)
def split (s : Bytes) : List Bytes := splitAux s []

/-- D7: every '~' must be followed by '0' or '1' -/
def escapesOk : Bytes → Bool
  | [] => true
  | 0x7e :: 0x30 :: rest => escapesOk rest
  | 0x7e :: 0x31 :: rest => escapesOk rest
  | 0x7e :: _ => false
  | _ :: rest => escapesOk rest

/-- strings.NewReplacer("~1", "/", "~0", "~"): one left-to-right pass -/
def unescape : Bytes → Bytes
  | [] => []
  | 0x7e :: 0x31 :: rest => 0x2f :: unescape rest
  | 0x7e :: 0x30 :: rest => 0x7e :: unescape rest
  | c :: rest => c :: unescape rest

def isDigit (c : UInt8) : Bool := 0x30 ≤ c && c ≤ 0x39

/-- strconv.ParseUint(part, 10, 64) with the D7 leading-zero check -/
def parseIndex (part : Bytes) : Option Nat :=
  if part.isEmpty then none
  else if part.length > 1 && part.head? = some 0x30 then none
  else if !part.all isDigit then none
  else
    let v := part.foldl (fun a d => a * 10 + (d.toNat - 48)) 0
    if v < 2 ^ 64 then some v else none

def findKey : List (Bytes × Node) → Bytes → Option Node
  | [], _ => none
  | (k, v) :: rest, key => if k = key then some v else findKey rest key

def step (n : Node) (rawPart : Bytes) : Option Node :=
  if !escapesOk rawPart then none else
  let part := unescape rawPart
  match n with
  | .map ms => findKey ms part
  | .seq items => (parseIndex part).bind (fun i => items[i]?)
  | .scalar _ => none

def find (ptr : Bytes) (n : Node) : Option Node :=
  match ptr with
  | [] => some n
  | 0x2f :: rest => (split rest).foldlM step n
  | _ => none

/-! RFC 6901, written independently: grammar of reference tokens, then evaluation -/
inductive TokOk : Bytes → Bytes → Prop   -- raw token ↦ decoded token
  | nil : TokOk [] []
  | slash {r d} : TokOk r d → TokOk (0x7e :: 0x31 :: r) (0x2f :: d)
  | tilde {r d} : TokOk r d → TokOk (0x7e :: 0x30 :: r) (0x7e :: d)
  | other {c r d} : c ≠ 0x7e → c ≠ 0x2f → TokOk r d → TokOk (c :: r) (c :: d)

/-- array-index = "0" / ( %x31-39 *DIGIT ) -/
def rfcIndex (tok : Bytes) : Option Nat :=
  match tok with
  | [0x30] => some 0
  | d :: ds => if 0x31 ≤ d && d ≤ 0x39 && ds.all isDigit then some ((d :: ds).foldl (fun a d => a * 10 + (d.toNat - 48)) 0) else none
  | [] => none

inductive Eval : List Bytes → Node → Node → Prop   -- raw tokens, start, result
  | done {n} : Eval [] n n
  | member {raw tok ms v rest r} : TokOk raw tok → findKey ms tok = some v → Eval rest v r → Eval (raw :: rest) (.map ms) r
  | index {raw tok items i v rest r} : TokOk raw tok → rfcIndex tok = some i → items[i]? = some v → Eval rest v r →
      Eval (raw :: rest) (.seq items) r

/- Theorems planned on these definitions (C16): `find p d = some n → Eval (split p.tail) d n` (sound),
   the converse (complete), and totality. Not attempted in the design phase. -/
end Ptr
