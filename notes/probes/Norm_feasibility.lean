/-! Prototype for C12 (fixed NormalizeEscapedPath). -/
namespace Norm
abbrev Bytes := List UInt8

inductive Outcome (α : Type) where
  | ok (a : α) | err | panic
deriving Repr, DecidableEq

def Outcome.map {α β} (f : α → β) : Outcome α → Outcome β
  | .ok a => .ok (f a) | .err => .err | .panic => .panic

def ishex (c : UInt8) : Bool :=
  (0x30 ≤ c && c ≤ 0x39) || (0x61 ≤ c && c ≤ 0x66) || (0x41 ≤ c && c ≤ 0x46)
def unhex (c : UInt8) : UInt8 :=
  if 0x30 ≤ c && c ≤ 0x39 then c - 0x30
  else if 0x61 ≤ c && c ≤ 0x66 then c - 0x61 + 10
  else if 0x41 ≤ c && c ≤ 0x46 then c - 0x41 + 10 else 0
def up (c : UInt8) : UInt8 := if 0x61 ≤ c && c ≤ 0x66 then c - 0x20 else c
def isLower (c : UInt8) : Bool := 0x61 ≤ c && c ≤ 0x7a
def shouldEscape (c : UInt8) : Bool :=
  !((0x61 ≤ c && c ≤ 0x7a) || (0x41 ≤ c && c ≤ 0x5a) || (0x30 ≤ c && c ≤ 0x39)
    || c == 0x2d || c == 0x5f || c == 0x2e || c == 0x7e)
def val (a b : UInt8) : UInt8 := unhex a <<< 4 ||| unhex b
def needs (a b : UInt8) : Bool := isLower a || isLower b || !shouldEscape (val a b)

/-- first loop: validate every escape, remember whether a rewrite is needed -/
def scan : Bytes → Option Bool
  | [] => some false
  | c :: cs =>
    if c = 0x25 then
      match cs with
      | a :: b :: rest => if ishex a && ishex b then (scan rest).map (needs a b || ·) else none
      | _ => none
    else scan cs

/-- second loop, with the unchecked reads `s[i+1]`, `s[i+2]` made explicit -/
def slow : Bytes → Outcome Bytes
  | [] => .ok []
  | c :: cs =>
    if c = 0x25 then
      match cs with
      | a :: b :: rest =>
        (slow rest).map fun t =>
          if shouldEscape (val a b) then 0x25 :: up a :: up b :: t else val a b :: t
      | _ => .panic
    else (slow cs).map (c :: ·)

def normalize (s : Bytes) : Outcome Bytes :=
  match scan s with
  | none => .err
  | some false => .ok s
  | some true => slow s

/-! spec -/
inductive Valid : Bytes → Prop
  | nil : Valid []
  | raw {c s} : c ≠ 0x25 → Valid s → Valid (c :: s)
  | esc {a b s} : ishex a = true → ishex b = true → Valid s → Valid (0x25 :: a :: b :: s)

def octets : Bytes → Bytes
  | [] => []
  | c :: cs =>
    if c = 0x25 then
      match cs with
      | a :: b :: rest => val a b :: octets rest
      | _ => c :: cs
    else c :: octets cs

#check @scan.induct

theorem valid_pct_inv {cs : Bytes} (h : Valid (0x25 :: cs)) :
    ∃ a b rest, cs = a :: b :: rest ∧ ishex a = true ∧ ishex b = true ∧ Valid rest := by
  cases h with
  | raw hne _ => exact absurd rfl hne
  | esc ha hb hv => exact ⟨_, _, _, rfl, ha, hb, hv⟩

theorem scan_some_iff_valid (s : Bytes) : (scan s).isSome ↔ Valid s := by
  fun_induction scan s with
  | case1 => simp; exact Valid.nil
  | case2 a b rest hh ih =>
    simp only [Bool.and_eq_true] at hh
    constructor
    · intro h
      exact Valid.esc hh.1 hh.2 (ih.mp (by simpa using h))
    · intro h
      obtain ⟨a', b', rest', heq, _, _, hv⟩ := valid_pct_inv h
      cases heq
      simpa using ih.mpr hv
  | case3 a b rest hh =>
    constructor
    · intro h; simp at h
    · intro h
      obtain ⟨a', b', rest', heq, ha, hb, _⟩ := valid_pct_inv h
      cases heq
      simp [ha, hb] at hh
  | case4 cs hcs =>
    constructor
    · intro h; simp at h
    · intro h
      obtain ⟨a', b', rest', heq, _, _, _⟩ := valid_pct_inv h
      exact absurd heq (hcs _ _ _)
  | case5 c cs hc ih =>
    constructor
    · intro h; exact Valid.raw hc (ih.mp h)
    · intro h
      cases h with
      | raw _ hv => exact ih.mpr hv
      | esc _ _ _ => exact absurd rfl hc

/-- lift a `decide`d fact over all 256 bytes -/
theorem forall_byte {P : UInt8 → Prop} (h : ∀ n : Fin 256, P (UInt8.ofFin n)) : ∀ c : UInt8, P c := by
  intro c; simpa using h c.toFin

theorem slow_no_panic (s : Bytes) (h : (scan s).isSome) : ∃ t, slow s = .ok t := by
  fun_induction scan s with
  | case1 => exact ⟨[], rfl⟩
  | case2 a b rest hh ih =>
    obtain ⟨t, ht⟩ := ih (by simpa using h)
    unfold slow
    simp [ht, Outcome.map]
  | case3 a b rest hh => simp at h
  | case4 cs hcs => simp at h
  | case5 c cs hc ih =>
    obtain ⟨t, ht⟩ := ih h
    unfold slow
    simp [hc, ht, Outcome.map]

theorem normalize_total (s : Bytes) : normalize s ≠ .panic := by
  unfold normalize
  split
  · simp
  · simp
  · rename_i h
    obtain ⟨t, ht⟩ := slow_no_panic s (by simp [h])
    simp [ht]

theorem normalize_err_iff (s : Bytes) : normalize s = .err ↔ ¬ Valid s := by
  rw [← scan_some_iff_valid]
  unfold normalize
  split
  · rename_i h; simp [h]
  · rename_i h; simp [h]
  · rename_i h
    obtain ⟨t, ht⟩ := slow_no_panic s (by simp [h])
    simp [ht, h]

/-- canonical: only upper-case escapes of bytes that must be escaped -/
inductive Canon : Bytes → Prop
  | nil : Canon []
  | raw {c s} : c ≠ 0x25 → Canon s → Canon (c :: s)
  | esc {a b s} : ishex a = true → ishex b = true → needs a b = false → Canon s → Canon (0x25 :: a :: b :: s)

theorem scan_false_iff_canon (s : Bytes) : scan s = some false ↔ Canon s := by
  fun_induction scan s with
  | case1 => simp; exact Canon.nil
  | case2 a b rest hh ih =>
    simp only [Bool.and_eq_true] at hh
    constructor
    · intro h
      cases hs : scan rest with
      | none => simp [hs] at h
      | some r =>
        simp [hs] at h
        exact Canon.esc hh.1 hh.2 h.1 (ih.mp (by simp [hs, h.2]))
    · intro h
      cases h with
      | raw hne _ => exact absurd rfl hne
      | esc _ _ hn hc => simp [ih.mpr hc, hn]
  | case3 a b rest hh =>
    constructor
    · intro h; simp at h
    · intro h
      cases h with
      | raw hne _ => exact absurd rfl hne
      | esc ha hb _ _ => simp [ha, hb] at hh
  | case4 cs hcs =>
    constructor
    · intro h; simp at h
    · intro h
      cases h with
      | raw hne _ => exact absurd rfl hne
      | esc _ _ _ _ => exact absurd rfl (hcs _ _ _)
  | case5 c cs hc ih =>
    constructor
    · intro h; exact Canon.raw hc (ih.mp h)
    · intro h
      cases h with
      | raw _ hv => exact ih.mpr hv
      | esc _ _ _ _ => exact absurd rfl hc

theorem byte_facts : ∀ a : UInt8, ishex a = true →
    ishex (up a) = true ∧ isLower (up a) = false ∧ unhex (up a) = unhex a := by
  apply forall_byte; decide +kernel

theorem raw_not_pct : ∀ v : UInt8, shouldEscape v = false → v ≠ 0x25 := by
  apply forall_byte; decide +kernel

@[simp] theorem octets_raw {c : UInt8} {cs : Bytes} (hc : c ≠ 0x25) : octets (c :: cs) = c :: octets cs := by
  conv => lhs; unfold octets
  simp [hc]
@[simp] theorem octets_esc {a b : UInt8} {rest : Bytes} : octets (0x25 :: a :: b :: rest) = val a b :: octets rest := by
  conv => lhs; unfold octets
  simp

theorem slow_spec (s : Bytes) (h : Valid s) : ∃ t, slow s = .ok t ∧ Canon t ∧ octets t = octets s := by
  induction h with
  | nil => exact ⟨[], rfl, Canon.nil, rfl⟩
  | @raw c s hc _ ih =>
    obtain ⟨t, ht, hcan, hoct⟩ := ih
    refine ⟨c :: t, ?_, Canon.raw hc hcan, ?_⟩
    · unfold slow; simp [hc, ht, Outcome.map]
    · simp [hc, hoct]
  | @esc a b s ha hb _ ih =>
    obtain ⟨t, ht, hcan, hoct⟩ := ih
    obtain ⟨ha1, ha2, ha3⟩ := byte_facts a ha
    obtain ⟨hb1, hb2, hb3⟩ := byte_facts b hb
    by_cases hs : shouldEscape (val a b) = true
    · refine ⟨0x25 :: up a :: up b :: t, ?_, ?_, ?_⟩
      · unfold slow; simp [ht, Outcome.map, hs]
      · refine Canon.esc ha1 hb1 ?_ hcan
        simp [needs, ha2, hb2, val, ha3, hb3]; simpa [val] using hs
      · simp [val, ha3, hb3, hoct]
    · have hs' : shouldEscape (val a b) = false := by simpa using hs
      refine ⟨val a b :: t, ?_, Canon.raw (raw_not_pct _ hs') hcan, ?_⟩
      · unfold slow; simp [ht, Outcome.map, hs']
      · simp [raw_not_pct _ hs', hoct]

theorem normalize_ok_spec {s t : Bytes} (h : normalize s = .ok t) :
    Valid s ∧ Canon t ∧ octets t = octets s := by
  unfold normalize at h
  split at h
  · cases h
  · rename_i hs
    cases h
    exact ⟨(scan_some_iff_valid _).mp (by simp [hs]), (scan_false_iff_canon _).mp hs, rfl⟩
  · rename_i hs
    have hv := (scan_some_iff_valid s).mp (by simp [hs])
    obtain ⟨t', ht', hc, ho⟩ := slow_spec s hv
    rw [ht'] at h; cases h
    exact ⟨hv, hc, ho⟩

theorem normalize_idem {s t : Bytes} (h : normalize s = .ok t) : normalize t = .ok t := by
  have hc := (normalize_ok_spec h).2.1
  unfold normalize
  simp [(scan_false_iff_canon t).mpr hc]

#print axioms normalize_idem
#print axioms normalize_total
#print axioms normalize_ok_spec
end Norm
