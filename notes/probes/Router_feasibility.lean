abbrev Bytes := List UInt8

inductive Part where
  | lit (b : Bytes)
  | param
deriving Repr, DecidableEq

/-- Radix node. `isParam` nodes capture an argument; static nodes consume `pfx`. -/
inductive Node where
  | mk (isParam : Bool) (pfx : Bytes) (children : List Node) (routes : List String)

namespace Node
def isParam : Node → Bool | mk p _ _ _ => p
def pfx : Node → Bytes | mk _ p _ _ => p
def children : Node → List Node | mk _ _ c _ => c
def routes : Node → List String | mk _ _ _ r => r
def head (n : Node) : Option UInt8 := n.pfx.head?
end Node

/-- first index of a byte satisfying `p`, or length -/
def cutAt (p : UInt8 → Bool) : Bytes → Bytes × Bytes
  | [] => ([], [])
  | b :: bs => if p b then ([], b :: bs) else let (x, y) := cutAt p bs; (b :: x, y)

theorem cutAt_append (p : UInt8 → Bool) (s : Bytes) : (cutAt p s).1 ++ (cutAt p s).2 = s := by
  induction s with
  | nil => rfl
  | cons b bs ih =>
    unfold cutAt
    split
    · rfl
    · simp [ih]

def stripPrefix : Bytes → Bytes → Option Bytes
  | [], s => some s
  | _ :: _, [] => none
  | p :: ps, b :: bs => if p = b then stripPrefix ps bs else none

theorem stripPrefix_some {p s r : Bytes} (h : stripPrefix p s = some r) : s = p ++ r := by
  induction p generalizing s with
  | nil => simp [stripPrefix] at h; simp [h]
  | cons a ps ih =>
    cases s with
    | nil => simp [stripPrefix] at h
    | cons b bs =>
      simp only [stripPrefix] at h
      split at h
      · rename_i hab; subst hab; simp [ih h]
      · cases h

mutual
/-- what the unrolled `route_edge` does at node `n` with remaining path `elem`. -/
def edge : Node → Bytes → Option (List String × List Bytes)
  | .mk _ _ cs rs, elem =>
    if cs.isEmpty then
      if elem.isEmpty then some (rs, []) else none
    else if !rs.isEmpty && elem.isEmpty then some (rs, [])
    else
      let statics := cs.filter (fun c => !c.isParam)
      if !statics.isEmpty && rs.isEmpty && elem.isEmpty then none
      else
        match tryStatic cs elem with
        | some r => some r
        | none => tryParam cs (cs.filterMap (fun c => if c.isParam then none else c.head)) elem

def tryStatic : List Node → Bytes → Option (List String × List Bytes)
  | [], _ => none
  | c :: cs, elem =>
    match c with
    | .mk false p cc rr =>
      if p.head? = elem.head? then
        match stripPrefix p elem with
        | some rest =>
          match edge (.mk false p cc rr) rest with
          | some r => some r
          | none => none   -- the switch has one case per head: no other static sibling can match
        | none => none
      else tryStatic cs elem
    | .mk true _ _ _ => tryStatic cs elem

def tryParam : List Node → List UInt8 → Bytes → Option (List String × List Bytes)
  | [], _, _ => none
  | c :: cs, _tails, elem =>
    match c with
    | .mk true p cc rr =>
      let tails := cc.filterMap (fun d => if d.isParam then none else d.head)
      if tails.isEmpty then
        if elem.contains 0x2f then none
        else match edge (.mk true p cc rr) [] with
          | some (r, args) => some (r, elem :: args)
          | none => none
      else
        let (arg, rest) := cutAt (fun b => tails.contains b) elem
        match edge (.mk true p cc rr) rest with
        | some (r, args) => some (r, arg :: args)
        | none => none
    | .mk false _ _ _ => tryParam cs _tails elem
end

mutual
def flatten : Node → List (List Part × List String)
  | .mk isP p cs rs =>
    let me : Part := if isP then .param else .lit p
    (if rs.isEmpty then [] else [([me], rs)]) ++ (flattenL cs).map (fun (t, r) => (me :: t, r))
def flattenL : List Node → List (List Part × List String)
  | [] => []
  | c :: cs => flatten c ++ flattenL cs
end

def inst : List Part → List Bytes → Option Bytes
  | [], [] => some []
  | [], _ :: _ => none
  | .lit b :: ps, args => (inst ps args).map (b ++ ·)
  | .param :: _, [] => none
  | .param :: ps, a :: args => (inst ps args).map (a ++ ·)

#eval edge (.mk false [] [.mk false [47,97,47] [.mk true [] [] ["opA"]] []] []) [47,97,47,98]

/-- templates strictly below a node (its own part already consumed) -/
def below : Node → List (List Part × List String)
  | .mk _ _ cs rs => (if rs.isEmpty then [] else [([], rs)]) ++ flattenL cs

theorem inst_lit_cons {b : Bytes} {t : List Part} {args : List Bytes} {r : Bytes}
    (h : inst t args = some r) : inst (.lit b :: t) args = some (b ++ r) := by
  simp [inst, h]

theorem inst_param_cons {a : Bytes} {t : List Part} {args : List Bytes} {r : Bytes}
    (h : inst t args = some r) : inst (.param :: t) (a :: args) = some (a ++ r) := by
  simp [inst, h]

theorem mem_flatten_of_below {isP p cs rs t r} (h : (t, r) ∈ below (.mk isP p cs rs)) :
    ((if isP then Part.param else Part.lit p) :: t, r) ∈ flatten (.mk isP p cs rs) := by
  unfold below at h
  unfold flatten
  simp only [List.mem_append] at h ⊢
  rcases h with h | h
  · left
    split at h
    · cases h
    · simp at h; rcases h with ⟨rfl, rfl⟩; simp_all
  · right
    simp only [List.mem_map]
    exact ⟨(t, r), h, rfl⟩

/- The soundness theorems are stated mutually over `edge` / `tryStatic` / `tryParam`
   (`mutual theorem edge_sound … theorem tryStatic_sound … end`, by structural recursion on
   the nested inductive). The skeleton with placeholder bodies was accepted by Lean 4.33 in the
   probe; the bodies are deliberately not kept here — no placeholder proofs live in /verif. -/
