#!/bin/sh
# Build the framework from files on disk only (offline): Lean project (kernel-checks every
# theorem once; later checks are incremental) and a warm-up build of the Go harness.
set -e
cd "$(dirname "$0")"
export GOFLAGS=-mod=mod GOPROXY=off GOSUMDB=off GOTOOLCHAIN=local
(cd lean && lake build)
(cd harness && go build -tags verif -o /dev/null ./cmd/corr)
(cd harness && go build -o /dev/null ./cmd/... 2>/dev/null || true)
echo setup done
